import GraafVerif.Proof.AlgoGen6
import GraafVerif.Proof.AlgoGenPredTree
/-!
# Set 6 of the imperative-Rust-subset → Lean translator: the function bodies that no earlier set regenerated

`Model/AlgoGen6.lean` is GENERATED from `/repo/src` by `tools/translate_algo.py --set 6`; every generated definition `X.f` has
an equality theorem `GraafVerif.AlgoGenThm.X.f_eq` (`Proof/AlgoGen6.lean`).  This file adds the whole-call transports
(constructor + method from generated definitions only) and non-vacuity examples.
-/
namespace GraafVerif.AlgoGenThm
open GraafVerif GraafVerif.AlgoGen GraafVerif.Repr

/-- **C02 on the regenerated `indegree_sequence`**: for a well-formed list no `*ptr.add(v) += 1` is out of bounds and the
result is the hand-written histogram -/
theorem c02_generated_indegree_sequence (d : AdjList) (h : d.WF) :
    AlgoGen.AdjacencyList.indegreeSequence d = .ok (Query.AL.indegreeSequence d) := by
  refine AdjacencyList.indegreeSequence_eq d (fun row hr v hv => ?_)
  obtain ⟨u, hu⟩ := List.getElem?_of_mem hr
  exact ((h.2 u row hu).2 v hv).1

/-- **C08 from generated definitions only**: `FloydWarshall::new(&digraph).distances()` — the generated constructor
(`DistanceMatrix::new` with its raw buffer included) followed by the generated `distances` — is the hand-written
`Fw.distances g` (hypotheses of `distances_fresh_eq`: no path sum reaches the sentinel) -/
theorem c08_generated_new_distances (g : WGraph) (inf : Int) (hinf : inf ≠ 0) (hn : 0 < g.n)
    (hsz : g.n * g.n ≤ DistMatrix.usizeMax) (hwf : g.WF) (hw : ∀ u, ∀ vw ∈ g.out u, vw.2 ≠ inf)
    (hok : FloydWarshall.CallOk inf g (List.replicate (g.n * g.n) none)) :
    (AlgoGen.FloydWarshall.new g inf >>= fun fw => AlgoGen.FloydWarshall.distances g inf fw) =
      .ok ((FloydWarshall.mk inf ⟨[], inf, g.n⟩ (GraafVerif.Fw.distances g)).dist,
           FloydWarshall.mk inf ⟨[], inf, g.n⟩ (GraafVerif.Fw.distances g)) := by
  rw [FloydWarshall.new_fresh g inf hn hsz]
  exact FloydWarshall.distances_fresh_eq g inf hinf ⟨[], inf, g.n⟩ hwf hw hok

/-- order 0: the constructor panics (`Fw.run g = .panic`) -/
theorem c08_generated_new_zero (g : WGraph) (inf : Int) (hn : g.n = 0) :
    (AlgoGen.FloydWarshall.new g inf >>= fun fw => AlgoGen.FloydWarshall.distances g inf fw) = .error (.fault .panic) ∧
      GraafVerif.Fw.run g = .panic := by
  rw [FloydWarshall.new_zero g inf hn]
  exact ⟨rfl, by simp [GraafVerif.Fw.run, hn]⟩

/-- **C05 / C19 from generated definitions only**: `PredecessorTree::from(pred).search(s, t)` is the hand-written search on
`pred` -/
theorem c19_generated_from_search (pred : List (Option Nat)) (s t : Nat) :
    (AlgoGen.PredecessorTree.fromVec pred >>= fun tr => AlgoGen.PredecessorTree.search (pred.length + 2) tr s t) =
      PredecessorTree.liftP (PredTree.search pred s t) := by
  rw [PredecessorTree.fromVec_eq]
  exact PredecessorTree.search_eq_search ⟨pred⟩ s t

/-- a write through `IndexMut` followed by a read through `Index` (both checked): the written value -/
theorem c19_generated_index_roundtrip (t : AlgoGen.PredecessorTree) (i : Nat) (x : Option Nat) (hi : i < t.pred.length) :
    (AlgoGen.PredecessorTree.indexMut t i >>= fun pt =>
        AlgoGen.PredecessorTree.index { pt.2 with pred := pt.2.pred.set pt.1 x } i) = .ok x := by
  rw [PredecessorTree.indexMut_eq, if_pos hi]
  show AlgoGen.PredecessorTree.index { t with pred := t.pred.set i x } i = .ok x
  rw [PredecessorTree.index_eq]
  simp [hi]

/-! ## Non-vacuity -/

example : AlgoGen.AdjacencyList.indegreeSequence ⟨[[1, 2], [2], [0]]⟩ = .ok [1, 1, 2] := by decide
/-- a head outside the vertices: `*ptr.add(v) += 1` is out of bounds -/
example : AlgoGen.AdjacencyList.indegreeSequence ⟨[[5], []]⟩ =
    .error (.fault (.ub "repr/adjacency_list/mod.rs:indegree_sequence:ptr.add(v)")) := by decide
example : AlgoGen.AdjacencyMap.addArc ⟨[(0, [])]⟩ 0 3 = .ok ((), ⟨[(0, [3]), (3, [])]⟩) := by decide
example : AlgoGen.AdjacencyMap.addArc ⟨[(0, [])]⟩ 2 2 = .error (.fault .panic) := by decide
example : AlgoGen.EdgeList.addArc ⟨[(1, 0)], 2⟩ 0 1 = .ok ((), ⟨[(0, 1), (1, 0)], 2⟩) := by decide
example : AlgoGen.EdgeList.addArc ⟨[], 2⟩ 0 2 = .error (.fault .panic) := by decide
example : AlgoGen.AdjacencyListWeighted.addArcWeighted ⟨[[(1, 4)], []]⟩ 0 1 (-7) = .ok ((), ⟨[[(1, -7)], []]⟩) := by decide
example : AlgoGen.AdjacencyListWeighted.addArcWeighted ⟨[[], []]⟩ 2 1 3 = .error (.fault .panic) := by decide
example : AlgoGen.FloydWarshall.new ⟨2, fun _ => []⟩ 9 = .ok ⟨⟨[9, 9, 9, 9], 9, 2⟩⟩ := by decide
example : AlgoGen.FloydWarshall.new ⟨0, fun _ => []⟩ 9 = .error (.fault .panic) := by decide
example : AlgoGen.PredecessorTree.index ⟨[none, some 0]⟩ 1 = .ok (some 0) := by decide
example : AlgoGen.PredecessorTree.index ⟨[none, some 0]⟩ 2 = .error (.fault .panic) := by decide
example : AlgoGen.PredecessorTree.indexMut ⟨[none, some 0]⟩ 2 = .error (.fault .panic) := by decide
example : AlgoGen.PredecessorTree.intoIter ⟨[none, some 0]⟩ = .ok [none, some 0] := by decide
example : AlgoGen.ContiguousOrder.contiguousOrder ⟨4⟩ = .ok 4 := by decide

end GraafVerif.AlgoGenThm
