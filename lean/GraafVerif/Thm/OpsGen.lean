import GraafVerif.Model.OpsGen
/-!
# Theorems about the GENERATED definitions of the `src/op` blanket impls (C02 / C12)

`Model/OpsGen.lean` is regenerated from `/repo/src/op/*.rs` by `tools/translate_ops.py` on every
run of the C02 / C12 checks, and this file is re-checked against it: if the code's expression
changes so that one of these statements no longer holds (a swapped argument, a flipped
comparison, a dropped conjunct), the PROOF breaks.  Each theorem states the textbook definition
of the property text over the abstract digraph `(V, A)` with `V = c.vertices`,
`A u v = (u, v) ∈ c.arcs`, under the hypotheses that the core queries of the representation are
correct (`Core.Sound`, which is what C02's per-representation theorems establish).
-/
namespace GraafVerif.OpsGen

/-- The core queries agree with the abstract digraph `(vertices, arcs)`. -/
structure Core.Sound (c : Core) : Prop where
  hasArc_iff : ∀ u v, c.hasArc u v = true ↔ (u, v) ∈ c.arcs
  endpoints : ∀ u v, (u, v) ∈ c.arcs → u ∈ c.vertices ∧ v ∈ c.vertices
  isSink_iff : ∀ u, c.isSink u = true ↔ c.outdegree u = 0
  isSource_iff : ∀ u, c.isSource u = true ↔ c.indegree u = 0

/-! ## small facts about the helper functions the translator emits -/

theorem mem_insertAsc (x y : Nat) (l : List Nat) : y ∈ insertAsc x l ↔ y = x ∨ y ∈ l := by
  induction l with
  | nil => simp [insertAsc]
  | cons z zs ih =>
    unfold insertAsc
    split
    · simp
    · split
      · rename_i h; subst h; simp
      · simp [ih]; grind

theorem mem_toSet (xs : List Nat) (y : Nat) : y ∈ toSet xs ↔ y ∈ xs := by
  unfold toSet
  suffices h : ∀ acc, y ∈ xs.foldl (fun acc x => insertAsc x acc) acc ↔ y ∈ acc ∨ y ∈ xs by simpa using h []
  induction xs with
  | nil => simp
  | cons x xs ih => intro acc; simp [ih, mem_insertAsc]; grind

theorem foldl_max_ge (r : List Nat) (x : Nat) : x ≤ r.foldl max x ∧ ∀ y ∈ r, y ≤ r.foldl max x := by
  induction r generalizing x with
  | nil => simp
  | cons z zs ih =>
    simp only [List.foldl_cons]
    obtain ⟨h1, h2⟩ := ih (max x z)
    refine ⟨by omega, ?_⟩
    intro y hy
    rcases List.mem_cons.mp hy with rfl | hy
    · omega
    · exact h2 y hy

theorem foldl_max_mem (r : List Nat) (x : Nat) : r.foldl max x = x ∨ r.foldl max x ∈ r := by
  induction r generalizing x with
  | nil => simp
  | cons z zs ih =>
    simp only [List.foldl_cons]
    rcases ih (max x z) with h | h
    · rw [h]; rcases Nat.le_total x z with hle | hle
      · right; simp [Nat.max_eq_right hle]
      · left; exact Nat.max_eq_left hle
    · right; simp [h]

theorem foldl_min_le (r : List Nat) (x : Nat) : r.foldl min x ≤ x ∧ ∀ y ∈ r, r.foldl min x ≤ y := by
  induction r generalizing x with
  | nil => simp
  | cons z zs ih =>
    simp only [List.foldl_cons]
    obtain ⟨h1, h2⟩ := ih (min x z)
    refine ⟨by omega, ?_⟩
    intro y hy
    rcases List.mem_cons.mp hy with rfl | hy
    · omega
    · exact h2 y hy

theorem foldl_min_mem (r : List Nat) (x : Nat) : r.foldl min x = x ∨ r.foldl min x ∈ r := by
  induction r generalizing x with
  | nil => simp
  | cons z zs ih =>
    simp only [List.foldl_cons]
    rcases ih (min x z) with h | h
    · rw [h]; rcases Nat.le_total x z with hle | hle
      · left; exact Nat.min_eq_left hle
      · right; simp [Nat.min_eq_right hle]
    · right; simp [h]

/-- `maxOr xs k`: `k` on the empty list, otherwise an upper bound that is attained. -/
theorem maxOr_spec (xs : List Nat) (k : Nat) :
    (xs = [] → maxOr xs k = k) ∧ (xs ≠ [] → maxOr xs k ∈ xs ∧ ∀ y ∈ xs, y ≤ maxOr xs k) := by
  cases xs with
  | nil => simp [maxOr]
  | cons x r =>
    refine ⟨by simp, fun _ => ?_⟩
    simp only [maxOr]
    obtain ⟨h1, h2⟩ := foldl_max_ge r x
    refine ⟨?_, ?_⟩
    · rcases foldl_max_mem r x with h | h
      · simp [h]
      · simp [h]
    · intro y hy
      rcases List.mem_cons.mp hy with rfl | hy
      · exact h1
      · exact h2 y hy

theorem minOr_spec (xs : List Nat) (k : Nat) :
    (xs = [] → minOr xs k = k) ∧ (xs ≠ [] → minOr xs k ∈ xs ∧ ∀ y ∈ xs, minOr xs k ≤ y) := by
  cases xs with
  | nil => simp [minOr]
  | cons x r =>
    refine ⟨by simp, fun _ => ?_⟩
    simp only [minOr]
    obtain ⟨h1, h2⟩ := foldl_min_le r x
    refine ⟨?_, ?_⟩
    · rcases foldl_min_mem r x with h | h
      · simp [h]
      · simp [h]
    · intro y hy
      rcases List.mem_cons.mp hy with rfl | hy
      · exact h1
      · exact h2 y hy

/-! ## C02: derived queries -/

/-- `degree u = indegree u + outdegree u`. -/
theorem degree_spec (c : Core) (u : Nat) : degree c u = c.indegree u + c.outdegree u := by
  simp [degree]

/-- `sinks` = the vertices, in vertex order, whose outdegree is 0. -/
theorem sinks_spec (c : Core) (hs : c.Sound) :
    sinks c = c.vertices.filter (fun u => c.outdegree u == 0) := by
  unfold sinks
  apply List.filter_congr
  intro u _
  have := hs.isSink_iff u
  cases h : c.isSink u <;> simp_all

theorem sources_spec (c : Core) (hs : c.Sound) :
    sources c = c.vertices.filter (fun u => c.indegree u == 0) := by
  unfold sources
  apply List.filter_congr
  intro u _
  have := hs.isSource_iff u
  cases h : c.isSource u <;> simp_all

/-- the sequences list the value at every vertex, in vertex order. -/
theorem outdegreeSequence_spec (c : Core) : outdegreeSequence c = c.vertices.map c.outdegree := rfl
theorem semidegreeSequence_spec (c : Core) :
    semidegreeSequence c = c.vertices.map (fun u => (c.indegree u, c.outdegree u)) := rfl

theorem isIsolated_spec (c : Core) (hs : c.Sound) (u : Nat) :
    isIsolated c u = true ↔ c.indegree u = 0 ∧ c.outdegree u = 0 := by
  simp [isIsolated, hs.isSink_iff, hs.isSource_iff]; try omega

theorem isPendant_spec (c : Core) (u : Nat) :
    isPendant c u = true ↔ c.indegree u + c.outdegree u = 1 := by
  simp [isPendant, degree]

theorem isSourceDefault_spec (c : Core) (v : Nat) : isSourceDefault c v = true ↔ c.indegree v = 0 := by
  simp [isSourceDefault]
theorem isSinkDefault_spec (c : Core) (u : Nat) : isSinkDefault c u = true ↔ c.outdegree u = 0 := by
  simp [isSinkDefault]

/-- `max_indegree`: 0 without vertices, otherwise the largest indegree (attained at a vertex). -/
theorem maxIndegree_spec (c : Core) (hne : c.vertices ≠ []) :
    (∃ u ∈ c.vertices, c.indegree u = maxIndegree c) ∧ ∀ u ∈ c.vertices, c.indegree u ≤ maxIndegree c := by
  have h := (maxOr_spec (c.vertices.map (fun u => c.indegree u)) 0).2 (by simpa using hne)
  simp only [maxIndegree]
  refine ⟨?_, fun u hu => h.2 _ (List.mem_map.mpr ⟨u, hu, rfl⟩)⟩
  obtain ⟨u, hu, he⟩ := List.mem_map.mp h.1
  exact ⟨u, hu, he⟩

theorem minIndegree_spec (c : Core) (hne : c.vertices ≠ []) :
    (∃ u ∈ c.vertices, c.indegree u = minIndegree c) ∧ ∀ u ∈ c.vertices, minIndegree c ≤ c.indegree u := by
  have h := (minOr_spec (c.vertices.map (fun u => c.indegree u)) 0).2 (by simpa using hne)
  simp only [minIndegree]
  refine ⟨?_, fun u hu => h.2 _ (List.mem_map.mpr ⟨u, hu, rfl⟩)⟩
  obtain ⟨u, hu, he⟩ := List.mem_map.mp h.1
  exact ⟨u, hu, he⟩

theorem maxOutdegree_spec (c : Core) (hne : c.vertices ≠ []) :
    (∃ u ∈ c.vertices, c.outdegree u = maxOutdegree c) ∧ ∀ u ∈ c.vertices, c.outdegree u ≤ maxOutdegree c := by
  have h := (maxOr_spec (c.vertices.map (fun u => c.outdegree u)) 0).2 (by simpa using hne)
  simp only [maxOutdegree]
  refine ⟨?_, fun u hu => h.2 _ (List.mem_map.mpr ⟨u, hu, rfl⟩)⟩
  obtain ⟨u, hu, he⟩ := List.mem_map.mp h.1
  exact ⟨u, hu, he⟩

theorem minOutdegree_spec (c : Core) (hne : c.vertices ≠ []) :
    (∃ u ∈ c.vertices, c.outdegree u = minOutdegree c) ∧ ∀ u ∈ c.vertices, minOutdegree c ≤ c.outdegree u := by
  have h := (minOr_spec (c.vertices.map (fun u => c.outdegree u)) 0).2 (by simpa using hne)
  simp only [minOutdegree]
  refine ⟨?_, fun u hu => h.2 _ (List.mem_map.mpr ⟨u, hu, rfl⟩)⟩
  obtain ⟨u, hu, he⟩ := List.mem_map.mp h.1
  exact ⟨u, hu, he⟩

theorem maxDegree_spec (c : Core) (hne : c.vertices ≠ []) :
    (∃ u ∈ c.vertices, c.indegree u + c.outdegree u = maxDegree c) ∧
    ∀ u ∈ c.vertices, c.indegree u + c.outdegree u ≤ maxDegree c := by
  have h := (maxOr_spec (c.vertices.map (fun u => degree c u)) 0).2 (by simpa using hne)
  simp only [maxDegree]
  refine ⟨?_, fun u hu => ?_⟩
  · obtain ⟨u, hu, he⟩ := List.mem_map.mp h.1
    exact ⟨u, hu, by rw [← degree_spec]; exact he⟩
  · have := h.2 _ (List.mem_map.mpr ⟨u, hu, rfl⟩); rw [degree_spec] at this; exact this

theorem minDegree_spec (c : Core) (hne : c.vertices ≠ []) :
    (∃ u ∈ c.vertices, c.indegree u + c.outdegree u = minDegree c) ∧
    ∀ u ∈ c.vertices, minDegree c ≤ c.indegree u + c.outdegree u := by
  have h := (minOr_spec (c.vertices.map (fun u => degree c u)) 0).2 (by simpa using hne)
  simp only [minDegree]
  refine ⟨?_, fun u hu => ?_⟩
  · obtain ⟨u, hu, he⟩ := List.mem_map.mp h.1
    exact ⟨u, hu, by rw [← degree_spec]; exact he⟩
  · have := h.2 _ (List.mem_map.mpr ⟨u, hu, rfl⟩); rw [degree_spec] at this; exact this

/-- with no vertex at all the documented neutral answer 0 is returned. -/
theorem maxmin_empty (c : Core) (h : c.vertices = []) :
    maxIndegree c = 0 ∧ minIndegree c = 0 ∧ maxOutdegree c = 0 ∧ minOutdegree c = 0 ∧
    maxDegree c = 0 ∧ minDegree c = 0 := by
  simp [maxIndegree, minIndegree, maxOutdegree, minOutdegree, maxDegree, minDegree, h, maxOr, minOr]

/-! ## C12: structural predicates -/

/-- `is_balanced` iff indegree = outdegree at every vertex. -/
theorem isBalanced_spec (c : Core) :
    isBalanced c = true ↔ ∀ u ∈ c.vertices, c.indegree u = c.outdegree u := by
  simp [isBalanced]

/-- `is_symmetric` iff every arc has its reverse. -/
theorem isSymmetric_spec (c : Core) (hs : c.Sound) :
    isSymmetric c = true ↔ ∀ u v, (u, v) ∈ c.arcs → (v, u) ∈ c.arcs := by
  simp only [isSymmetric, List.all_eq_true]
  constructor
  · intro h u v huv; exact (hs.hasArc_iff v u).mp (h (u, v) huv)
  · intro h a ha; obtain ⟨u, v⟩ := a; exact (hs.hasArc_iff v u).mpr (h u v ha)

/-- `is_oriented` iff no arc has its reverse. -/
theorem isOriented_spec (c : Core) (hs : c.Sound) :
    isOriented c = true ↔ ∀ u v, (u, v) ∈ c.arcs → (v, u) ∉ c.arcs := by
  simp only [isOriented, List.all_eq_true]
  constructor
  · intro h u v huv hvu
    have := h (u, v) huv
    simp [(hs.hasArc_iff v u).mpr hvu] at this
  · intro h a ha; obtain ⟨u, v⟩ := a
    have := h u v ha
    cases hh : c.hasArc v u
    · rfl
    · exact absurd ((hs.hasArc_iff v u).mp hh) this

/-- `H.is_subdigraph(D)` iff `V(H) ⊆ V(D)` and `A(H) ⊆ A(D)` (for `H` whose arcs join its own vertices). -/
theorem isSubdigraph_spec (h d : Core) (hh : h.Sound) (hd : d.Sound) :
    isSubdigraph h d = true ↔ (∀ v ∈ h.vertices, v ∈ d.vertices) ∧ (∀ a ∈ h.arcs, a ∈ d.arcs) := by
  simp only [isSubdigraph, Bool.and_eq_true, List.all_eq_true, List.contains_iff_mem, mem_toSet]
  constructor
  · rintro ⟨h1, h2⟩
    refine ⟨fun v hv => h2 v hv, fun a ha => ?_⟩
    obtain ⟨u, v⟩ := a
    exact (hd.hasArc_iff u v).mp (h1 (u, v) ha).1.1
  · rintro ⟨h1, h2⟩
    refine ⟨fun a ha => ?_, fun v hv => h1 v hv⟩
    obtain ⟨u, v⟩ := a
    exact ⟨⟨(hd.hasArc_iff u v).mpr (h2 (u, v) ha), (hh.endpoints u v ha).1⟩, (hh.endpoints u v ha).2⟩

/-- `is_superdigraph` is the converse relation. -/
theorem isSuperdigraph_spec (h d : Core) : isSuperdigraph h d = isSubdigraph d h := rfl

/-- `is_spanning_subdigraph` iff the vertex lists coincide and `A(H) ⊆ A(D)`. -/
theorem isSpanningSubdigraph_spec (h d : Core) (hd : d.Sound) :
    isSpanningSubdigraph h d = true ↔ h.vertices = d.vertices ∧ ∀ a ∈ h.arcs, a ∈ d.arcs := by
  simp only [isSpanningSubdigraph, Bool.and_eq_true, List.all_eq_true, beq_iff_eq]
  constructor
  · rintro ⟨h1, h2⟩; exact ⟨h1, fun a ha => by obtain ⟨u, v⟩ := a; exact (hd.hasArc_iff u v).mp (h2 (u, v) ha)⟩
  · rintro ⟨h1, h2⟩; exact ⟨h1, fun a ha => by obtain ⟨u, v⟩ := a; exact (hd.hasArc_iff u v).mpr (h2 (u, v) ha)⟩

/-! ## non-vacuity: a concrete 3-vertex digraph 0→1, 1→0, 1→2 with sound core queries -/

def ex : Core where
  vertices := [0, 1, 2]
  arcs := [(0, 1), (1, 0), (1, 2)]
  hasArc := fun u v => [(0, 1), (1, 0), (1, 2)].contains (u, v)
  indegree := fun v => ([(0, 1), (1, 0), (1, 2)].filter (fun a => a.2 == v)).length
  outdegree := fun u => ([(0, 1), (1, 0), (1, 2)].filter (fun a => a.1 == u)).length
  isSource := fun v => ([(0, 1), (1, 0), (1, 2)].filter (fun a => a.2 == v)).length == 0
  isSink := fun u => ([(0, 1), (1, 0), (1, 2)].filter (fun a => a.1 == u)).length == 0

example : ex.Sound where
  hasArc_iff := by intro u v; simp [ex]
  endpoints := by intro u v h; simp [ex] at h ⊢; omega
  isSink_iff := by intro u; simp [ex]
  isSource_iff := by intro u; simp [ex]

example : sinks ex = [2] ∧ sources ex = [] ∧ isSymmetric ex = false ∧ isOriented ex = false ∧
    isBalanced ex = false ∧ maxIndegree ex = 1 ∧ minDegree ex = 1 ∧ isSubdigraph ex ex = true := by decide

end GraafVerif.OpsGen
