import GraafVerif.Proof.ComposeHist
import GraafVerif.Proof.ComposeGen
import GraafVerif.Proof.ComposeDriver
import GraafVerif.Proof.ComposeDriverAM
import GraafVerif.Proof.ComposeDriverSparse
import GraafVerif.Proof.ComposeOpsRes
import GraafVerif.Proof.ComposeCtor
/-!
# Compose — representation × (history | generator | conversion) × algorithm, end to end

Only statements and proofs by reference (+ non-vacuity examples).

The algorithm theorems C03 … C10 are about an abstract `Graph` / `WGraph` / `VGraph` (an order
or vertex list and an out-neighbour LIST function); the representation theorems C01, C02, C14,
C16 are about the five representation models.  This file composes them:

1. `…_view_spec`   — the `Graph` a traversal sees of a representation value (`order()` and the
   literal result of `out_neighbors()`, C02's query models) is well-formed and its arc relation
   is exactly `(u, v) ∈ arcs r` (= C01's abstract arc set); rows strictly ascending.
2. `…_traversals`, `…_tarjan`, `…_johnson`, `adjListW_weighted` — C04, C05, C06 (proved parts),
   C09, C10 resp. C03, C05-Dijkstra, C07, C08 for EVERY well-formed value of each representation,
   with the representation's arc relation `r.Arc u v := (u, v) ∈ r.arcs` (resp.
   `r.WArc u v w := (u, v, w) ∈ r.arcsWeighted`) on the specification side.
3. `…_after_any_history` — for every well-formed start (in particular `empty n`), EVERY finite
   list of mutating calls, the algorithms on the view of the final MODEL state are correct w.r.t.
   the final SPEC state of C01 (`SpecState`: a plain set of arcs, no containers).
4. generators / conversions — every traversal property w.r.t. the defining arc set of a
   generator; the `circuit(n)` sanity family; a conversion result has the same view as its source.
6. … 11. (second round) — the C11 operations (`complement`, `converse`, `union`,
   `filter_vertices`), the `From<rows>` / `From<arcs>` constructors, the random generators of C15,
   sparse `[am …]` descriptions, the preorder clause of C06 over the bare relation, and the
   repeated-call theorems, all under the views; see the section headers below.
5. `driver_graph_is_view` — the `Graph` / `WGraph` the driver hands to the algorithm models in the
   correspondence run (`GDesc.graph` / `GDesc.wgraph`, built from the case DESCRIPTION) is EQUAL to
   the view of the representation model built from that description the way the harness builds
   the real structure; so the correspondence runs of C03 … C10 are runs on these views.

Vocabulary: `Rel`, `RReachFrom`, `RIsHopDist`, `RIsMinDist` … (`Proof/ComposeRel.lean`) are the
declarative notions over a bare arc relation; `BfsHolds A n S g`, `TraversalsHold`, `TarjanHolds`,
`JohnsonHolds`, `WeightedHold` … (`Proof/ComposeAlgo.lean`) are the conclusions of the `Cxx`
statements word for word over such a relation — their `Graph` argument only names the outputs
of the algorithm model.
-/
namespace GraafVerif.Compose
open GraafVerif GraafVerif.Repr GraafVerif.ReprSpec GraafVerif.Query

/-! ## 1. The views -/

/-- `AdjacencyList`: the view is `order()` / the rows; well-formed, arcs = `arcs()`, rows
ascending and duplicate-free, `out_neighbors(u)` = the row for `u < order`, panic otherwise. -/
theorem adjList_view_spec (d : AdjList) (h : d.WF) : ViewSpec d.view d.order d.arcs d.outNeighbors :=
  d.view_spec h
/-- `AdjacencyMatrix`: rows are the column scans `vertices().filter(has_arc(u, ·))`. -/
theorem adjMatrix_view_spec (d : AdjMatrix) (h : d.WF) : ViewSpec d.view d.order d.arcs (MX.outNeighbors d) :=
  d.view_spec h
/-- `EdgeList`: rows are `arcs.filter_map(|(x, y)| (x == u).then_some(y))`. -/
theorem edgeList_view_spec (d : EdgeList) (h : d.WF) : ViewSpec d.view d.order d.arcs (EL.outNeighbors d) :=
  d.view_spec h
/-- `AdjacencyMap` with the vertex set `0..order`. -/
theorem adjMap_view_spec (d : AdjMap) (h : d.WF) (hc : Gen.AM.Contiguous d) :
    ViewSpec d.view d.order d.arcs (AM.outNeighbors d) := d.view_spec h hc
/-- `AdjacencyListWeighted` under the unweighted traversals: rows are the keys. -/
theorem adjListW_view_spec (d : AdjListW) (h : d.WF) : ViewSpec d.view d.order d.arcs (WL.outNeighbors d) :=
  d.view_spec h
/-- `AdjacencyListWeighted` under the weighted algorithms: `WF`, `Functional`,
`A u v w ↔ (u, v, w) ∈ arcs_weighted()`, rows ascending, = `out_neighbors_weighted`. -/
theorem adjListW_wview_spec (d : AdjListW) (h : d.WF) : WViewSpec d.wview d := d.wview_spec h

/-- The short form: `WF r → (view r).WF ∧ ∀ u v, (view r).A u v ↔ (u, v) ∈ arcs r`, all at once. -/
theorem view_spec :
    (∀ d : AdjList, d.WF → d.view.n = d.order ∧ d.view.WF ∧ ∀ u v, d.view.A u v ↔ (u, v) ∈ d.arcs) ∧
    (∀ d : AdjMap, d.WF → Gen.AM.Contiguous d →
      d.view.n = d.order ∧ d.view.WF ∧ ∀ u v, d.view.A u v ↔ (u, v) ∈ d.arcs) ∧
    (∀ d : AdjMatrix, d.WF → d.view.n = d.order ∧ d.view.WF ∧ ∀ u v, d.view.A u v ↔ (u, v) ∈ d.arcs) ∧
    (∀ d : EdgeList, d.WF → d.view.n = d.order ∧ d.view.WF ∧ ∀ u v, d.view.A u v ↔ (u, v) ∈ d.arcs) ∧
    (∀ d : AdjListW, d.WF → d.view.n = d.order ∧ d.view.WF ∧ ∀ u v, d.view.A u v ↔ (u, v) ∈ d.arcs) ∧
    (∀ d : AdjListW, d.WF → d.wview.n = d.order ∧ d.wview.WF ∧ d.wview.Functional ∧
      ∀ u v w, d.wview.A u v w ↔ (u, v, w) ∈ d.arcsWeighted) :=
  ⟨fun d h => ⟨(d.view_spec h).order, (d.view_spec h).wf, (d.view_spec h).arc_iff⟩,
   fun d h hc => ⟨(d.view_spec h hc).order, (d.view_spec h hc).wf, (d.view_spec h hc).arc_iff⟩,
   fun d h => ⟨(d.view_spec h).order, (d.view_spec h).wf, (d.view_spec h).arc_iff⟩,
   fun d h => ⟨(d.view_spec h).order, (d.view_spec h).wf, (d.view_spec h).arc_iff⟩,
   fun d h => ⟨(d.view_spec h).order, (d.view_spec h).wf, (d.view_spec h).arc_iff⟩,
   fun d h => ⟨(d.wview_spec h).order, (d.wview_spec h).wf, (d.wview_spec h).functional, (d.wview_spec h).arc_iff⟩⟩

/-- The vertex-id views (what `Tarjan` sees): closed, arcs = `arcs()`, vertex list = `vertices()`;
for the map WITHOUT any contiguity hypothesis. -/
theorem vview_spec :
    (∀ d : AdjList, d.WF → VViewSpec d.vview d.vertices d.arcs) ∧
    (∀ d : AdjMap, d.WF → VViewSpec d.vview d.vertices d.arcs) ∧
    (∀ d : AdjMatrix, d.WF → VViewSpec d.vview d.vertices d.arcs) ∧
    (∀ d : EdgeList, d.WF → VViewSpec d.vview d.vertices d.arcs) ∧
    (∀ d : AdjListW, d.WF → VViewSpec d.vview d.vertices d.arcs) :=
  ⟨AdjList.vview_spec, AdjMap.vview_spec, AdjMatrix.vview_spec, EdgeList.vview_spec, AdjListW.vview_spec⟩

/-- The arc relation of the views is C01's abstract arc set. -/
theorem arc_iff_abs :
    (∀ (d : AdjList) u v, d.Arc u v ↔ d.abs.A u v = true) ∧
    (∀ (d : AdjMap), d.WF → ∀ u v, d.Arc u v ↔ d.abs.A u v = true) ∧
    (∀ (d : AdjMatrix), d.WF → ∀ u v, d.Arc u v ↔ d.abs.A u v = true) ∧
    (∀ (d : EdgeList) u v, d.Arc u v ↔ d.abs.A u v = true) ∧
    (∀ (d : AdjListW), d.WF → ∀ u v, d.Arc u v ↔ d.abs.A u v = true) ∧
    (∀ (d : AdjListW), d.WF → ∀ u v w, d.WArc u v w ↔ d.abs.W u v = some w) :=
  ⟨AdjList.arc_iff_abs, AdjMap.arc_iff_abs, AdjMatrix.arc_iff_abs, EdgeList.arc_iff_abs,
   AdjListW.arc_iff_abs, AdjListW.warc_iff_abs⟩

/-! ## 2. The algorithm statements for every value of every representation

`TraversalsHold A n S g` = C04 (`bfs`) ∧ C05-BFS (`bfsPred`, needs `0 < n`) ∧ C06 for today's
code (`dfsToday` = `dfs_partial` + `dfs_valid_prefix`) ∧ C06 for the corrected variant
(`dfsFixed` = `statement_fixed`), all over the relation `A`. -/

/-- C04, C05 (BFS half), C06 on an `AdjacencyList`, w.r.t. `(u, v) ∈ arcs()`. -/
theorem adjList_traversals (d : AdjList) (h : d.WF) (S : List Nat) (hS : ∀ s ∈ S, s < d.order)
    (hnd : S.Nodup) : TraversalsHold d.Arc d.order S d.view :=
  traversals_of_viewSpec (d.view_spec h) (fun _ _ => Iff.rfl) S hS hnd

theorem adjMatrix_traversals (d : AdjMatrix) (h : d.WF) (S : List Nat) (hS : ∀ s ∈ S, s < d.order)
    (hnd : S.Nodup) : TraversalsHold d.Arc d.order S d.view :=
  traversals_of_viewSpec (d.view_spec h) (fun _ _ => Iff.rfl) S hS hnd

theorem edgeList_traversals (d : EdgeList) (h : d.WF) (S : List Nat) (hS : ∀ s ∈ S, s < d.order)
    (hnd : S.Nodup) : TraversalsHold d.Arc d.order S d.view :=
  traversals_of_viewSpec (d.view_spec h) (fun _ _ => Iff.rfl) S hS hnd

theorem adjMap_traversals (d : AdjMap) (h : d.WF) (hc : Gen.AM.Contiguous d) (S : List Nat)
    (hS : ∀ s ∈ S, s < d.order) (hnd : S.Nodup) : TraversalsHold d.Arc d.order S d.view :=
  traversals_of_viewSpec (d.view_spec h hc) (fun _ _ => Iff.rfl) S hS hnd

theorem adjListW_traversals (d : AdjListW) (h : d.WF) (S : List Nat) (hS : ∀ s ∈ S, s < d.order)
    (hnd : S.Nodup) : TraversalsHold d.Arc d.order S d.view :=
  traversals_of_viewSpec (d.view_spec h) (fun _ _ => Iff.rfl) S hS hnd

/-- C04 alone, spelled out for the `AdjacencyList` (the other four are the `.bfs` field of their
`…_traversals`): `Bfs` yields each vertex reachable in `arcs()` once and nothing else, nearest
first; `BfsDist` pairs them with their hop distances; `distances()` is the full vector. -/
theorem adjList_c04 (d : AdjList) (h : d.WF) (S : List Nat) (hS : ∀ s ∈ S, s < d.order) (hnd : S.Nodup) :
    BfsHolds d.Arc d.order S d.view := (adjList_traversals d h S hS hnd).bfs

/-- C09 on every representation, w.r.t. `vertices()` and `(u, v) ∈ arcs()`: `Tarjan` returns the
partition of the vertex set into strongly connected components, blocks ascending. -/
theorem adjList_tarjan (d : AdjList) (h : d.WF) : TarjanHolds d.vertices d.Arc d.vview :=
  have vs := d.vview_spec h
  tarjanHolds_of (g := d.vview) vs.arc_iff vs.closed
theorem adjMatrix_tarjan (d : AdjMatrix) (h : d.WF) : TarjanHolds d.vertices d.Arc d.vview :=
  have vs := d.vview_spec h
  tarjanHolds_of (g := d.vview) vs.arc_iff vs.closed
theorem edgeList_tarjan (d : EdgeList) (h : d.WF) : TarjanHolds d.vertices d.Arc d.vview :=
  have vs := d.vview_spec h
  tarjanHolds_of (g := d.vview) vs.arc_iff vs.closed
theorem adjListW_tarjan (d : AdjListW) (h : d.WF) : TarjanHolds d.vertices d.Arc d.vview :=
  have vs := d.vview_spec h
  tarjanHolds_of (g := d.vview) vs.arc_iff vs.closed
/-- … for the `AdjacencyMap` with an ARBITRARY finite key set (what C09 demands and
`Johnson75` relies on). -/
theorem adjMap_tarjan (d : AdjMap) (h : d.WF) : TarjanHolds d.vertices d.Arc d.vview :=
  have vs := d.vview_spec h
  tarjanHolds_of (g := d.vview) vs.arc_iff vs.closed

/-- C10 on an `AdjacencyMap` with vertex set `0..order` (the only representation `Johnson75` is
implemented for): each elementary circuit of `arcs()` exactly once, in canonical form. -/
theorem adjMap_johnson (d : AdjMap) (h : d.WF) (hc : Gen.AM.Contiguous d) : JohnsonHolds d.Arc d.view :=
  have vs := d.view_spec h hc
  johnsonHolds_of vs.arc_iff vs.wf (fun u hu => vs.irrefl u hu) vs.nodup
/-- The model of `Johnson75` is generic in the view, so the same holds of the other views. -/
theorem adjList_johnson (d : AdjList) (h : d.WF) : JohnsonHolds d.Arc d.view :=
  have vs := d.view_spec h
  johnsonHolds_of vs.arc_iff vs.wf (fun u hu => vs.irrefl u hu) vs.nodup

/-- C03 + C05 (Dijkstra half) for non-negative weights, C07 for arbitrary `Int` weights, C08
without negative circuits — on every well-formed `AdjacencyListWeighted`, w.r.t.
`(u, v, w) ∈ arcs_weighted()`. -/
theorem adjListW_weighted (d : AdjListW) (h : d.WF) : WeightedHold d.WArc d.order d.wview := by
  have vs := d.wview_spec h
  have := weightedHold_of (g := d.wview) (W := d.WArc) vs.arc_iff vs.wf vs.functional
  rw [vs.order] at this
  exact this

/-- C03 spelled out. -/
theorem adjListW_c03 (d : AdjListW) (h : d.WF) (hnn : ∀ u v w, (u, v, w) ∈ d.arcsWeighted → 0 ≤ w)
    (S : List Nat) (hS : ∀ s ∈ S, s < d.order) (hnd : S.Nodup) : DijkstraHolds d.WArc d.order S d.wview :=
  ((adjListW_weighted d h).dijkstra hnn S hS hnd).1
/-- C05 (Dijkstra half) spelled out. -/
theorem adjListW_c05 (d : AdjListW) (h : d.WF) (hnn : ∀ u v w, (u, v, w) ∈ d.arcsWeighted → 0 ≤ w)
    (S : List Nat) (hS : ∀ s ∈ S, s < d.order) (hnd : S.Nodup) : DijkstraPredHolds d.WArc d.order S d.wview :=
  ((adjListW_weighted d h).dijkstra hnn S hS hnd).2
/-- C07 spelled out (arbitrary `Int` weights). -/
theorem adjListW_c07 (d : AdjListW) (h : d.WF) (s : Nat) (hs : s < d.order) : BfmHolds d.WArc d.order s d.wview :=
  (adjListW_weighted d h).bfm s hs
/-- C08 spelled out. -/
theorem adjListW_c08 (d : AdjListW) (h : d.WF) (hnc : ∀ x, ¬ RNegCycleAt d.WArc x) (u v : Nat)
    (hu : u < d.order) (hv : v < d.order) : FwHolds d.WArc d.order u v d.wview :=
  (adjListW_weighted d h).fw hnc u v hu hv

/-! ## 3. End to end with histories

`alModel`, `amModel`, `mxModel`, `elModel`, `wlModel : ReprModel …` package each representation
(`Proof/ComposeHist.lean`).  `M.after r ops = (run M.step r ops).1` is the model state after the
calls `ops`, `M.specAfter r ops = (run M.sstep (M.abs r) ops).1` the SPEC digraph after the same
calls. -/

/-- **Generic**: for every representation model `M`, every well-formed start, every history:
BFS on the view of the final model state is correct w.r.t. the final spec digraph. -/
theorem bfs_after_any_history {σ ο ω : Type} (M : ReprModel σ ο ω) (r : σ) (hr : M.WF r) (ops : List ο)
    (hok : M.viewOK (M.after r ops)) (S : List Nat)
    (hS : ∀ s ∈ S, s < M.order (M.after r ops)) (hnd : S.Nodup) :
    BfsHolds (M.specAfter r ops).Arc (M.order (M.after r ops)) S (M.view (M.after r ops)) :=
  M.bfs_after_any_history r hr ops hok S hS hnd

/-- **Generic**: all source-based traversals (C04, C05-BFS, C06). -/
theorem traversals_after_any_history {σ ο ω : Type} (M : ReprModel σ ο ω) (r : σ) (hr : M.WF r)
    (ops : List ο) (hok : M.viewOK (M.after r ops)) (S : List Nat)
    (hS : ∀ s ∈ S, s < M.order (M.after r ops)) (hnd : S.Nodup) :
    TraversalsHold (M.specAfter r ops).Arc (M.order (M.after r ops)) S (M.view (M.after r ops)) :=
  M.traversals_after_any_history r hr ops hok S hS hnd

/-- **Generic**: Tarjan (C09) — vertex set and arc set of the final SPEC state. -/
theorem tarjan_after_any_history {σ ο ω : Type} (M : ReprModel σ ο ω) (r : σ) (hr : M.WF r) (ops : List ο) :
    (∀ x, x ∈ (M.vview (M.after r ops)).verts ↔ (M.specAfter r ops).V x = true) ∧
    (M.vview (M.after r ops)).verts.Pairwise (· < ·) ∧
    TarjanHolds (M.vview (M.after r ops)).verts (M.specAfter r ops).Arc (M.vview (M.after r ops)) :=
  M.tarjan_after_any_history r hr ops

/-- **Generic**: Johnson (C10). -/
theorem johnson_after_any_history {σ ο ω : Type} (M : ReprModel σ ο ω) (r : σ) (hr : M.WF r) (ops : List ο)
    (hok : M.viewOK (M.after r ops)) : JohnsonHolds (M.specAfter r ops).Arc (M.view (M.after r ops)) :=
  M.johnson_after_any_history r hr ops hok

/-! ### … instantiated, in plain terms -/

/-- `AdjacencyList`: any well-formed start, any calls `add_arc` / `remove_arc` with any arguments. -/
theorem adjList_traversals_after_any_history (d : AdjList) (h : d.WF) (ops : List (Op Unit)) (S : List Nat)
    (hS : ∀ s ∈ S, s < d.order) (hnd : S.Nodup) :
    TraversalsHold (run (specStep .fixed) d.abs ops).1.Arc d.order S (run AdjList.step d ops).1.view := by
  have e : alModel.order (alModel.after d ops) = d.order := AdjList.order_after d h ops
  have := alModel.traversals_after_any_history d h ops trivial S (by rw [e]; exact hS) hnd
  rw [e] at this
  exact this

theorem adjList_bfs_after_any_history (d : AdjList) (h : d.WF) (ops : List (Op Unit)) (S : List Nat)
    (hS : ∀ s ∈ S, s < d.order) (hnd : S.Nodup) :
    BfsHolds (run (specStep .fixed) d.abs ops).1.Arc d.order S (run AdjList.step d ops).1.view :=
  (adjList_traversals_after_any_history d h ops S hS hnd).bfs

/-- … in particular from `empty(n)`: the spec side is the empty digraph on `0..n` with the calls
applied — no representation in sight. -/
theorem adjList_bfs_from_empty (n : Nat) (d : AdjList) (he : AdjList.empty n = some d) (ops : List (Op Unit))
    (S : List Nat) (hS : ∀ s ∈ S, s < n) (hnd : S.Nodup) :
    BfsHolds (run (specStep .fixed) (emptySpec Unit n) ops).1.Arc n S (run AdjList.step d ops).1.view := by
  obtain ⟨hw, ha⟩ := C01.adjList_empty he
  have hn : d.order = n := by
    have := congrArg SpecState.V ha
    exact lt_of_decide_lt_eq this
  have := adjList_bfs_after_any_history d hw ops S (by rw [hn]; exact hS) hnd
  rw [ha, hn] at this
  exact this

/-- `AdjacencyMatrix`: calls `add_arc` / `remove_arc` / `toggle`. -/
theorem adjMatrix_traversals_after_any_history (d : AdjMatrix) (h : d.WF) (ops : List MxOp) (S : List Nat)
    (hS : ∀ s ∈ S, s < d.order) (hnd : S.Nodup) :
    TraversalsHold (run specStepMx d.abs ops).1.Arc d.order S (run AdjMatrix.step d ops).1.view := by
  have e : mxModel.order (mxModel.after d ops) = d.order := AdjMatrix.order_after d h ops
  have := mxModel.traversals_after_any_history d h ops trivial S (by rw [e]; exact hS) hnd
  rw [e] at this
  exact this

theorem adjMatrix_bfs_after_any_history (d : AdjMatrix) (h : d.WF) (ops : List MxOp) (S : List Nat)
    (hS : ∀ s ∈ S, s < d.order) (hnd : S.Nodup) :
    BfsHolds (run specStepMx d.abs ops).1.Arc d.order S (run AdjMatrix.step d ops).1.view :=
  (adjMatrix_traversals_after_any_history d h ops S hS hnd).bfs

theorem adjMatrix_bfs_from_empty (n : Nat) (d : AdjMatrix) (he : AdjMatrix.empty n = some d) (ops : List MxOp)
    (S : List Nat) (hS : ∀ s ∈ S, s < n) (hnd : S.Nodup) :
    BfsHolds (run specStepMx (emptySpec Unit n) ops).1.Arc n S (run AdjMatrix.step d ops).1.view := by
  obtain ⟨hw, ha⟩ := C01.adjMatrix_empty he
  have hn : d.order = n := by
    have := congrArg SpecState.V ha
    exact lt_of_decide_lt_eq this
  have := adjMatrix_bfs_after_any_history d hw ops S (by rw [hn]; exact hS) hnd
  rw [ha, hn] at this
  exact this

/-- `EdgeList`. -/
theorem edgeList_traversals_after_any_history (d : EdgeList) (h : d.WF) (ops : List (Op Unit)) (S : List Nat)
    (hS : ∀ s ∈ S, s < d.order) (hnd : S.Nodup) :
    TraversalsHold (run (specStep .fixed) d.abs ops).1.Arc d.order S (run EdgeList.step d ops).1.view := by
  have e : elModel.order (elModel.after d ops) = d.order := EdgeList.order_after d h ops
  have := elModel.traversals_after_any_history d h ops trivial S (by rw [e]; exact hS) hnd
  rw [e] at this
  exact this

theorem edgeList_bfs_after_any_history (d : EdgeList) (h : d.WF) (ops : List (Op Unit)) (S : List Nat)
    (hS : ∀ s ∈ S, s < d.order) (hnd : S.Nodup) :
    BfsHolds (run (specStep .fixed) d.abs ops).1.Arc d.order S (run EdgeList.step d ops).1.view :=
  (edgeList_traversals_after_any_history d h ops S hS hnd).bfs

/-- `AdjacencyListWeighted` under the unweighted traversals. -/
theorem adjListW_traversals_after_any_history (d : AdjListW) (h : d.WF) (ops : List (Op Int)) (S : List Nat)
    (hS : ∀ s ∈ S, s < d.order) (hnd : S.Nodup) :
    TraversalsHold (run (specStep .fixed) d.abs ops).1.Arc d.order S (run AdjListW.step d ops).1.view := by
  have e : wlModel.order (wlModel.after d ops) = d.order := AdjListW.order_after d h ops
  have := wlModel.traversals_after_any_history d h ops trivial S (by rw [e]; exact hS) hnd
  rw [e] at this
  exact this

theorem adjListW_bfs_after_any_history (d : AdjListW) (h : d.WF) (ops : List (Op Int)) (S : List Nat)
    (hS : ∀ s ∈ S, s < d.order) (hnd : S.Nodup) :
    BfsHolds (run (specStep .fixed) d.abs ops).1.Arc d.order S (run AdjListW.step d ops).1.view :=
  (adjListW_traversals_after_any_history d h ops S hS hnd).bfs

/-- `AdjacencyMap` (the vertex set GROWS with `add_arc`): whenever the final SPEC vertex set is
an initial segment `0..k` — the precondition under which `Bfs::new` may index its `order`-sized
buffers by vertex id — the map has order `k` and BFS is correct w.r.t. the final spec arcs. -/
theorem adjMap_traversals_after_any_history (d : AdjMap) (h : d.WF) (ops : List (Op Unit)) (k : Nat)
    (hV : ∀ x, (run (specStep .growing) d.abs ops).1.V x = true ↔ x < k)
    (S : List Nat) (hS : ∀ s ∈ S, s < k) (hnd : S.Nodup) :
    (run AdjMap.step d ops).1.order = k ∧
    TraversalsHold (run (specStep .growing) d.abs ops).1.Arc k S (run AdjMap.step d ops).1.view := by
  obtain ⟨hc, ho⟩ := AdjMap.contiguous_after d h ops k hV
  have e : amModel.order (amModel.after d ops) = k := ho
  have := amModel.traversals_after_any_history d h ops hc S (by rw [e]; exact hS) hnd
  rw [e] at this
  exact ⟨ho, this⟩

theorem adjMap_bfs_after_any_history (d : AdjMap) (h : d.WF) (ops : List (Op Unit)) (k : Nat)
    (hV : ∀ x, (run (specStep .growing) d.abs ops).1.V x = true ↔ x < k)
    (S : List Nat) (hS : ∀ s ∈ S, s < k) (hnd : S.Nodup) :
    BfsHolds (run (specStep .growing) d.abs ops).1.Arc k S (run AdjMap.step d ops).1.view :=
  (adjMap_traversals_after_any_history d h ops k hV S hS hnd).2.bfs

/-- … e.g. a contiguous start (`empty(n)`, any generator, any conversion result) and calls that
mention only ids `< order`: the hypothesis on the spec vertex set holds. -/
theorem adjMap_bfs_after_inrange_history (d : AdjMap) (h : d.WF) (hc : Gen.AM.Contiguous d)
    (ops : List (Op Unit)) (hops : ∀ op ∈ ops, ∀ x ∈ opIds op, x < d.order)
    (S : List Nat) (hS : ∀ s ∈ S, s < d.order) (hnd : S.Nodup) :
    BfsHolds (run (specStep .growing) d.abs ops).1.Arc d.order S (run AdjMap.step d ops).1.view := by
  obtain ⟨hc', ho⟩ := AdjMap.contiguous_after_inrange d h hc ops hops
  have e : amModel.order (amModel.after d ops) = d.order := ho
  have := amModel.bfs_after_any_history d h ops hc' S (by rw [e]; exact hS) hnd
  rw [e] at this
  exact this

/-- `Johnson75` on the map after any history that leaves the vertex set an initial segment. -/
theorem adjMap_johnson_after_any_history (d : AdjMap) (h : d.WF) (ops : List (Op Unit)) (k : Nat)
    (hV : ∀ x, (run (specStep .growing) d.abs ops).1.V x = true ↔ x < k) :
    JohnsonHolds (run (specStep .growing) d.abs ops).1.Arc (run AdjMap.step d ops).1.view :=
  amModel.johnson_after_any_history d h ops (AdjMap.contiguous_after d h ops k hV).1

/-- `Tarjan` on the map after ANY history (vertex ids may be arbitrary): the partition of the
final SPEC vertex set into the strongly connected components of the final SPEC arc set. -/
theorem adjMap_tarjan_after_any_history (d : AdjMap) (h : d.WF) (ops : List (Op Unit)) :
    (∀ x, x ∈ (run AdjMap.step d ops).1.vertices ↔ (run (specStep .growing) d.abs ops).1.V x = true) ∧
    TarjanHolds (run AdjMap.step d ops).1.vertices (run (specStep .growing) d.abs ops).1.Arc
      (run AdjMap.step d ops).1.vview :=
  have t := amModel.tarjan_after_any_history d h ops
  ⟨t.1, t.2.2⟩

theorem adjList_tarjan_after_any_history (d : AdjList) (h : d.WF) (ops : List (Op Unit)) :
    TarjanHolds (run AdjList.step d ops).1.vertices (run (specStep .fixed) d.abs ops).1.Arc
      (run AdjList.step d ops).1.vview := (alModel.tarjan_after_any_history d h ops).2.2

theorem adjMatrix_tarjan_after_any_history (d : AdjMatrix) (h : d.WF) (ops : List MxOp) :
    TarjanHolds (run AdjMatrix.step d ops).1.vertices (run specStepMx d.abs ops).1.Arc
      (run AdjMatrix.step d ops).1.vview := (mxModel.tarjan_after_any_history d h ops).2.2

theorem edgeList_tarjan_after_any_history (d : EdgeList) (h : d.WF) (ops : List (Op Unit)) :
    TarjanHolds (run EdgeList.step d ops).1.vertices (run (specStep .fixed) d.abs ops).1.Arc
      (run EdgeList.step d ops).1.vview := (elModel.tarjan_after_any_history d h ops).2.2

theorem adjListW_tarjan_after_any_history (d : AdjListW) (h : d.WF) (ops : List (Op Int)) :
    TarjanHolds (run AdjListW.step d ops).1.vertices (run (specStep .fixed) d.abs ops).1.Arc
      (run AdjListW.step d ops).1.vview := (wlModel.tarjan_after_any_history d h ops).2.2

/-- **`dijkstra_after_any_history`** and companions: the weighted algorithms on the weighted view
of the final model state, w.r.t. the weighted arc set `W u v = some w` of the final SPEC state
(`add_arc_weighted` on an existing arc replaced its weight; removed arcs are gone; rejected
calls changed nothing). -/
theorem adjListW_weighted_after_any_history (d : AdjListW) (h : d.WF) (ops : List (Op Int)) :
    WeightedHold (run (specStep .fixed) d.abs ops).1.WArc d.order (run AdjListW.step d ops).1.wview :=
  AdjListW.weighted_after_any_history d h ops

theorem dijkstra_after_any_history (d : AdjListW) (h : d.WF) (ops : List (Op Int))
    (hnn : ∀ u v w, (run (specStep .fixed) d.abs ops).1.W u v = some w → 0 ≤ w)
    (S : List Nat) (hS : ∀ s ∈ S, s < d.order) (hnd : S.Nodup) :
    DijkstraHolds (run (specStep .fixed) d.abs ops).1.WArc d.order S (run AdjListW.step d ops).1.wview ∧
    DijkstraPredHolds (run (specStep .fixed) d.abs ops).1.WArc d.order S (run AdjListW.step d ops).1.wview :=
  (AdjListW.weighted_after_any_history d h ops).dijkstra hnn S hS hnd

theorem bfm_after_any_history (d : AdjListW) (h : d.WF) (ops : List (Op Int)) (s : Nat) (hs : s < d.order) :
    BfmHolds (run (specStep .fixed) d.abs ops).1.WArc d.order s (run AdjListW.step d ops).1.wview :=
  (AdjListW.weighted_after_any_history d h ops).bfm s hs

theorem fw_after_any_history (d : AdjListW) (h : d.WF) (ops : List (Op Int))
    (hnc : ∀ x, ¬ RNegCycleAt (run (specStep .fixed) d.abs ops).1.WArc x) (u v : Nat)
    (hu : u < d.order) (hv : v < d.order) :
    FwHolds (run (specStep .fixed) d.abs ops).1.WArc d.order u v (run AdjListW.step d ops).1.wview :=
  (AdjListW.weighted_after_any_history d h ops).fw hnc u v hu hv

/-! ## 4. Generators and conversions -/

/-- Every traversal property on a generated digraph, w.r.t. the DEFINING arc set `P` (C14's
`Realises d n P`), in each representation. -/
theorem traversals_of_generated :
    (∀ (d : AdjList) n P, Gen.AL.Realises d n P → ∀ S : List Nat, (∀ s ∈ S, s < n) → S.Nodup →
      TraversalsHold P n S d.view) ∧
    (∀ (d : AdjMap) n P, Gen.AM.Realises d n P → ∀ S : List Nat, (∀ s ∈ S, s < n) → S.Nodup →
      TraversalsHold P n S d.view) ∧
    (∀ (d : AdjMatrix) n P, Gen.MX.Realises d n P → ∀ S : List Nat, (∀ s ∈ S, s < n) → S.Nodup →
      TraversalsHold P n S d.view) ∧
    (∀ (d : EdgeList) n P, Gen.EL.Realises d n P → ∀ S : List Nat, (∀ s ∈ S, s < n) → S.Nodup →
      TraversalsHold P n S d.view) :=
  ⟨fun _ _ _ h => AL.traversals_of_realises h, fun _ _ _ h => AM.traversals_of_realises h,
   fun _ _ _ h => MX.traversals_of_realises h, fun _ _ _ h => EL.traversals_of_realises h⟩

/-- Generated digraphs realising the same `(n, P)` are the same `Graph` to a traversal. -/
theorem generated_views_agree {n : Nat} {P : Nat → Nat → Prop} {d₁ : AdjList} {d₂ : AdjMap} {d₃ : AdjMatrix}
    {d₄ : EdgeList} (h₁ : Gen.AL.Realises d₁ n P) (h₂ : Gen.AM.Realises d₂ n P)
    (h₃ : Gen.MX.Realises d₃ n P) (h₄ : Gen.EL.Realises d₄ n P) :
    d₂.view = d₁.view ∧ d₃.view = d₁.view ∧ d₄.view = d₁.view := gen_views_agree h₁ h₂ h₃ h₄

/-- **Sanity family** (non-vacuity for every order): BFS from `[0]` on `circuit(n)` in every
representation, for every `n ≥ 1` and every thread count — `Bfs` yields `0, 1, …, n-1`,
`BfsDist` the pairs `(v, v)`, `distances()` is `[0, 1, …, n-1]`. -/
theorem bfs_circuit (n : Nat) (hn : 1 ≤ n) (inf : Nat) (hinf : n ≤ inf) :
    (∃ d, Gen.AL.circuit n = some d ∧ Bfs.bfs d.view [0] = .ok (List.range n) ∧
      Bfs.bfsDist d.view [0] = .ok ((List.range n).map (fun v => (v, v))) ∧
      Bfs.distances d.view [0] inf = .ok (List.range n)) ∧
    (∃ d, Gen.AM.circuit n = some d ∧ Bfs.bfs d.view [0] = .ok (List.range n) ∧
      Bfs.bfsDist d.view [0] = .ok ((List.range n).map (fun v => (v, v))) ∧
      Bfs.distances d.view [0] inf = .ok (List.range n)) ∧
    (n * n < 2 ^ 64 → ∃ d, Gen.MX.circuit n = some d ∧ Bfs.bfs d.view [0] = .ok (List.range n) ∧
      Bfs.bfsDist d.view [0] = .ok ((List.range n).map (fun v => (v, v))) ∧
      Bfs.distances d.view [0] inf = .ok (List.range n)) ∧
    (∃ d, Gen.EL.circuit n = some d ∧ Bfs.bfs d.view [0] = .ok (List.range n) ∧
      Bfs.bfsDist d.view [0] = .ok ((List.range n).map (fun v => (v, v))) ∧
      Bfs.distances d.view [0] inf = .ok (List.range n)) := by
  have hS : ∀ s ∈ [0], s < n := by intro s hs; simp at hs; omega
  have hnd : [0].Nodup := by simp
  refine ⟨?_, ?_, ?_, ?_⟩
  · obtain ⟨d, e, r⟩ := Gen.AL.circuit_spec hn
    exact ⟨d, e, bfs_on_circuit hn (AL.traversals_of_realises r [0] hS hnd).bfs inf hinf⟩
  · obtain ⟨d, e, r⟩ := Gen.AM.circuit_spec hn
    exact ⟨d, e, bfs_on_circuit hn (AM.traversals_of_realises r [0] hS hnd).bfs inf hinf⟩
  · intro hf
    obtain ⟨d, e, r⟩ := Gen.MX.circuit_spec hn hf
    exact ⟨d, e, bfs_on_circuit hn (MX.traversals_of_realises r [0] hS hnd).bfs inf hinf⟩
  · obtain ⟨d, e, r⟩ := Gen.EL.circuit_spec hn
    exact ⟨d, e, bfs_on_circuit hn (EL.traversals_of_realises r [0] hS hnd).bfs inf hinf⟩

/-- **Conversions preserve every algorithm's result**: the result `t` of any of the twenty
`From<other representation>` impls has the SAME positional view and the SAME vertex-id view as
its source `d` (equality of `Graph`s / `VGraph`s, not only of arc relations), so `bfs`, `dfs`,
`tarjan`, `johnson`, … — any function of `order()`, `vertices()`, `out_neighbors()` — return the
very same value on `t` as on `d`.  The weighted target additionally has weight 1 on every arc. -/
theorem conversions_preserve_views :
    (∀ d : AdjList, d.WF →
      (∀ t, Conv.alToAM d = some t → t.view = d.view ∧ t.vview = d.vview) ∧
      (∀ t, Conv.alToMX d = some t → t.view = d.view ∧ t.vview = d.vview) ∧
      (∀ t, Conv.alToEL d = some t → t.view = d.view ∧ t.vview = d.vview) ∧
      (∀ t, Conv.alToWL d = some t → t.view = d.view ∧ t.vview = d.vview ∧
        ∀ u v w, t.wview.A u v w ↔ (d.view.A u v ∧ w = 1))) ∧
    (∀ d : AdjMap, C16.OkAM d →
      (∀ t, Conv.amToAL d = some t → t.view = d.view ∧ t.vview = d.vview) ∧
      (∀ t, Conv.amToMX d = some t → t.view = d.view ∧ t.vview = d.vview) ∧
      (∀ t, Conv.amToEL d = some t → t.view = d.view ∧ t.vview = d.vview) ∧
      (∀ t, Conv.amToWL d = some t → t.view = d.view ∧ t.vview = d.vview ∧
        ∀ u v w, t.wview.A u v w ↔ (d.view.A u v ∧ w = 1))) ∧
    (∀ d : AdjMatrix, C16.OkMX d →
      (∀ t, Conv.mxToAL d = some t → t.view = d.view ∧ t.vview = d.vview) ∧
      (∀ t, Conv.mxToAM d = some t → t.view = d.view ∧ t.vview = d.vview) ∧
      (∀ t, Conv.mxToEL d = some t → t.view = d.view ∧ t.vview = d.vview) ∧
      (∀ t, Conv.mxToWL d = some t → t.view = d.view ∧ t.vview = d.vview ∧
        ∀ u v w, t.wview.A u v w ↔ (d.view.A u v ∧ w = 1))) ∧
    (∀ d : EdgeList, d.WF →
      (∀ t, Conv.elToAL d = some t → t.view = d.view ∧ t.vview = d.vview) ∧
      (∀ t, Conv.elToAM d = some t → t.view = d.view ∧ t.vview = d.vview) ∧
      (∀ t, Conv.elToMX d = some t → t.view = d.view ∧ t.vview = d.vview) ∧
      (∀ t, Conv.elToWL d = some t → t.view = d.view ∧ t.vview = d.vview ∧
        ∀ u v w, t.wview.A u v w ↔ (d.view.A u v ∧ w = 1))) := by
  refine ⟨fun d h => ?_, fun d h => ?_, fun d h => ?_, fun d h => ?_⟩
  · have s := srcViews_al d h
    obtain ⟨c1, c2, c3, c4⟩ := C16.converts_from_al d h
    exact ⟨views_of_goodAM s c1, fun t ht => views_of_goodMX s (c2 (C16.fits_of_toMX ht)) t ht,
      views_of_goodEL s c3, views_of_goodWL s c4⟩
  · have s := srcViews_am d h.1 h.2.1
    obtain ⟨c1, c2, c3, c4⟩ := C16.converts_from_am d h
    exact ⟨views_of_goodAL s c1, fun t ht => views_of_goodMX s (c2 (C16.fits_of_toMX ht)) t ht,
      views_of_goodEL s c3, views_of_goodWL s c4⟩
  · have s := srcViews_mx d h.1
    obtain ⟨c1, c2, c3, c4⟩ := C16.converts_from_mx d h
    exact ⟨views_of_goodAL s c1, views_of_goodAM s c2, views_of_goodEL s c3, views_of_goodWL s c4⟩
  · have s := srcViews_el d h
    obtain ⟨c1, c2, c3, c4⟩ := C16.converts_from_el d h
    exact ⟨views_of_goodAL s c1, views_of_goodAM s c2,
      fun t ht => views_of_goodMX s (c3 (C16.fits_of_toMX ht)) t ht, views_of_goodWL s c4⟩

/-- Spelled out for one pair and one algorithm: `AdjacencyMatrix::from(&list)` gives the same
BFS items, the same SCCs and (today's) DFS output as the list itself. -/
theorem al_to_mx_same_results (d : AdjList) (h : d.WF) (t : AdjMatrix) (ht : Conv.alToMX d = some t)
    (S : List Nat) :
    Bfs.bfsDist t.view S = Bfs.bfsDist d.view S ∧ Dfs.dfs t.view S = Dfs.dfs d.view S ∧
    Tarjan.components t.vview = Tarjan.components d.vview := by
  obtain ⟨e1, e2⟩ := ((conversions_preserve_views.1 d h).2.1) t ht
  rw [e1, e2]; exact ⟨rfl, rfl, rfl⟩

/-! ## 5. The driver's graphs are the views of the representation models -/

/-- For every valid description (`order ≥ 1`, arcs joining distinct vertices `< order`; for the
matrix `order²` fitting a `usize`; for the map the contiguous key set), the representation model
built like the harness builds the real structure (`empty` + `add_arc` in description order)
exists, is well-formed, has exactly the described arcs, and its VIEW is the `Graph` the driver
runs the algorithm models on (`GDesc.graph`); likewise `GDesc.wgraph` is the weighted view of the
weighted model (a later triple replaces the weight of an earlier one). -/
theorem driver_graph_is_view (d : Driver.GDesc) (hn : 1 ≤ d.order) :
    (Gen.ArcsValid d.order d.arcs →
      (∃ r, Driver.buildAL d = some r ∧ r.WF ∧ r.order = d.order ∧
        (∀ u v, (u, v) ∈ r.arcs ↔ (u, v) ∈ d.arcs) ∧ r.view = d.graph) ∧
      (∃ r, Driver.buildEL d = some r ∧ r.WF ∧ r.order = d.order ∧
        (∀ u v, (u, v) ∈ r.arcs ↔ (u, v) ∈ d.arcs) ∧ r.view = d.graph) ∧
      (d.order * d.order < 2 ^ 64 → ∃ r, Driver.buildMX d = some r ∧ r.WF ∧ r.order = d.order ∧
        (∀ u v, (u, v) ∈ r.arcs ↔ (u, v) ∈ d.arcs) ∧ r.view = d.graph) ∧
      (d.verts = List.range d.order → ∃ r, Driver.buildAM d = some r ∧ r.WF ∧ Gen.AM.Contiguous r ∧
        r.order = d.order ∧ (∀ u v, (u, v) ∈ r.arcs ↔ (u, v) ∈ d.arcs) ∧ r.view = d.graph)) ∧
    ((∀ a ∈ d.warcs, a.1 ≠ a.2.1 ∧ a.1 < d.order ∧ a.2.1 < d.order) →
      ∃ r, Driver.buildW d = some r ∧ r.WF ∧ r.order = d.order ∧ r.wview = d.wgraph) :=
  ⟨fun hv => ⟨driver_graph_is_view_al d hn hv, driver_graph_is_view_el d hn hv,
     fun hf => driver_graph_is_view_mx d hn hf hv, fun hvs => driver_graph_is_view_am d hn hvs hv⟩,
   driver_wgraph_is_wview d hn⟩

/-- The `VGraph` of the C09 handler on a fixed-order description is the vertex-id view of the
representation model (for sparse `[am …]` descriptions this equality is not proved; there the
statement `adjMap_tarjan` applies to the model `buildAM` builds, the tie is C09's own run). -/
theorem driver_vgraph_is_vview_fixed (d : Driver.GDesc) (hn : 1 ≤ d.order) (hrepr : (d.repr == "am") = false)
    (hverts : d.verts = List.range d.order) (hv : Gen.ArcsValid d.order d.arcs) :
    (∃ r, Driver.buildAL d = some r ∧ r.WF ∧ r.vview = Driver.H09.vgraphOf d) ∧
    (∃ r, Driver.buildEL d = some r ∧ r.WF ∧ r.vview = Driver.H09.vgraphOf d) ∧
    (d.order * d.order < 2 ^ 64 → ∃ r, Driver.buildMX d = some r ∧ r.WF ∧ r.vview = Driver.H09.vgraphOf d) :=
  driver_vgraph_is_vview d hn hrepr hverts hv

/-! ## 6. The C11 operations under the algorithms

`ViewIs g vg n P` (`Proof/ComposeOps.lean`): the positional view `g` and the vertex-id view `vg`
ARE the digraph with vertex set `0..n` and arc relation `P` (rows ascending).  `complRel`,
`convRel`, `unionRel`, `filterRel` are the set definitions of the operations on bare relations.
`AlgorithmsHold g vg n P` = C04, C05-BFS, C06 (incl. the relational preorder clauses), C09 (every
call), C10 (every call) w.r.t. `P`. -/

/-- A view that IS `(n, P)` satisfies every algorithm property w.r.t. `P`. -/
theorem viewIs_algorithms {g : Graph} {vg : Tarjan.VGraph} {n : Nat} {P : Rel} (h : ViewIs g vg n P) :
    AlgorithmsHold g vg n P := h.algorithms

/-- Every well-formed value `ViewIs` its own arc relation `(u, v) ∈ arcs()`. -/
theorem viewIs_self :
    (∀ d : AdjList, d.WF → ViewIs d.view d.vview d.order d.Arc) ∧
    (∀ d : AdjMap, d.WF → Gen.AM.Contiguous d → ViewIs d.view d.vview d.order d.Arc) ∧
    (∀ d : AdjMatrix, d.WF → ViewIs d.view d.vview d.order d.Arc) ∧
    (∀ d : EdgeList, d.WF → ViewIs d.view d.vview d.order d.Arc) ∧
    (∀ d : AdjListW, d.WF → ViewIs d.view d.vview d.order d.Arc) :=
  ⟨AdjList.viewIs, AdjMap.viewIs, AdjMatrix.viewIs, EdgeList.viewIs, AdjListW.viewIs⟩

/-- `AdjacencyList` (every thread count `ap ≥ 1`): `complement`, `converse`, `union` return a
well-formed list whose view is the set definition applied to the operands' `arcs()`. -/
theorem adjList_ops_views :
    (∀ (d : AdjList) (ap : Nat), d.WF → 0 < ap → ∃ r, Ops.complementAL d ap = some r ∧ r.WF ∧ r.order = d.order ∧
      ViewIs r.view r.vview d.order (complRel d.order d.Arc)) ∧
    (∀ d : AdjList, d.WF → ∃ r, Ops.converseAL d = some r ∧ r.WF ∧ r.order = d.order ∧
      ViewIs r.view r.vview d.order (convRel d.Arc)) ∧
    (∀ (a b : AdjList) (ap : Nat), a.WF → b.WF → 0 < ap → ∃ r, Ops.unionAL a b ap = some r ∧ r.WF ∧
      r.order = max a.order b.order ∧ ViewIs r.view r.vview (max a.order b.order) (unionRel a.Arc b.Arc)) :=
  ⟨fun d ap h hap => AL.complement_viewIs d h ap hap, fun d h => AL.converse_viewIs d h,
   fun a b ap ha hb hap => AL.union_viewIs a b ha hb ap hap⟩

/-- `AdjacencyMatrix` (`order²` fits a `usize`). -/
theorem adjMatrix_ops_views :
    (∀ d : AdjMatrix, d.WF → d.order * d.order < 2 ^ 64 → ∃ r, Ops.complementMX d = some r ∧ r.WF ∧
      r.order = d.order ∧ ViewIs r.view r.vview d.order (complRel d.order d.Arc)) ∧
    (∀ d : AdjMatrix, d.WF → d.order * d.order < 2 ^ 64 → ∃ r, Ops.converseMX d = some r ∧ r.WF ∧
      r.order = d.order ∧ ViewIs r.view r.vview d.order (convRel d.Arc)) ∧
    (∀ a b : AdjMatrix, a.WF → b.WF → a.order * a.order < 2 ^ 64 → b.order * b.order < 2 ^ 64 →
      ∃ r, Ops.unionMX a b = some r ∧ r.WF ∧ r.order = max a.order b.order ∧
        ViewIs r.view r.vview (max a.order b.order) (unionRel a.Arc b.Arc)) :=
  ⟨fun d h hf => MX.complement_viewIs d h hf, fun d h hf => MX.converse_viewIs d h hf,
   fun a b ha hb hfa hfb => MX.union_viewIs a b ha hb hfa hfb⟩

/-- `EdgeList`. -/
theorem edgeList_ops_views :
    (∀ d : EdgeList, d.WF → (Ops.complementEL d).WF ∧ (Ops.complementEL d).order = d.order ∧
      ViewIs (Ops.complementEL d).view (Ops.complementEL d).vview d.order (complRel d.order d.Arc)) ∧
    (∀ d : EdgeList, d.WF → (Ops.converseEL d).WF ∧ (Ops.converseEL d).order = d.order ∧
      ViewIs (Ops.converseEL d).view (Ops.converseEL d).vview d.order (convRel d.Arc)) ∧
    (∀ a b : EdgeList, a.WF → b.WF → ∃ r, Ops.unionEL a b = some r ∧ r.WF ∧ r.order = max a.order b.order ∧
      ViewIs r.view r.vview (max a.order b.order) (unionRel a.Arc b.Arc)) :=
  ⟨fun d h => EL.complement_viewIs d h, fun d h => EL.converse_viewIs d h,
   fun a b ha hb => EL.union_viewIs a b ha hb⟩

/-- `AdjacencyMap` with key sets `0..order` (positional view; `union` for every thread count);
the results are again contiguous. -/
theorem adjMap_ops_views :
    (∀ d : AdjMap, d.WF → Gen.AM.Contiguous d → 0 < d.order →
      (Ops.complementAM d).WF ∧ (Ops.complementAM d).order = d.order ∧ Gen.AM.Contiguous (Ops.complementAM d) ∧
      ViewIs (Ops.complementAM d).view (Ops.complementAM d).vview d.order (complRel d.order d.Arc)) ∧
    (∀ d : AdjMap, d.WF → Gen.AM.Contiguous d → 0 < d.order →
      (Ops.converseAM d).WF ∧ (Ops.converseAM d).order = d.order ∧ Gen.AM.Contiguous (Ops.converseAM d) ∧
      ViewIs (Ops.converseAM d).view (Ops.converseAM d).vview d.order (convRel d.Arc)) ∧
    (∀ (a b : AdjMap) (ap : Nat), a.WF → b.WF → Gen.AM.Contiguous a → Gen.AM.Contiguous b → 0 < a.order →
      0 < b.order → 0 < ap → ∃ r, Ops.unionAM a b ap = some r ∧ r.WF ∧ r.order = max a.order b.order ∧
        Gen.AM.Contiguous r ∧ ViewIs r.view r.vview (max a.order b.order) (unionRel a.Arc b.Arc)) :=
  ⟨fun d h hc hn => AM.complement_viewIs d h hc hn, fun d h hc hn => AM.converse_viewIs d h hc hn,
   fun a b ap ha hb hca hcb hna hnb hap => AM.union_viewIs a b ha hb hca hcb hna hnb ap hap⟩

/-- `AdjacencyMap` with ARBITRARY key sets, all four operations incl. `filter_vertices`: vertex
set and arc set of the result are the set definitions, and Tarjan on the result returns the
strongly connected components of that digraph. -/
theorem adjMap_ops_tarjan :
    (∀ d : AdjMap, d.WF → 0 < d.order →
      (Ops.complementAM d).WF ∧ (∀ x, x ∈ (Ops.complementAM d).vertices ↔ x ∈ d.vertices) ∧
      (∀ u v, (Ops.complementAM d).Arc u v ↔ (u ∈ d.vertices ∧ v ∈ d.vertices ∧ u ≠ v ∧ ¬ d.Arc u v)) ∧
      TarjanHolds (Ops.complementAM d).vertices
        (fun u v => u ∈ d.vertices ∧ v ∈ d.vertices ∧ u ≠ v ∧ ¬ d.Arc u v) (Ops.complementAM d).vview) ∧
    (∀ d : AdjMap, d.WF → 0 < d.order →
      (Ops.converseAM d).WF ∧ (∀ x, x ∈ (Ops.converseAM d).vertices ↔ x ∈ d.vertices) ∧
      (∀ u v, (Ops.converseAM d).Arc u v ↔ d.Arc v u) ∧
      TarjanHolds (Ops.converseAM d).vertices (convRel d.Arc) (Ops.converseAM d).vview) ∧
    (∀ (a b : AdjMap) (ap : Nat), a.WF → b.WF → 0 < a.order → 0 < b.order → 0 < ap →
      ∃ r, Ops.unionAM a b ap = some r ∧ r.WF ∧ (∀ x, x ∈ r.vertices ↔ x ∈ a.vertices ∨ x ∈ b.vertices) ∧
        (∀ u v, r.Arc u v ↔ a.Arc u v ∨ b.Arc u v) ∧ TarjanHolds r.vertices (unionRel a.Arc b.Arc) r.vview) ∧
    (∀ (d : AdjMap) (p : Nat → Bool), d.WF →
      (Ops.filterAM d p).WF ∧ (∀ x, x ∈ (Ops.filterAM d p).vertices ↔ x ∈ d.vertices ∧ p x = true) ∧
      (∀ u v, (Ops.filterAM d p).Arc u v ↔ filterRel p d.Arc u v) ∧
      TarjanHolds (Ops.filterAM d p).vertices (filterRel p d.Arc) (Ops.filterAM d p).vview) :=
  ⟨fun d h hn => AM.complement_tarjan d h hn, fun d h hn => AM.converse_tarjan d h hn,
   fun a b ap ha hb hna hnb hap => AM.union_tarjan a b ha hb hna hnb ap hap,
   fun d p h => AM.filter_tarjan d h p⟩

/-- `AdjacencyListWeighted::converse`: the weights are carried over, so every weighted algorithm
on the result is correct w.r.t. the reversed weighted arc set. -/
theorem adjListW_converse_weighted (d : AdjListW) (h : d.WF) :
    ∃ r, Ops.converseW d = some r ∧ r.WF ∧ r.order = d.order ∧ (∀ u v w, r.WArc u v w ↔ d.WArc v u w) ∧
      WeightedHold (fun u v w => d.WArc v u w) d.order r.wview := WL.converse_weighted d h

/-- Whatever two views are related by `converse`: reachability is reversed, and Tarjan returns
the SAME blocks on both (strongly connected components are invariant under converse; only the
emission order may differ). -/
theorem converse_reach_and_sccs {g g' : Graph} {vg vg' : Tarjan.VGraph} {n : Nat} {A : Rel}
    (h : ViewIs g vg n A) (h' : ViewIs g' vg' n (convRel A)) :
    (∀ u v, Reach g' u v ↔ Reach g v u) ∧
    (∃ cs cs', Tarjan.components vg = .ret cs ∧ Tarjan.components vg' = .ret cs' ∧ ∀ c, c ∈ cs ↔ c ∈ cs') :=
  converse_corollaries h h'

/-- … instantiated: `AdjacencyList::converse`. -/
theorem adjList_converse_reach_sccs (d : AdjList) (h : d.WF) :
    ∃ r, Ops.converseAL d = some r ∧ (∀ u v, Reach r.view u v ↔ Reach d.view v u) ∧
      ∃ cs cs', Tarjan.components d.vview = .ret cs ∧ Tarjan.components r.vview = .ret cs' ∧
        ∀ c, c ∈ cs ↔ c ∈ cs' := by
  obtain ⟨r, e, _, _, hv⟩ := AL.converse_viewIs d h
  obtain ⟨h1, h2⟩ := converse_corollaries (AdjList.viewIs d h) hv
  exact ⟨r, e, h1, h2⟩

/-- BFS on the complement, spelled out: exactly the vertices reachable through NON-arcs. -/
theorem adjList_bfs_on_complement (d : AdjList) (h : d.WF) (ap : Nat) (hap : 0 < ap) (S : List Nat)
    (hS : ∀ s ∈ S, s < d.order) (hnd : S.Nodup) :
    ∃ r, Ops.complementAL d ap = some r ∧ BfsHolds (complRel d.order d.Arc) d.order S r.view := by
  obtain ⟨r, e, _, _, hv⟩ := AL.complement_viewIs d h ap hap
  exact ⟨r, e, (hv.traversals S hS hnd).bfs⟩

/-- `complement(complement(d))` and `converse(converse(d))` have the views of `d` (whatever the
representation: stated for any views with those relations). -/
theorem double_op_views {g g'' : Graph} {vg vg'' : Tarjan.VGraph} {n : Nat} {A : Rel} (h : ViewIs g vg n A) :
    (ViewIs g'' vg'' n (complRel n (complRel n A)) → g'' = g ∧ vg'' = vg) ∧
    (ViewIs g'' vg'' n (convRel (convRel A)) → g'' = g ∧ vg'' = vg) :=
  ⟨viewIs_compl_compl h, viewIs_conv_conv h⟩

/-! ## 7. `From<rows>` / `From<arcs>` (C16 (c), (d)) -/

/-- `From<Vec<BTreeSet>>` / `From<Vec<BTreeMap>>`: for valid sorted rows the constructor returns a
well-formed value whose view has LITERALLY the given rows. -/
theorem from_rows_views :
    (∀ rows : List (List Nat), Conv.RowsValid rows → (∀ r ∈ rows, SortedS r) →
      Conv.AL.fromRows rows = some ⟨rows⟩ ∧ AdjList.WF ⟨rows⟩ ∧
      (∀ u, (⟨rows⟩ : AdjList).view.out u = rows[u]?.getD []) ∧
      ViewIs (⟨rows⟩ : AdjList).view (⟨rows⟩ : AdjList).vview rows.length (rowsRel rows)) ∧
    (∀ rows : List (List Nat), Conv.RowsValid rows → (∀ r ∈ rows, SortedS r) →
      Conv.AM.fromRows rows = some ⟨Conv.enumRows rows⟩ ∧ AdjMap.WF ⟨Conv.enumRows rows⟩ ∧
      Gen.AM.Contiguous ⟨Conv.enumRows rows⟩ ∧
      (∀ u, (⟨Conv.enumRows rows⟩ : AdjMap).view.out u = rows[u]?.getD []) ∧
      ViewIs (⟨Conv.enumRows rows⟩ : AdjMap).view (⟨Conv.enumRows rows⟩ : AdjMap).vview rows.length (rowsRel rows)) ∧
    (∀ rows : List (List (Nat × Int)), Conv.RowsValidW rows → (∀ r ∈ rows, SortedK r) →
      Conv.WL.fromRows rows = some ⟨rows⟩ ∧ AdjListW.WF ⟨rows⟩ ∧
      (∀ u, (⟨rows⟩ : AdjListW).wview.out u = rows[u]?.getD []) ∧
      WeightedHold (wrowsRel rows) rows.length (⟨rows⟩ : AdjListW).wview ∧
      ViewIs (⟨rows⟩ : AdjListW).view (⟨rows⟩ : AdjListW).vview rows.length (⟨rows⟩ : AdjListW).Arc) :=
  ⟨AL.fromRows_viewIs, AM.fromRows_viewIs, WL.fromRows_weighted⟩

/-- `From<IntoIterator<Item = (usize, usize)>>`: order `max id + 1`, arcs = the given pairs. -/
theorem from_arcs_views :
    (∀ arcs : List (Nat × Nat), arcs ≠ [] → (∀ a ∈ arcs, a.1 ≠ a.2) → C16.Fits (Conv.maxId arcs + 1) →
      ∃ d, Conv.MX.fromArcs arcs = some d ∧ d.WF ∧ d.order = Conv.maxId arcs + 1 ∧
        ViewIs d.view d.vview (Conv.maxId arcs + 1) (listRel arcs)) ∧
    (∀ arcs : List (Nat × Nat), (∀ a ∈ arcs, a.1 ≠ a.2) →
      ∃ d, Conv.EL.fromArcs arcs = some d ∧ d.WF ∧ d.order = Conv.maxId arcs + 1 ∧
        ViewIs d.view d.vview (Conv.maxId arcs + 1) (listRel arcs)) :=
  ⟨MX.fromArcs_viewIs, EL.fromArcs_viewIs⟩

/-! ## 8. Random generators (C15)

C15 proves validity on the observable `View` and not the representation invariant; the traversal
theorems only need the view to be a well-formed `Graph` with arc relation `has_arc`, which follows
from `IsSimpleOn` (`…viewHas_of_simpleOn`).  `RandomOK g vg n has` = for all distinct in-range
sources `TraversalsHold (has · · = true) n S g`, and `TarjanHolds (0..n) (has · · = true) vg`. -/

/-- For EVERY stream (seed, PRNG), every order, every thread count: the generated digraph is valid
(C15) and all traversal theorems and Tarjan apply to its view, w.r.t. its `has_arc` relation —
which is a tournament / recursive tree / simple digraph by the first conjunct. -/
theorem random_generators_algorithms :
    (∀ (s : Rand.Stream) (n : Nat), 1 ≤ n →
      (∃ g, Rand.tournamentAL s n = some g ∧ Rand.IsTournament n (Rand.viewAL g) ∧ RandomOK g.view g.vview n g.hasArc) ∧
      (Rand.FitsMatrix n → ∃ g, Rand.tournamentMX s n = some g ∧ Rand.IsTournament n (Rand.viewMX g) ∧
        RandomOK g.view g.vview n g.hasArc) ∧
      (∃ g, Rand.tournamentEL s n = some g ∧ Rand.IsTournament n (Rand.viewEL g) ∧ RandomOK g.view g.vview n g.hasArc)) ∧
    (∀ (streams : Nat → Rand.Stream) (n t : Nat), 1 ≤ n → 1 ≤ t →
      ∃ g, Rand.tournamentAM streams n t = some g ∧ Rand.IsTournament n (Rand.viewAM g) ∧
        RandomOK g.view g.vview n g.hasArc) ∧
    (∀ (s : Rand.Stream) (n : Nat), 1 ≤ n →
      (∃ g, Rand.rrtAL s n = some g ∧ Rand.IsRecursiveTree n (Rand.viewAL g) ∧ RandomOK g.view g.vview n g.hasArc) ∧
      (∃ g, Rand.rrtAM s n = some g ∧ Rand.IsRecursiveTree n (Rand.viewAM g) ∧ RandomOK g.view g.vview n g.hasArc) ∧
      (Rand.FitsMatrix n → ∃ g, Rand.rrtMX s n = some g ∧ Rand.IsRecursiveTree n (Rand.viewMX g) ∧
        RandomOK g.view g.vview n g.hasArc) ∧
      (∃ g, Rand.rrtEL s n = some g ∧ Rand.IsRecursiveTree n (Rand.viewEL g) ∧ RandomOK g.view g.vview n g.hasArc)) ∧
    (∀ (s : Rand.Stream) (n : Nat) (p : Rand.F64), 1 ≤ n → p.inUnit = true →
      (∃ g, Rand.erAL s n p = some g ∧ Rand.ErValid n p (Rand.viewAL g) ∧ RandomOK g.view g.vview n g.hasArc) ∧
      (Rand.FitsMatrix n → ∃ g, Rand.erMX s n p = some g ∧ Rand.ErValid n p (Rand.viewMX g) ∧
        RandomOK g.view g.vview n g.hasArc) ∧
      (∃ g, Rand.erEL s n p = some g ∧ Rand.ErValid n p (Rand.viewEL g) ∧ RandomOK g.view g.vview n g.hasArc)) ∧
    (∀ (streams : Nat → Rand.Stream) (n t : Nat) (p : Rand.F64), 1 ≤ n → 1 ≤ t → p.inUnit = true →
      ∃ g, Rand.erAM streams n t p = some g ∧ Rand.ErValid n p (Rand.viewAM g) ∧
        RandomOK g.view g.vview n g.hasArc) := by
  refine ⟨fun s n hn => ⟨?_, fun hf => ?_, ?_⟩, fun st n t hn ht => ?_, fun s n hn => ⟨?_, ?_, fun hf => ?_, ?_⟩,
    fun s n p hn hp => ⟨?_, fun hf => ?_, ?_⟩, fun st n t p hn ht hp => ?_⟩
  · obtain ⟨g, e, v⟩ := C15.tournament_valid_al s n hn
    exact ⟨g, e, v, (AL.viewHas_of_simpleOn g n v.1).randomOK⟩
  · obtain ⟨g, e, v⟩ := C15.tournament_valid_mx s n hn hf
    exact ⟨g, e, v, (MX.viewHas_of_simpleOn g n v.1).randomOK⟩
  · obtain ⟨g, e, v⟩ := C15.tournament_valid_el s n hn
    exact ⟨g, e, v, (EL.viewHas_of_simpleOn g n v.1).randomOK⟩
  · obtain ⟨g, e, v⟩ := C15.tournament_valid_am st n t hn ht
    exact ⟨g, e, v, (AM.viewHas_of_simpleOn g n v.1).randomOK⟩
  · obtain ⟨g, e, v⟩ := C15.rrt_valid_al s n hn
    exact ⟨g, e, v, (AL.viewHas_of_simpleOn g n v.1).randomOK⟩
  · obtain ⟨g, e, v⟩ := C15.rrt_valid_am s n hn
    exact ⟨g, e, v, (AM.viewHas_of_simpleOn g n v.1).randomOK⟩
  · obtain ⟨g, e, v⟩ := C15.rrt_valid_mx s n hn hf
    exact ⟨g, e, v, (MX.viewHas_of_simpleOn g n v.1).randomOK⟩
  · obtain ⟨g, e, v⟩ := C15.rrt_valid_el s n hn
    exact ⟨g, e, v, (EL.viewHas_of_simpleOn g n v.1).randomOK⟩
  · obtain ⟨g, e, v⟩ := C15.er_valid_al s n p hn hp
    exact ⟨g, e, v, (AL.viewHas_of_simpleOn g n v.1).randomOK⟩
  · obtain ⟨g, e, v⟩ := C15.er_valid_mx s n p hn hf hp
    exact ⟨g, e, v, (MX.viewHas_of_simpleOn g n v.1).randomOK⟩
  · obtain ⟨g, e, v⟩ := C15.er_valid_el s n p hn hp
    exact ⟨g, e, v, (EL.viewHas_of_simpleOn g n v.1).randomOK⟩
  · obtain ⟨g, e, v⟩ := C15.er_valid_am st n t p hn ht hp
    exact ⟨g, e, v, (AM.viewHas_of_simpleOn g n v.1).randomOK⟩

/-- A consequence read off for tournaments: in a tournament every two distinct vertices are
joined, so BFS from any vertex `s` on `random_tournament` reaches every vertex that has an arc
from `s` at hop distance 1 — and the relation the theorem speaks about is the tournament's. -/
theorem random_tournament_bfs (s : Rand.Stream) (n : Nat) (hn : 1 ≤ n) (src : Nat) (hsrc : src < n) :
    ∃ g, Rand.tournamentAL s n = some g ∧
      (∀ u v, u < n → v < n → u ≠ v → (g.hasArc u v = true ↔ g.hasArc v u = false)) ∧
      BfsHolds (hasRel g.hasArc) n [src] g.view := by
  obtain ⟨g, e, v, ok⟩ := (random_generators_algorithms.1 s n hn).1
  exact ⟨g, e, v.2, (ok.1 [src] (by intro x hx; simp at hx; omega) (by simp)).bfs⟩

/-! ## 9. Sparse `[am verts arcs]` descriptions -/

/-- The `VGraph` the C09 handler runs the Tarjan model on (`H09.vgraphOf d`: vertices = described
vertices + arc endpoints, rows for ids `0..max id`) is the vertex-id view of the map built like
the harness builds the real one — for ANY ascending vertex list and loop-free arcs (ids need not be
contiguous). -/
theorem driver_vgraph_is_vview_sparse_am (d : Driver.GDesc) (hrepr : (d.repr == "am") = true)
    (hverts : d.verts.Pairwise (· < ·)) (hnl : ∀ a ∈ d.arcs, a.1 ≠ a.2) :
    ∃ r, Driver.buildAM d = some r ∧ r.WF ∧ r.vertices = Driver.H09.vertsOf d ∧
      (∀ u v, (u, v) ∈ r.arcs ↔ (u, v) ∈ d.arcs) ∧ r.vview = Driver.H09.vgraphOf d :=
  driver_vgraph_is_vview_am d hrepr hverts hnl

/-- `H09.vgraphSparse` (rows keyed by id in an array sorted by id, found by binary search; used
when an id is ≥ 4096) builds the SAME `VGraph` as `H09.vgraphOf` (rows indexed by id) — same
vertex list and, for EVERY id `u` (vertex or not), the same row.  (Binary search is proved to
find exactly the position of the key: `rankOf_spec`.) -/
theorem driver_vgraphSparse_eq_vgraphOf (d : Driver.GDesc) (hrepr : (d.repr == "am") = true)
    (hnl : ∀ a ∈ d.arcs, a.1 ≠ a.2) : Driver.H09.vgraphSparse d = Driver.H09.vgraphOf d :=
  vgraphSparse_eq_vgraphOf d hrepr hnl

/-- Hence `H09.graphOfDesc d`, whichever construction it picks, is the vertex-id view of the map
the harness builds. -/
theorem driver_graphOfDesc_is_vview (d : Driver.GDesc) (hrepr : (d.repr == "am") = true)
    (hverts : d.verts.Pairwise (· < ·)) (hnl : ∀ a ∈ d.arcs, a.1 ≠ a.2) :
    ∃ r, Driver.buildAM d = some r ∧ r.WF ∧ r.vview = Driver.H09.graphOfDesc d :=
  driver_graphOfDesc_is_vview_am d hrepr hverts hnl

/-! ## 10. The preorder clause of C06 over the bare arc relation

`RIsDfsPreorder A S xs anns` (`Proof/ComposeDfs.lean`) is "`xs` is a depth-first preorder (prefix)
of the digraph `A` from the sources `S`, annotated with the prescribed parents and depths",
defined inductively over the RELATION `A` (no rows, no Booleans).  It is the reading of
`Spec/Dfs.lean`: -/

theorem dfs_preorder_relational (g : Graph) (S xs : List Nat) :
    (∀ anns, Dfs.annotate g S xs = some anns ↔ RIsDfsPreorder g.A S xs anns) ∧
    (Dfs.ValidDfsPreorder g S xs ↔ ∃ anns, RIsDfsPreorder g.A S xs anns) :=
  ⟨annotate_iff g S xs, validDfsPreorder_iff g S xs⟩

/-- C06 for every `AdjacencyList`, with NOTHING on the specification side but `(u, v) ∈ arcs()`:
today's `Dfs` yields a depth-first preorder prefix with the prescribed depths / parents / forest;
the corrected variant yields exactly the reachable vertices in a depth-first preorder.  (The same
two fields `dfsTodayR`, `dfsFixedR` are part of every `TraversalsHold` above — all
representations, after any history, generators, conversions, operations.) -/
theorem adjList_dfs_relational (d : AdjList) (h : d.WF) (S : List Nat) (hS : ∀ s ∈ S, s < d.order)
    (hnd : S.Nodup) : DfsPreorderTodayR d.Arc d.order S d.view ∧ DfsFixedHoldsR d.Arc d.order S d.view :=
  ⟨(adjList_traversals d h S hS hnd).dfsTodayR, (adjList_traversals d h S hS hnd).dfsFixedR⟩

/-! ## 11. Repeated calls on the same algorithm object -/

/-- `tarjan_every_call` on every representation: each call of `components()` on one `Tarjan`
object returns what the first call returns, the SCC partition w.r.t. `arcs()`. -/
theorem tarjan_every_call_views :
    (∀ d : AdjList, d.WF → TarjanEveryCallHolds d.vertices d.Arc d.vview) ∧
    (∀ d : AdjMap, d.WF → TarjanEveryCallHolds d.vertices d.Arc d.vview) ∧
    (∀ d : AdjMatrix, d.WF → TarjanEveryCallHolds d.vertices d.Arc d.vview) ∧
    (∀ d : EdgeList, d.WF → TarjanEveryCallHolds d.vertices d.Arc d.vview) ∧
    (∀ d : AdjListW, d.WF → TarjanEveryCallHolds d.vertices d.Arc d.vview) :=
  ⟨fun d h => tarjanEveryCallHolds_of (g := d.vview) (d.vview_spec h).arc_iff (d.vview_spec h).closed,
   fun d h => tarjanEveryCallHolds_of (g := d.vview) (d.vview_spec h).arc_iff (d.vview_spec h).closed,
   fun d h => tarjanEveryCallHolds_of (g := d.vview) (d.vview_spec h).arc_iff (d.vview_spec h).closed,
   fun d h => tarjanEveryCallHolds_of (g := d.vview) (d.vview_spec h).arc_iff (d.vview_spec h).closed,
   fun d h => tarjanEveryCallHolds_of (g := d.vview) (d.vview_spec h).arc_iff (d.vview_spec h).closed⟩

/-- `johnson_repeat_statement` on the contiguous map. -/
theorem adjMap_johnson_repeat (d : AdjMap) (h : d.WF) (hc : Gen.AM.Contiguous d) : JohnsonRepeatHolds d.Arc d.view :=
  (AdjMap.viewIs d h hc).johnsonRepeat

/-- … after any history (generic over the representation model). -/
theorem tarjan_every_call_after_any_history {σ ο ω : Type} (M : ReprModel σ ο ω) (r : σ) (hr : M.WF r)
    (ops : List ο) :
    TarjanEveryCallHolds (M.vview (M.after r ops)).verts (M.specAfter r ops).Arc (M.vview (M.after r ops)) :=
  M.tarjan_every_call_after_any_history r hr ops

theorem johnson_repeat_after_any_history {σ ο ω : Type} (M : ReprModel σ ο ω) (r : σ) (hr : M.WF r)
    (ops : List ο) (hok : M.viewOK (M.after r ops)) :
    JohnsonRepeatHolds (M.specAfter r ops).Arc (M.view (M.after r ops)) :=
  M.johnson_repeat_after_any_history r hr ops hok

/-- `bfm_repeat_const` and `fw_twice` on the weighted list after any history (they are the fields
`bfmRepeat`, `fwTwice` of `WeightedHold`, hence also part of `adjListW_weighted`,
`adjListW_converse_weighted`, `from_rows_views`). -/
theorem weighted_repeat_after_any_history (d : AdjListW) (h : d.WF) (ops : List (Op Int)) :
    (∀ s, s < d.order → BfmRepeatHolds s (run AdjListW.step d ops).1.wview) ∧
    ((∀ x, ¬ RNegCycleAt (run (specStep .fixed) d.abs ops).1.WArc x) →
      Fw.distances2 (run AdjListW.step d ops).1.wview = Fw.distances (run AdjListW.step d ops).1.wview) :=
  ⟨(AdjListW.weighted_after_any_history d h ops).bfmRepeat, (AdjListW.weighted_after_any_history d h ops).fwTwice⟩

/-! ## Non-vacuity

A 6-call history on an `AdjacencyMatrix` of order 9 (`order² = 81` bits: two 64-bit blocks;
cells 8, 71, 79 live in different blocks), including a rejected call, a `toggle` that switches an
arc off and a `remove_arc`; then the BFS model on the view of the result.  The hypotheses of
`adjMatrix_bfs_from_empty` are met, the model output is the concrete list below, and the SPEC
digraph (computed without any matrix) has exactly the arcs the theorem speaks about. -/

def exOps : List MxOp := [.add 0 8, .add 8 7, .tog 0 1, .add 9 0, .tog 0 1, .add 7 8]

/-- the calls return what the spec says (one panic) -/
example :
    (do let d ← AdjMatrix.empty 9
        pure (run AdjMatrix.step d exOps).2) =
      some [.unit, .unit, .unit, .panic, .unit, .unit] := by decide

/-- two blocks -/
example : (AdjMatrix.empty 9).map (fun d => (run AdjMatrix.step d exOps).1.blocks.length) = some 2 := by decide

/-- the view of the final matrix, row by row -/
example :
    (AdjMatrix.empty 9).map (fun d => (List.range 9).map (run AdjMatrix.step d exOps).1.view.out) =
      some [[8], [], [], [], [], [], [], [8], [7]] := by decide

/-- the BFS model on it -/
example :
    (AdjMatrix.empty 9).map (fun d => Bfs.bfsDist (run AdjMatrix.step d exOps).1.view [0]) =
      some (.ok [(0, 0), (8, 1), (7, 2)]) := by decide

example :
    (AdjMatrix.empty 9).map (fun d => Bfs.distances (run AdjMatrix.step d exOps).1.view [0, 7] 99) =
      some (.ok [0, 99, 99, 99, 99, 99, 99, 0, 1]) := by decide

/-- the SPEC digraph after the same calls: exactly the arcs `0→8, 7→8, 8→7` -/
example :
    (List.range 10).flatMap (fun u => ((List.range 10).filter
      (fun v => (run specStepMx (emptySpec Unit 9) exOps).1.A u v)).map (fun v => (u, v))) =
      [(0, 8), (7, 8), (8, 7)] := by decide

/-- … and the theorem applies (hypotheses met): -/
example : ∃ d, AdjMatrix.empty 9 = some d ∧
    BfsHolds (run specStepMx (emptySpec Unit 9) exOps).1.Arc 9 [0] (run AdjMatrix.step d exOps).1.view :=
  ⟨_, rfl, adjMatrix_bfs_from_empty 9 _ rfl exOps [0] (by decide) (by decide)⟩

/-- what it says about this instance, read off: vertex 7 is reachable at hop distance 2 in the
SPEC digraph — independently checkable from the arc list above. -/
example : RIsHopDist (run specStepMx (emptySpec Unit 9) exOps).1.Arc [0] 7 2 := by
  obtain ⟨d, he, _, ⟨out, ho, _, hex⟩, _⟩ :
      ∃ d, AdjMatrix.empty 9 = some d ∧
        BfsHolds (run specStepMx (emptySpec Unit 9) exOps).1.Arc 9 [0] (run AdjMatrix.step d exOps).1.view :=
    ⟨_, rfl, adjMatrix_bfs_from_empty 9 _ rfl exOps [0] (by decide) (by decide)⟩
  cases he
  have e : Bfs.bfsDist (run AdjMatrix.step ⟨List.replicate ((9 * 9 + 63) / 64) 0#64, 9⟩ exOps).1.view [0]
      = .ok [(0, 0), (8, 1), (7, 2)] := by decide
  rw [e] at ho
  cases ho
  exact hex (7, 2) (by simp)

/-- A weighted history with a weight replacement and a negative arc; Dijkstra's hypothesis fails
(negative weight), Bellman-Ford-Moore applies. -/
def exWOps : List (Op Int) := [.add 0 1 4, .add 1 2 (-3), .add 0 1 2, .add 0 2 5, .rem 0 2, .add 3 3 1]

example :
    (AdjListW.empty 4).map (fun d => (run AdjListW.step d exWOps).1.arcsWeighted) =
      some [(0, 1, 2), (1, 2, -3)] := by decide
example :
    (AdjListW.empty 4).map (fun d => Bfm.distances (run AdjListW.step d exWOps).1.wview 0) =
      some (.ret (some [some 0, some 2, some (-1), none])) := by decide
example : ∃ d, AdjListW.empty 4 = some d ∧
    BfmHolds (run (specStep .fixed) d.abs exWOps).1.WArc d.order 0 (run AdjListW.step d exWOps).1.wview :=
  ⟨_, rfl, bfm_after_any_history _ (C01.adjListW_empty (n := 4) rfl).1 exWOps 0 (by decide)⟩

/-- A map that grows beyond its initial keys and stays an initial segment: `empty(2)`, then
`add_arc(1, 2)`, `add_arc(2, 0)`; Tarjan on a sparse map (`add_arc(0, 7)`). -/
example :
    (AdjMap.empty 2).map (fun d =>
      Bfs.bfsDist (run AdjMap.step d [.add 0 1 (), .add 1 2 (), .add 2 0 (), .add 2 2 ()]).1.view [1]) =
      some (.ok [(1, 0), (2, 1), (0, 2)]) := by decide
example :
    (AdjMap.empty 2).map (fun d =>
      Tarjan.components (run AdjMap.step d [.add 0 7 (), .add 7 0 (), .add 1 0 ()]).1.vview) =
      some (.ret [[0, 7], [1]]) := by decide

/-- the circuit family at a concrete order, computed -/
example : (Gen.MX.circuit 5).map (fun d => Bfs.bfsDist d.view [0]) =
    some (.ok [(0, 0), (1, 1), (2, 2), (3, 3), (4, 4)]) := by decide

/-- the driver's graph of a concrete description is the view of the model built from it -/
example :
    (Driver.buildMX ⟨"mx", List.range 4, 4, [(2, 1), (0, 3), (2, 0), (0, 3)], []⟩).map
        (fun r => (List.range 4).map r.view.out) =
      some ((List.range 4).map (Driver.GDesc.graph ⟨"mx", List.range 4, 4, [(2, 1), (0, 3), (2, 0), (0, 3)], []⟩).out) := by
  decide

/-! ### second round -/

/-- operations: `converse` of the path `0→1→2` plus `2→0`… reverses reachability, same SCC blocks -/
example : (Ops.converseAL ⟨[[1], [2], [0, 3], []]⟩).map (fun r => (List.range 4).map r.view.out) =
    some [[2], [0], [1], [2]] := by decide
example : Tarjan.components (⟨[[1], [2], [0, 3], []]⟩ : AdjList).vview = .ret [[3], [0, 1, 2]] := by decide
example : (Ops.converseAL ⟨[[1], [2], [0, 3], []]⟩).map (fun r => Tarjan.components r.vview) =
    some (.ret [[0, 1, 2], [3]]) := by decide
/-- BFS on the complement of the circuit `0→1→2→3→0` -/
example : (Ops.complementAL ⟨[[1], [2], [3], [0]]⟩ 3).map (fun r => Bfs.bfsDist r.view [0]) =
    some (.ok [(0, 0), (2, 1), (3, 1), (1, 2)]) := by decide
/-- `From<rows>`: the view has the given rows -/
example : (Conv.AM.fromRows [[2], [0, 2], []]).map (fun r => (List.range 3).map r.view.out) =
    some [[2], [0, 2], []] := by decide
/-- a random tournament on 4 vertices from the constant stream `1` (every `next_bool` true), BFS
and Tarjan on its view -/
example : (Rand.tournamentAL (fun _ => 1) 4).map (fun g => Bfs.bfsDist g.view [2]) =
    some (.ok [(2, 0), (3, 1)]) := by decide
example : (Rand.tournamentAL (fun i => UInt64.ofNat i) 4).map (fun g => Tarjan.components g.vview) =
    some (.ret [[0, 1, 2, 3]]) := by decide
/-- the relational preorder predicate on the C06 witness `0→1, 0→2, 0→3, 3→2` -/
example : RIsDfsPreorder C06.witness.A [0] [0, 3, 2, 1] [(0, none, 0), (3, some 0, 1), (2, some 3, 2), (1, some 0, 1)] :=
  (annotate_iff C06.witness [0] _ _).1 (by decide)
example : ¬ ∃ anns, RIsDfsPreorder C06.witness.A [0] [0, 3, 1] anns :=
  fun h => absurd ((validDfsPreorder_iff C06.witness [0] _).2 h) (by decide)
/-- the third call of `components()` on the same object, on a view after a history -/
example : (AdjList.empty 3).map (fun d =>
    Tarjan.componentsAt (run AdjList.step d [.add 0 1 (), .add 1 0 (), .add 1 2 ()]).1.vview 3) =
    some (.ret [[2], [0, 1]]) := by decide

/-- a sparse map description with a huge id: both driver constructions, and the model's view -/
example : (Driver.H09.vgraphSparse ⟨"am", [3, 5000], 2, [(3, 5000), (5000, 3), (3, 7)], []⟩).out 3 = [7, 5000] := by
  decide
example : (Driver.buildAM ⟨"am", [3, 5000], 2, [(3, 5000), (5000, 3), (3, 7)], []⟩).map
    (fun r => (r.vview.verts, r.vview.out 3, r.vview.out 5000)) = some ([3, 7, 5000], [7, 5000], [3]) := by decide

end GraafVerif.Compose
