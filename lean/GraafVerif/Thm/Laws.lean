import GraafVerif.Proof.LawsInst
import GraafVerif.Proof.LawsGen
import GraafVerif.Proof.LawsDeg
/-!
# Laws — algebraic laws and generator / predicate composition theorems between the models

Only statements, proofs by reference and non-vacuity examples.  No harness op of its own: every
statement is about COMPOSITIONS of model functions that are each tied to the real code by their own
property (C11 operations, C12 predicates, C14 generators, C20 `==`), e.g.
`union(g, complement(g)) == complete(order)`.

How to read a statement.  `M : Rep R` (`Proof/LawsRep.lean`) bundles one representation:
`M.compl / M.conv / M.un` are its `complement / converse / union` models, `M.isComplete …
M.isSpanningSubdigraph` its predicate models, `M.fam.*` its generator models, `M.vertices / M.arcs /
M.size` its `vertices() / arcs() / size()` models, `M.WF` the representation invariant.  The four
bundles (`Proof/LawsInst.lean`, all fields are existing definitions / theorems):

| bundle | `compl d` | `conv d` | `un a b` | `fam.complete n` | `WF d` |
|---|---|---|---|---|---|
| `alRep ap _` | `complementAL d ap` | `converseAL d` | `unionAL a b ap` | `Gen.AL.complete n ap` | `d.WF` |
| `amRep ap _` | `some (complementAM d)` | `some (converseAM d)` | `unionAM a b ap` | `Gen.AM.complete n` | `d.WF ∧ 0 < d.order` |
| `mxRep` | `complementMX d` | `converseMX d` | `unionMX a b` | `Gen.MX.complete n` | `d.WF ∧ d.order² < 2^64` |
| `elRep` | `some (complementEL d)` | `some (converseEL d)` | `unionEL a b` | `Gen.EL.complete n` | `d.WF` |

(`ap ≥ 1` = `available_parallelism()`.)  `x = some r` = "the call returns `r`" (`none` = panic); `=` of model
values is `==` of the Rust structs (C20: the derived `PartialEq` is structural, the models are canonical).
The second half of the file spells the headline laws out in plain model terms.
-/
namespace GraafVerif.Laws
open GraafVerif.Repr GraafVerif.Ops GraafVerif.Query GraafVerif.Pred GraafVerif.GenSpec GraafVerif.Gen

/-- **All laws, for one representation.** -/
structure LawsOf {R : Type} (M : Rep R) : Prop where
  -- 1. involutions
  complement_involutive : ∀ d, M.WF d → ∃ r, M.compl d = some r ∧ M.compl r = some d
  converse_involutive : ∀ d, M.WF d → ∃ r, M.conv d = some r ∧ M.conv r = some d
  -- 2. union
  union_comm : ∀ a b, M.WF a → M.WF b → ∃ r, M.un a b = some r ∧ M.un b a = some r
  union_idem : ∀ a, M.WF a → M.un a a = some a
  union_assoc : ∀ a b c, M.WF a → M.WF b → M.WF c →
    ∃ ab bc r, M.un a b = some ab ∧ M.un b c = some bc ∧ M.un ab c = some r ∧ M.un a bc = some r
  /-- `empty m` is neutral on both sides as soon as `0..m` are vertices of `g` (`m ≤ order` for the
  fixed-order representations — not only "matching order") -/
  union_empty : ∀ g, M.WF g → ∀ m, 1 ≤ m → M.fits m → (∀ v, v < m → v ∈ M.vertices g) →
    ∃ e, M.fam.empty m = some e ∧ M.un g e = some g ∧ M.un e g = some g
  /-- … and so is any arcless digraph whose vertices are vertices of `g` (sparse map ids) -/
  union_arcless : ∀ g e, M.WF g → M.WF e → M.arcs e = [] → (∀ v, v ∈ M.vertices e → v ∈ M.vertices g) →
    M.un g e = some g ∧ M.un e g = some g
  converse_union : ∀ g h, M.WF g → M.WF h → ∃ gh cg ch r, M.un g h = some gh ∧ M.conv g = some cg ∧
    M.conv h = some ch ∧ M.conv gh = some r ∧ M.un cg ch = some r
  converse_complement : ∀ g, M.WF g →
    ∃ c cv r, M.compl g = some c ∧ M.conv g = some cv ∧ M.conv c = some r ∧ M.compl cv = some r
  /-- `g ∪ complement g = complete n` when the vertex set is `0..n` -/
  union_complement_complete : ∀ g, M.WF g → ∀ n, (∀ v, v ∈ M.vertices g ↔ v < n) →
    ∃ c k, M.compl g = some c ∧ M.fam.complete n = some k ∧ M.un g c = some k ∧ M.un c g = some k
  complement_complete_empty : ∀ n, 1 ≤ n → M.fits n →
    ∃ k e, M.fam.complete n = some k ∧ M.fam.empty n = some e ∧ M.compl k = some e ∧ M.compl e = some k
  -- 3. predicates against operations
  symmetric_iff_converse : ∀ g, M.WF g → (M.isSymmetric g = true ↔ M.conv g = some g)
  complete_iff_complement_arcless : ∀ g, M.WF g →
    (M.isComplete g = some true ↔ ∃ c, M.compl g = some c ∧ M.arcs c = [])
  complete_iff_complement_empty : ∀ g, M.WF g → ∀ n, (∀ v, v ∈ M.vertices g ↔ v < n) →
    (M.isComplete g = some true ↔ ∃ e, M.fam.empty n = some e ∧ M.compl g = some e)
  complete_iff_eq_complete : ∀ g, M.WF g → ∀ n, (∀ v, v ∈ M.vertices g ↔ v < n) →
    (M.isComplete g = some true ↔ M.fam.complete n = some g)
  tournament_iff_semicomplete_oriented : ∀ g, M.WF g →
    (M.isTournament g = some true ↔ M.isSemicomplete g = some true ∧ M.isOriented g = true)
  /-- a tournament is exactly a digraph whose complement is its converse -/
  tournament_iff_complement_eq_converse : ∀ g, M.WF g → (M.isTournament g = some true ↔ M.compl g = M.conv g)
  converse_preserves : ∀ g, M.WF g → ∃ r, M.conv g = some r ∧ M.isComplete r = M.isComplete g ∧
    M.isSemicomplete r = M.isSemicomplete g ∧ M.isTournament r = M.isTournament g ∧
    M.isSymmetric r = M.isSymmetric g ∧ M.isOriented r = M.isOriented g
  /-- `converse` swaps in- and out-degrees: `is_regular`, `is_balanced` are invariant -/
  converse_preserves_degrees : ∀ g, M.WF g →
    ∃ r, M.conv g = some r ∧ M.isRegular r = M.isRegular g ∧ M.isBalanced r = M.isBalanced g
  regular_balanced : ∀ g, M.WF g → M.isRegular g = some true → M.isBalanced g = some true
  complement_duals : ∀ g, M.WF g → ∃ c, M.compl g = some c ∧
    (M.isSemicomplete g = some true ↔ M.isOriented c = true) ∧
    (M.isOriented g = true ↔ M.isSemicomplete c = some true) ∧
    M.isTournament c = M.isTournament g ∧ M.isSymmetric c = M.isSymmetric g
  sub_union : ∀ g h, M.WF g → M.WF h → ∃ r, M.un g h = some r ∧ M.isSubdigraph g r = true ∧
    M.isSubdigraph h r = true ∧ M.isSuperdigraph r g = true ∧ M.isSuperdigraph r h = true
  sub_refl : ∀ g, M.WF g → M.isSubdigraph g g = true
  sub_trans : ∀ a b c, M.WF a → M.WF b → M.WF c → M.isSubdigraph a b = true → M.isSubdigraph b c = true →
    M.isSubdigraph a c = true
  /-- `is_subdigraph` is antisymmetric w.r.t. `==` -/
  sub_antisymm : ∀ g h, M.WF g → M.WF h → ((M.isSubdigraph g h = true ∧ M.isSubdigraph h g = true) ↔ g = h)
  /-- absorption: `g ⊆ h ↔ g ∪ h == h` -/
  sub_iff_union : ∀ g h, M.WF g → M.WF h → (M.isSubdigraph g h = true ↔ M.un g h = some h)
  spanning_bounds : ∀ g, M.WF g → ∀ n, (∀ v, v ∈ M.vertices g ↔ v < n) →
    ∃ e k, M.fam.empty n = some e ∧ M.fam.complete n = some k ∧
      M.isSpanningSubdigraph e g = true ∧ M.isSpanningSubdigraph g k = true
  spanning_complement : ∀ g, M.WF g → ∃ c r, M.compl g = some c ∧ M.un g c = some r ∧
    M.isSpanningSubdigraph g r = true ∧ M.isSpanningSubdigraph c r = true ∧ ∀ a, a ∈ M.arcs g → a ∉ M.arcs c
  -- 4. generators against predicates, operations, `size`
  gen_complete : ∀ n, 1 ≤ n → M.fits n → ∃ k, M.fam.complete n = some k ∧ M.isComplete k = some true ∧
    M.isSemicomplete k = some true ∧ M.isSymmetric k = true ∧ M.conv k = some k ∧ M.isRegular k = some true ∧
    M.size k = n * (n - 1)
  gen_empty : ∀ n, 1 ≤ n → M.fits n → ∃ e, M.fam.empty n = some e ∧ M.arcs e = [] ∧ M.isSymmetric e = true ∧
    M.isOriented e = true ∧ M.conv e = some e ∧ M.isRegular e = some true ∧ M.size e = 0
  /-- `circuit n`: regular; oriented iff `n ≠ 2`; `n` arcs (`n ≥ 2`); converse = reversed arcs;
  `circuit n ∪ converse (circuit n) = cycle n` -/
  gen_circuit : ∀ n, 1 ≤ n → M.fits n → ∃ c cc k, M.fam.circuit n = some c ∧ M.conv c = some cc ∧
    M.fam.cycle n = some k ∧ M.isRegular c = some true ∧ (M.isOriented c = true ↔ n ≠ 2) ∧ (2 ≤ n → M.size c = n) ∧
    (∀ u v, (u, v) ∈ M.arcs cc ↔ CircuitDef n v u) ∧ M.un c cc = some k ∧ M.un cc c = some k
  gen_cycle : ∀ n, 1 ≤ n → M.fits n → ∃ k, M.fam.cycle n = some k ∧ M.isSymmetric k = true ∧ M.conv k = some k ∧
    (2 ≤ n → M.isOriented k = false)
  /-- `cycle n` is regular and balanced; `2n` arcs from `n = 3` on (`cycle 2` has 2) -/
  gen_cycle_degrees : ∀ n, 1 ≤ n → M.fits n → ∃ k, M.fam.cycle n = some k ∧ M.isRegular k = some true ∧
    M.isBalanced k = some true ∧ (2 ≤ n → M.size k = if n = 2 then 2 else 2 * n)
  gen_path : ∀ n, 1 ≤ n → M.fits n → ∃ p c y k, M.fam.path n = some p ∧ M.fam.circuit n = some c ∧
    M.fam.cycle n = some y ∧ M.fam.complete n = some k ∧ M.isOriented p = true ∧ M.size p = n - 1 ∧
    M.isSpanningSubdigraph p c = true ∧ M.isSpanningSubdigraph c y = true ∧ M.isSpanningSubdigraph y k = true ∧
    M.isSubdigraph p k = true
  gen_star : ∀ n, 1 ≤ n → M.fits n → ∃ s, M.fam.star n = some s ∧ M.isSymmetric s = true ∧ M.conv s = some s
  gen_star_wheel : ∀ n, 4 ≤ n → M.fits n → ∃ s w, M.fam.star n = some s ∧ M.fam.wheel n = some w ∧
    M.isSymmetric s = true ∧ M.conv s = some s ∧ M.isSymmetric w = true ∧ M.conv w = some w ∧
    M.isSpanningSubdigraph s w = true
  /-- incl. the repo's test `union_biclique_complement_is_complete`, at every `m, n ≥ 1` -/
  gen_biclique : ∀ m n, 1 ≤ m → 1 ≤ n → M.fits (m + n) → ∃ b c k, M.fam.biclique m n = some b ∧
    M.compl b = some c ∧ M.fam.complete (m + n) = some k ∧ M.isSymmetric b = true ∧ M.conv b = some b ∧
    M.size b = 2 * m * n ∧ M.un b c = some k

/-- The laws hold for every bundle. -/
theorem laws {R : Type} (M : Rep R) : LawsOf M where
  complement_involutive := fun _ h => Rep.complement_involutive h
  converse_involutive := fun _ h => Rep.converse_involutive h
  union_comm := fun _ _ ha hb => Rep.union_comm ha hb
  union_idem := fun _ h => Rep.union_idem h
  union_assoc := fun _ _ _ ha hb hc => Rep.union_assoc ha hb hc
  union_empty := fun _ hg _ hm hf hV => Rep.union_empty hg hm hf hV
  union_arcless := fun _ _ hg he hA hV => Rep.union_arcless hg he hA hV
  converse_union := fun _ _ hg hh => Rep.converse_union hg hh
  converse_complement := fun _ hg => Rep.converse_complement hg
  union_complement_complete := fun _ hg _ hV => Rep.union_complement_complete hg hV
  complement_complete_empty := fun _ hn hf => Rep.complement_complete_empty hn hf
  symmetric_iff_converse := fun _ hg => Rep.symmetric_iff_converse hg
  complete_iff_complement_arcless := fun _ hg => Rep.complete_iff_complement_arcless hg
  complete_iff_complement_empty := fun _ hg _ hV => Rep.complete_iff_complement_empty hg hV
  complete_iff_eq_complete := fun _ hg _ hV => Rep.complete_iff_eq_complete hg hV
  tournament_iff_semicomplete_oriented := fun _ hg => Rep.tournament_iff_semicomplete_oriented hg
  tournament_iff_complement_eq_converse := fun _ hg => Rep.tournament_iff_complement_eq_converse hg
  converse_preserves := fun _ hg => Rep.converse_preserves hg
  converse_preserves_degrees := fun _ hg => Rep.converse_preserves_degrees hg
  regular_balanced := fun _ hg h => Rep.regular_balanced' hg h
  complement_duals := fun _ hg => Rep.complement_duals hg
  sub_union := fun _ _ hg hh => Rep.sub_union hg hh
  sub_refl := fun _ hg => Rep.sub_refl' hg
  sub_trans := fun _ _ _ ha hb hc h1 h2 => Rep.sub_trans' ha hb hc h1 h2
  sub_antisymm := fun _ _ hg hh => Rep.sub_antisymm hg hh
  sub_iff_union := fun _ _ hg hh => Rep.sub_iff_union hg hh
  spanning_bounds := fun _ hg _ hV => Rep.spanning_bounds hg hV
  spanning_complement := fun _ hg => Rep.spanning_complement hg
  gen_complete := fun _ hn hf => Rep.gen_complete hn hf
  gen_empty := fun _ hn hf => Rep.gen_empty hn hf
  gen_circuit := fun _ hn hf => Rep.gen_circuit hn hf
  gen_cycle := fun _ hn hf => Rep.gen_cycle hn hf
  gen_cycle_degrees := fun _ hn hf => Rep.gen_cycle_degrees hn hf
  gen_path := fun _ hn hf => Rep.gen_path hn hf
  gen_star := fun _ hn hf => Rep.gen_star hn hf
  gen_star_wheel := fun _ hn hf => Rep.gen_star_wheel hn hf
  gen_biclique := fun _ _ hm hn hf => Rep.gen_biclique hm hn hf

/-- **Full statement**: all laws, in all four unweighted representations, for every thread count. -/
def Statement : Prop :=
  (∀ ap (hap : 0 < ap), LawsOf (alRep ap hap)) ∧ (∀ ap (hap : 0 < ap), LawsOf (amRep ap hap)) ∧
  LawsOf mxRep ∧ LawsOf elRep

theorem statement : Statement := ⟨fun _ _ => laws _, fun _ _ => laws _, laws _, laws _⟩

/-! ## The headline laws in plain model terms

(`AdjacencyList`, `AdjacencyMatrix`, `EdgeList`: vertex set `0..order`, so the "vertex set `0..n`"
hypothesis is discharged with `n = order`; `AdjacencyMap`: arbitrary key sets where the law allows.) -/

/-- `g.union(&g.complement()) == AdjacencyList::complete(g.order())`, every thread count. -/
theorem al_union_complement_complete (g : AdjList) (h : g.WF) (ap : Nat) (hap : 0 < ap) :
    ∃ c k, complementAL g ap = some c ∧ Gen.AL.complete g.order ap = some k ∧
      unionAL g c ap = some k ∧ unionAL c g ap = some k :=
  (laws (alRep ap hap)).union_complement_complete g h g.order (al_contig ap hap g)

theorem mx_union_complement_complete (g : AdjMatrix) (h : g.WF) (hov : g.order * g.order < 2 ^ 64) :
    ∃ c k, complementMX g = some c ∧ Gen.MX.complete g.order = some k ∧ unionMX g c = some k ∧ unionMX c g = some k :=
  (laws mxRep).union_complement_complete g ⟨h, hov⟩ g.order (mx_contig g)

theorem el_union_complement_complete (g : EdgeList) (h : g.WF) :
    ∃ k, Gen.EL.complete g.order = some k ∧ unionEL g (complementEL g) = some k ∧ unionEL (complementEL g) g = some k := by
  obtain ⟨c, k, e1, e2, e3, e4⟩ := (laws elRep).union_complement_complete g h g.order (el_contig g)
  cases e1; exact ⟨k, e2, e3, e4⟩

/-- `AdjacencyMap` with key set `0..n`. -/
theorem am_union_complement_complete (g : AdjMap) (h : g.WF) (n : Nat) (hV : g.vertices = List.range n) (hn : 0 < n)
    (ap : Nat) (hap : 0 < ap) :
    ∃ k, Gen.AM.complete n = some k ∧ unionAM g (complementAM g) ap = some k ∧ unionAM (complementAM g) g ap = some k := by
  have ho : 0 < g.order := by
    have : g.vertices.length = g.order := by simp [AdjMap.vertices, AdjMap.order]
    rw [hV, List.length_range] at this; omega
  obtain ⟨c, k, e1, e2, e3, e4⟩ := (laws (amRep ap hap)).union_complement_complete g ⟨h, ho⟩ n
    (fun v => by show v ∈ g.vertices ↔ _; rw [hV]; simp)
  cases e1; exact ⟨k, e2, e3, e4⟩

/-- `union` with `empty(m)`, `m ≤ order`: the identity, on both sides. -/
theorem al_union_empty (g : AdjList) (h : g.WF) (m : Nat) (hm : 1 ≤ m) (hle : m ≤ g.order) (ap : Nat) (hap : 0 < ap) :
    ∃ e, AdjList.empty m = some e ∧ unionAL g e ap = some g ∧ unionAL e g ap = some g :=
  (laws (alRep ap hap)).union_empty g h m hm trivial (fun v hv => (al_contig ap hap g v).mpr (by omega))

/-- `converse` distributes over `union` (operands of ANY two orders). -/
theorem al_converse_union (g h : AdjList) (hg : g.WF) (hh : h.WF) (ap : Nat) (hap : 0 < ap) :
    ∃ gh cg ch r, unionAL g h ap = some gh ∧ converseAL g = some cg ∧ converseAL h = some ch ∧
      converseAL gh = some r ∧ unionAL cg ch ap = some r :=
  (laws (alRep ap hap)).converse_union g h hg hh

/-- `is_symmetric() ⇔ converse() == self`. -/
theorem al_symmetric_iff_converse (g : AdjList) (h : g.WF) :
    Blanket.isSymmetric (Query.AL.core g) = true ↔ converseAL g = some g :=
  (laws (alRep 1 (by decide))).symmetric_iff_converse g h

/-- `is_complete() ⇔ complement() == empty(order)`. -/
theorem al_complete_iff_complement_empty (g : AdjList) (h : g.WF) (ap : Nat) (hap : 0 < ap) :
    Pred.AL.isComplete g = true ↔ ∃ e, AdjList.empty g.order = some e ∧ complementAL g ap = some e := by
  have := (laws (alRep ap hap)).complete_iff_complement_empty g h g.order (al_contig ap hap g)
  exact ⟨fun x => this.mp (by show some (Pred.AL.isComplete g) = some true; rw [x]),
    fun x => by have := this.mpr x; exact Option.some.inj this⟩

/-- `is_tournament() ⇔ is_semicomplete() ∧ is_oriented()`, every thread count. -/
theorem al_tournament_iff (g : AdjList) (h : g.WF) (ap : Nat) (hap : 0 < ap) :
    Pred.AL.isTournament g = true ↔
      Pred.AL.isSemicomplete g ap = true ∧ Blanket.isOriented (Query.AL.core g) = true := by
  have := (laws (alRep ap hap)).tournament_iff_semicomplete_oriented g h
  constructor
  · intro x
    have := this.mp (by show some (Pred.AL.isTournament g) = some true; rw [x])
    exact ⟨Option.some.inj this.1, this.2⟩
  · intro x
    exact Option.some.inj (this.mpr ⟨by show some (Pred.AL.isSemicomplete g ap) = some true; rw [x.1], x.2⟩)

/-- `AdjacencyMap`, ARBITRARY key set: `is_tournament() ⇔ complement() == converse()`. -/
theorem am_tournament_iff_complement_eq_converse (g : AdjMap) (h : g.WF) (hn : 0 < g.order) :
    Pred.AM.isTournament g = true ↔ complementAM g = converseAM g := by
  have := (laws (amRep 1 (by decide))).tournament_iff_complement_eq_converse g ⟨h, hn⟩
  constructor
  · intro x
    exact Option.some.inj (this.mp (by show some (Pred.AM.isTournament g) = some true; rw [x]))
  · intro x
    exact Option.some.inj (this.mpr (by show some (complementAM g) = some (converseAM g); rw [x]))

/-- `AdjacencyMap`, arbitrary key sets: `g.is_subdigraph(&h) ⇔ g.union(&h) == h`. -/
theorem am_sub_iff_union (g h : AdjMap) (hg : g.WF) (hh : h.WF) (hgn : 0 < g.order) (hhn : 0 < h.order)
    (ap : Nat) (hap : 0 < ap) :
    Blanket.isSubdigraph (Query.AM.core g) (Query.AM.core h) = true ↔ unionAM g h ap = some h :=
  (laws (amRep ap hap)).sub_iff_union g h ⟨hg, hgn⟩ ⟨hh, hhn⟩

/-- `circuit(n).union(&circuit(n).converse()) == cycle(n)` on the matrix, every `n` that fits. -/
theorem mx_circuit_union_converse_cycle (n : Nat) (hn : 1 ≤ n) (hf : n * n < 2 ^ 64) :
    ∃ c cc k, Gen.MX.circuit n = some c ∧ converseMX c = some cc ∧ Gen.MX.cycle n = some k ∧ unionMX c cc = some k := by
  obtain ⟨c, cc, k, e1, e2, e3, _, _, _, _, e4, _⟩ := (laws mxRep).gen_circuit n hn hf
  exact ⟨c, cc, k, e1, e2, e3, e4⟩

/-- `EdgeList::complete(n)`: `is_complete`, `is_regular`, `size == n(n-1)`, fixed by `converse`. -/
theorem el_complete_facts (n : Nat) (hn : 1 ≤ n) :
    ∃ k, Gen.EL.complete n = some k ∧ Pred.EL.isComplete k = some true ∧
      Blanket.isRegular (Query.EL.core k) = some true ∧ k.size = n * (n - 1) ∧ converseEL k = k := by
  obtain ⟨k, e, h1, _, _, h4, h5, h6⟩ := (laws elRep).gen_complete n hn trivial
  exact ⟨k, e, h1, h5, h6, Option.some.inj h4⟩

/-- `AdjacencyList::biclique(m, n)`: `2mn` arcs, symmetric, and (the repo's own test, generalised)
`biclique.union(&biclique.complement()) == complete(m + n)`. -/
theorem al_biclique_facts (m n : Nat) (hm : 1 ≤ m) (hn : 1 ≤ n) (ap : Nat) (hap : 0 < ap) :
    ∃ b c k, Gen.AL.biclique m n = some b ∧ complementAL b ap = some c ∧ Gen.AL.complete (m + n) ap = some k ∧
      Blanket.isSymmetric (Query.AL.core b) = true ∧ b.size = 2 * m * n ∧ unionAL b c ap = some k := by
  obtain ⟨b, c, k, e1, e2, e3, h1, _, h3, h4⟩ := (laws (alRep ap hap)).gen_biclique m n hm hn trivial
  exact ⟨b, c, k, e1, e2, e3, h1, h3, h4⟩

/-! ## Non-vacuity — the laws on concrete non-trivial digraphs (evaluated on the models), and the
witnesses that make the hypotheses necessary -/

-- a 4-vertex list digraph `0→1, 1→2, 2→0, 2→1, 3→0`
example : AdjList.WF ⟨[[1], [2], [0, 1], [0]]⟩ := by
  refine ⟨by decide, ?_⟩
  intro u row h
  match u, h with
  | 0, h => cases h; simp [SortedS, AdjList.order]
  | 1, h => cases h; simp [SortedS, AdjList.order]
  | 2, h => cases h; simp [SortedS, AdjList.order]
  | 3, h => cases h; simp [SortedS, AdjList.order]
  | n+4, h => simp at h
-- involutions
example : (complementAL ⟨[[1], [2], [0, 1], [0]]⟩ 3).bind (complementAL · 2) = some ⟨[[1], [2], [0, 1], [0]]⟩ := by decide
example : (converseAL ⟨[[1], [2], [0, 1], [0]]⟩).bind converseAL = some ⟨[[1], [2], [0, 1], [0]]⟩ := by decide
-- union with complement = complete; with empty(m), m ≤ order, = identity; m > order is NOT
example : (complementAL ⟨[[1], [2], [0, 1], [0]]⟩ 3).bind (unionAL ⟨[[1], [2], [0, 1], [0]]⟩ · 3) = Gen.AL.complete 4 3 := by
  decide
example : unionAL ⟨[[1], [2], [0, 1], [0]]⟩ ⟨[[], []]⟩ 2 = some ⟨[[1], [2], [0, 1], [0]]⟩ := by decide
example : unionAL ⟨[[1], []]⟩ ⟨[[], [], []]⟩ 2 = some ⟨[[1], [], []]⟩ := by decide
-- converse distributes over union, operands of different order
example : (unionAL ⟨[[1], [2], [0, 1], [0]]⟩ ⟨[[1], []]⟩ 2).bind converseAL =
    (do let a ← converseAL ⟨[[1], [2], [0, 1], [0]]⟩; let b ← converseAL ⟨[[1], []]⟩; unionAL a b 2) := by decide
-- predicates: the 3-circuit is a tournament: semicomplete ∧ oriented, complement = converse
example : Pred.AL.isTournament ⟨[[1], [2], [0]]⟩ = true ∧ Pred.AL.isSemicomplete ⟨[[1], [2], [0]]⟩ 2 = true ∧
    Blanket.isOriented (Query.AL.core ⟨[[1], [2], [0]]⟩) = true ∧
    complementAL ⟨[[1], [2], [0]]⟩ 2 = converseAL ⟨[[1], [2], [0]]⟩ := by decide
example : Pred.AL.isTournament ⟨[[1], [2], [0, 1], [0]]⟩ = false ∧
    complementAL ⟨[[1], [2], [0, 1], [0]]⟩ 2 ≠ converseAL ⟨[[1], [2], [0, 1], [0]]⟩ := by decide
example : Blanket.isSymmetric (Query.AL.core ⟨[[1], [0, 2], [1]]⟩) = true ∧
    converseAL ⟨[[1], [0, 2], [1]]⟩ = some ⟨[[1], [0, 2], [1]]⟩ := by decide
example : Blanket.isSymmetric (Query.AL.core ⟨[[1], [2], [0]]⟩) = false ∧
    converseAL ⟨[[1], [2], [0]]⟩ ≠ some ⟨[[1], [2], [0]]⟩ := by decide
-- semicomplete ⇔ complement oriented
example : Pred.AL.isSemicomplete ⟨[[1, 2], [2], [0]]⟩ 2 = true ∧
    (complementAL ⟨[[1, 2], [2], [0]]⟩ 2).map (fun c => Blanket.isOriented (Query.AL.core c)) = some true := by decide
-- sub / union absorption
example : Blanket.isSubdigraph (Query.AL.core ⟨[[1], []]⟩) (Query.AL.core ⟨[[1], [2], [0, 1], [0]]⟩) = true ∧
    unionAL ⟨[[1], []]⟩ ⟨[[1], [2], [0, 1], [0]]⟩ 2 = some ⟨[[1], [2], [0, 1], [0]]⟩ := by decide
-- generators
example : (do let c ← Gen.AL.circuit 5; let cc ← converseAL c; unionAL c cc 3) = Gen.AL.cycle 5 := by decide
example : (Gen.AL.circuit 5).map (fun c => (Blanket.isRegular (Query.AL.core c), Blanket.isOriented (Query.AL.core c), c.size))
    = some (some true, true, 5) := by decide
/-- `n = 2` is the one order at which `circuit` is not oriented (`0→1→0`); `n ≥ 3` is needed -/
example : (Gen.AL.circuit 2).map (fun c => Blanket.isOriented (Query.AL.core c)) = some false := by decide
example : (Gen.AL.complete 5 3).map (fun c => (Pred.AL.isComplete c, Blanket.isRegular (Query.AL.core c), c.size))
    = some (true, some true, 20) := by decide
example : (Gen.AL.biclique 2 3).map (fun c => (Blanket.isSymmetric (Query.AL.core c), c.size)) = some (true, 12) := by decide
example : (Gen.AL.complete 4 2).bind (complementAL · 2) = Gen.AL.empty 4 := by decide
example : (do let p ← Gen.AL.path 4; let c ← Gen.AL.circuit 4;
              pure (Blanket.isSpanningSubdigraph (Query.AL.core p) (Query.AL.core c), Blanket.isOriented (Query.AL.core p), p.size))
    = some (true, true, 3) := by decide
example : (List.range 7).map (fun n => (Gen.AL.cycle n).map (fun c => (Blanket.isRegular (Query.AL.core c), c.size))) =
    [none, some (some true, 0), some (some true, 2), some (some true, 6), some (some true, 8), some (some true, 10),
     some (some true, 12)] := by decide
-- converse swaps the degrees: a balanced, non-regular digraph and its converse
example : (Blanket.isBalanced (Query.AL.core ⟨[[1, 2], [0], [0]]⟩), Blanket.isRegular (Query.AL.core ⟨[[1, 2], [0], [0]]⟩)) =
      (some true, some false) ∧
    (converseAL ⟨[[1, 2], [0], [0]]⟩).map (fun c => (Blanket.isBalanced (Query.AL.core c), Blanket.isRegular (Query.AL.core c))) =
      some (some true, some false) := by decide
example : Blanket.isBalanced (Query.AL.core ⟨[[1], [2], [0, 1], [0]]⟩) = some false ∧
    (converseAL ⟨[[1], [2], [0, 1], [0]]⟩).map (fun c => Blanket.isBalanced (Query.AL.core c)) = some (some false) := by decide
-- matrix and edge list
example : (do let b ← Gen.MX.biclique 2 2; let c ← complementMX b; unionMX b c) = Gen.MX.complete 4 := by decide
example : (do let b ← Gen.EL.biclique 2 3; unionEL b (complementEL b)) = Gen.EL.complete 5 := by decide
example : (do let c ← Gen.MX.circuit 4; let cc ← converseMX c; unionMX c cc) = Gen.MX.cycle 4 := by decide
example : (Gen.EL.complete 4).map (fun k => (Pred.EL.isComplete k, k.size, decide (converseEL k = k))) =
    some (some true, 12, true) := by decide
-- AdjacencyMap with sparse ids `{2, 7, 1000}`: a tournament, complement = converse
example : Pred.AM.isTournament ⟨[(2, [7]), (7, [1000]), (1000, [2])]⟩ = true ∧
    complementAM ⟨[(2, [7]), (7, [1000]), (1000, [2])]⟩ = converseAM ⟨[(2, [7]), (7, [1000]), (1000, [2])]⟩ := by decide
/-- why `union g (complement g) = complete n` and `is_complete ⇔ complement = empty n` need the key
set `0..n` on the map: on keys `{5, 7}` the union is the complete digraph ON `{5, 7}`, which no
`complete(n)` / `empty(n)` is (`unionSeqAM` = `union` at every thread count, `C11.unionAM_threads`) -/
example : unionSeqAM ⟨[(5, [7]), (7, [])]⟩ (complementAM ⟨[(5, [7]), (7, [])]⟩) = ⟨[(5, [7]), (7, [5])]⟩ ∧
    Gen.AM.complete 2 = some ⟨[(0, [1]), (1, [0])]⟩ := by decide
/-- why `union g (empty m) = g` needs `0..m ⊆ V(g)` on the map -/
example : unionSeqAM ⟨[(5, [7]), (7, [])]⟩ ⟨[(0, [])]⟩ = ⟨[(0, []), (5, [7]), (7, [])]⟩ := by decide
example : (Gen.AM.biclique 2 2).map (fun b => unionSeqAM b (complementAM b)) = Gen.AM.complete 4 := by decide

end GraafVerif.Laws
