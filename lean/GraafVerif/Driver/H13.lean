import GraafVerif.Driver.Common
import GraafVerif.Model.ChkTraversal
import GraafVerif.Model.ChkMatrix
import GraafVerif.Model.ChkOutcome
import GraafVerif.Model.ChkRepr
/-!
Driver handlers for property C13 (ops of `harness/src/ops/c13.rs`).

Every case line is `chk_… args => <oc> <observed>`; the model (`model`) gives the expected
outcome class {ret, panic} of the program and, for the functions that have a `Chk` model
(traversals and their derived entry points, `AdjacencyMatrix` index arithmetic), the complete
expected output.  A crash of the real code never reaches this file: the orchestrator reports
it as `fault` (PROPFAIL) with the program as replay.

PROPFAIL here: a non-zero live-byte delta of `chk_leak` (the heap grew), and a traversal that
returned although a vertex id was not in the digraph (the documented panic is missing).
-/
namespace GraafVerif.Driver.H13
open GraafVerif GraafVerif.Driver GraafVerif.Chk

/-- expected behaviour of one program -/
structure M where
  cls : Cls
  /-- on the observed values after `<oc>` when the class agrees -/
  check : List V → Bool := fun _ => true
  shown : String := ""
  /-- the panic is the documented answer to a vertex id that is not in the digraph -/
  strict : Bool := false
  tags : List String := []
  nt : Bool := true

def toDG (g : GDesc) : DG :=
  let verts := if g.repr == "am" then DG.sortDedup (g.verts ++ g.arcs.map (·.1) ++ g.arcs.map (·.2))
               else List.range g.order
  ⟨g.repr, verts, g.arcs, g.warcs⟩

def toCGraph (d : DG) : CGraph := ⟨d.order, fun u => if d.isV u then some (d.succs u) else none⟩
def toWCGraph (d : DG) : WCGraph := ⟨d.order, fun u => if d.isV u then some (d.wsuccs u) else none⟩

def argTag (d : DG) (x : Nat) : String :=
  if d.isV x then (if x ≥ d.order then "arg-key>=order" else "arg-vertex")
  else if x == d.order then "arg-order" else if x == d.order + 1 then "arg-order+1"
  else if x ≥ 2 ^ 40 then "arg-far" else "arg-nonvertex"

def dgTags (d : DG) : List String :=
  [ "repr-" ++ d.repr,
    if d.repr == "am" && d.verts != List.range d.order then "noncontiguous" else "contiguous",
    sizeTag d.order ]

def clsName : Cls → String
  | .ret => "ret"
  | .panic => "panic"

def ofCls (c : Cls) (tags : List String) (nt : Bool := true) (check : List V → Bool := fun _ => true) : M :=
  { cls := c, check := check, shown := clsName c, tags := tags, nt := nt }

/-- first digest number = the order of the resulting digraph -/
def orderIs (n : Nat) : List V → Bool
  | .a "ret" :: .i k :: _ => k == (n : Int)
  | [.a "panic"] => true
  | _ => false

def natArgs (vs : List V) : Option (List Nat) := vs.mapM V.nat?

/-! ### traversals -/

def statusV : Option Fault → V
  | none => .a "ok"
  | some .panic => .a "panic"
  | some (.ub s) => .a ("ub:" ++ s)

def drainRound {σ ι : Type} (next : σ → Chk (Option ι × σ)) : Nat → σ → List ι → (List ι × σ × Option Fault)
  | 0, st, acc => (acc.reverse, st, none)
  | f + 1, st, acc =>
    match next st with
    | .error e => (acc.reverse, st, some e)
    | .ok (none, st') => (acc.reverse, st', none)
    | .ok (some it, st') => drainRound next f st' (it :: acc)

def drainRounds {σ ι : Type} (next : σ → Chk (Option ι × σ)) (fuel : Nat) :
    Nat → σ → List (List ι) → (List (List ι) × Option Fault)
  | 0, _, acc => (acc.reverse, none)
  | r + 1, st, acc =>
    let (items, st', e) := drainRound next fuel st []
    match e with
    | some e => ((items :: acc).reverse, some e)
    | none => drainRounds next fuel r st' (items :: acc)

def FUEL : Nat := 1000000

def itModel {σ ι : Type} (new : Chk σ) (next : σ → Chk (Option ι × σ)) (rounds : Nat) (shw : ι → V) : List V :=
  match new with
  | .error e => [.l [.l []], statusV (some e)]
  | .ok st =>
    let (rs, e) := drainRounds next FUEL rounds st []
    [.l (rs.map (fun r => .l (r.map shw))), statusV e]

def showPair (p : Nat × Nat) : V := .l [V.ofNat p.1, V.ofNat p.2]
def showStep (p : Option Nat × Nat) : V := .l [V.ofOptNat p.1, V.ofNat p.2]

def itOut (kind : String) (d : DG) (src : List Nat) (rounds : Nat) : Option (List V) :=
  let g := toCGraph d
  let wg := toWCGraph d
  let n := d.order
  match kind with
  | "bfs" => some (itModel (bfsNew n src) (bfsNext g) rounds V.ofNat)
  | "bfs_dist" => some (itModel (bfsDistNew n src) (bfsDistNext g) rounds showPair)
  | "bfs_pred" => some (itModel (bfsPredNew n src) (bfsPredNext g) rounds showStep)
  | "dfs" => some (itModel (pure (dfsNew n src)) (dfsNext g) rounds V.ofNat)
  | "dfs_dist" => some (itModel (pure (dfsDistNew n src)) (dfsDistNext g) rounds showPair)
  | "dfs_pred" => some (itModel (pure (dfsPredNew n src)) (dfsPredNext g) rounds showStep)
  | "dijkstra" =>
    if d.repr == "wu" then some (itModel (dijkstraNew n src) (dijkstraNext wg) rounds (fun it => V.ofNat it.2)) else none
  | "dijkstra_dist" =>
    if d.repr == "wu" then
      some (itModel (dijkstraDistNew n src) (dijkstraDistNext wg) rounds (fun it => showPair (it.2, it.1))) else none
  | "dijkstra_pred" =>
    if d.repr == "wu" then some (itModel (dijkstraPredNew n src) (dijkstraPredStep wg) rounds showStep) else none
  | _ => none

def showDist (l : List Nat) : V := .l (l.map (fun x => if x == INF then .a "inf" else V.ofNat x))
def showTree (l : List (Option Nat)) : V := .l (l.map V.ofOptNat)
def showPath : Option (List Nat) → V
  | none => .a "none"
  | some p => V.ofNats p

/-- a derived entry point: `ret value` / `panic` -/
def chkOut {α : Type} (x : Chk α) (shw : α → V) : List V :=
  match x with
  | .ok v => [.a "ret", shw v]
  | .error .panic => [.a "panic"]
  | .error (.ub s) => [.a ("ub:" ++ s)]

def algOut (name : String) (d : DG) (src tg : List Nat) : Option (List V) :=
  let g := toCGraph d
  let wg := toWCGraph d
  let n := d.order
  let isT (v : Nat) : Bool := tg.contains v
  match name with
  | "bfs_dist_distances" => some (chkOut (bfsDistNew n src >>= bfsDistDistances g FUEL) showDist)
  | "bfs_pred_predecessors" => some (chkOut (bfsPredNew n src >>= bfsPredPredecessors g FUEL) showTree)
  | "bfs_pred_shortest_path" => some (chkOut (bfsPredNew n src >>= bfsPredShortestPath g isT FUEL) showPath)
  | "bfs_pred_cycles" => some (chkOut (bfsPredNew n src >>= bfsPredCycles g FUEL) (fun cs => .l (cs.map V.ofNats)))
  | "dfs_pred_predecessors" => some (chkOut (dfsPredPredecessors g FUEL (dfsPredNew n src)) showTree)
  | "dijkstra_dist_distances" =>
    if d.repr == "wu" then some (chkOut (dijkstraDistNew n src >>= dijkstraDistDistances wg FUEL) showDist) else none
  | "dijkstra_pred_predecessors" =>
    if d.repr == "wu" then some (chkOut (dijkstraPredNew n src >>= dijkstraPredPredecessors wg FUEL) showTree) else none
  | "dijkstra_pred_shortest_path" =>
    if d.repr == "wu" then some (chkOut (dijkstraPredNew n src >>= dijkstraPredShortestPath wg isT FUEL) showPath) else none
  | _ => none

def exactM (out : List V) (tags : List String) (nt : Bool) : M :=
  let cls : Cls := match out with
    | [.a "panic"] => .panic
    | [_, .a "panic"] => .panic
    | _ => .ret
  { cls := cls, check := fun obs => obs == out, shown := " ".intercalate (out.map toString),
    strict := cls == .panic, tags := tags, nt := nt }

/-! ### matrix index arithmetic -/

def mxRun (order : Nat) (steps : List (String × Nat × Nat)) : List V :=
  match mxEmpty order with
  | .error .panic => [.a "panic"]
  | .error (.ub s) => [.a ("ub:" ++ s)]
  | .ok m0 =>
    let (m, rs) := steps.foldl (fun (acc : Mx × List V) s =>
      let (m, rs) := acc
      let (op, x, y) := s
      let upd (r : Chk Mx) : Mx × List V :=
        match r with
        | .ok m' => (m', .a "r" :: rs)
        | .error .panic => (m, .a "p" :: rs)
        | .error (.ub s) => (m, .a ("ub:" ++ s) :: rs)
      if op == "add" then upd (mxAddArc m x y)
      else if op == "tog" then upd (mxToggle m x y)
      else if op == "rem" then
        match mxRemoveArc m x y with
        | .ok (b, m') => (m', V.ofBool b :: rs)
        | .error _ => (m, .a "p" :: rs)
      else
        match mxHasArc m x y with
        | .ok b => (m, V.ofBool b :: rs)
        | .error _ => (m, .a "p" :: rs)) (m0, [])
    let arcs := match mxArcs m with
      | .ok as => V.ofPairs as
      | .error _ => .a "arcs-failed"
    [.a "ret", .l rs.reverse, arcs, V.ofNat (mxSize m)]

/-! ### the model of every op -/

def binaryNames : List String := ["union", "is_subdigraph", "is_superdigraph", "is_spanning_subdigraph", "clone_from"]

/-- `p ∈ [0, 1]` from the IEEE-754 bits. -/
def pOk (bits : Nat) : Bool := bits ≤ 0x3FF0000000000000 || bits == 0x8000000000000000

def stepOf (v : V) : Option (String × Nat × Option Nat) :=
  match v with
  | .l [.a op, x] => do pure (op, ← V.nat? x, none)
  | .l [.a op, x, y] => do pure (op, ← V.nat? x, some (← V.nat? y))
  | _ => none

def model (oc : Bool) (t : Nat) : String → List V → Option M
  | "chk_gen", .a repr :: .a name :: rest => do
    let a ← natArgs rest
    let pok := match name, a with | "er", [_, b, _] => pOk b | _, _ => true
    let known := ["al", "am", "mx", "el"].contains repr ||
                 ((repr == "wu" || repr == "wi") && (name == "empty" || name == "trivial"))
    if !known then none
    let (c, n) ← genOutcome repr name a pok
    pure (ofCls c ["gen-" ++ name, "repr-" ++ repr] (nt := a.all (· != 1)) (check := orderIs n))
  | "chk_rows", [.a repr, rows] =>
    if repr == "al" || repr == "am" then do
      let rs ← V.listOf? (V.listOf? V.nat?) rows
      pure (ofCls (Cls.ofBool (rowsPanics rs)) ["rows", "repr-" ++ repr] (check := orderIs rs.length))
    else if repr == "wu" || repr == "wi" then do
      let rs ← V.listOf? (V.listOf? (V.pair? V.nat? V.int?)) rows
      pure (ofCls (Cls.ofBool (rowsPanics (rs.map (·.map (·.1))))) ["rows", "repr-" ++ repr] (check := orderIs rs.length))
    else if repr == "mx" then do
      let ps ← V.listOf? (V.pair? V.nat? V.nat?) rows
      pure (ofCls (Cls.ofBool (mxPairsPanics ps)) ["rows", "repr-mx"])
    else if repr == "el" then do
      let ps ← V.listOf? (V.pair? V.nat? V.nat?) rows
      pure (ofCls (Cls.ofBool (elPairsPanics oc ps)) ["rows", "repr-el"])
    else none
  | "chk_rows_all", [.a repr, rows] => do
    -- `From<rows | maps | pairs>`; when it returns: `ret <order> <number of consumers that panicked>`
    let zeroPanics (n : Nat) : List V → Bool
      | [.a "ret", .i k, .i p] => k == (n : Int) && p == 0
      | [.a "panic"] => true
      | _ => false
    let (c, n) ← (
      if repr == "al" || repr == "am" then do
        let rs ← V.listOf? (V.listOf? V.nat?) rows
        pure (Cls.ofBool (rowsPanics rs), rs.length)
      else if repr == "wu" || repr == "wi" then do
        let rs ← V.listOf? (V.listOf? (V.pair? V.nat? V.int?)) rows
        pure (Cls.ofBool (rowsPanics (rs.map (·.map (·.1)))), rs.length)
      else if repr == "mx" then do
        let ps ← V.listOf? (V.pair? V.nat? V.nat?) rows
        pure (Cls.ofBool (mxPairsPanics ps), ps.foldl (fun m p => max m (max p.1 p.2)) 0 + 1)
      else if repr == "el" then do
        let ps ← V.listOf? (V.pair? V.nat? V.nat?) rows
        pure (Cls.ofBool (elPairsPanics oc ps), ps.foldl (fun m p => max m (max p.1 p.2)) 0 + 1)
      else none : Option (Cls × Nat))
    pure { ofCls c ["rows-all", "repr-" ++ repr, if c == .panic then "rows-invalid" else "rows-valid"] (check := zeroPanics n)
           with strict := true, shown := clsName c ++ s!" {n} 0" }
  | "chk_repoll", .a name :: rest => do
    let lateZero : List V → Bool
      | [.a "ret", _, .i late] => late == 0
      | [.a "panic"] => true
      | _ => false
    if name == "dm_eccentricities" || name == "dm_periphery" then
      match rest with
      | [.l _, _, order] => do
        let order ← V.nat? order
        pure { ofCls (Cls.ofBool (order == 0)) ["repoll", "it-" ++ name] (check := lateZero) with shown := "no item after the first None" }
      | _ => none
    else
      match rest with
      | desc :: more => do
        let d := toDG (← GDesc.parse desc)
        let a ← natArgs more
        let needsV := name == "out_neighbors" || name == "out_neighbors_weighted"
        let weightedOnly := name == "arcs_weighted" || name == "out_neighbors_weighted"
        if weightedOnly && d.unweighted then none
        let p ← match a with
          | [] => if needsV || name == "in_neighbors" then none else some false
          | [x] => if needsV then some (!d.isV x) else if name == "in_neighbors" then some false else none
          | _ => none
        let count : Option Nat :=
          if name == "vertices" || name.endsWith "_sequence" then some d.order
          else if name == "arcs" || name == "arcs_weighted" then some (d.verts.map (fun u => (d.succs u).length)).sum
          else match name, a with
            | "out_neighbors", [x] => some (d.succs x).length
            | "out_neighbors_weighted", [x] => some (d.succs x).length
            | _, _ => none
        let chk : List V → Bool := fun obs => lateZero obs && (match obs, count with
          | [.a "ret", .i k, _], some n => k == (n : Int)
          | _, _ => true)
        pure { ofCls (Cls.ofBool p) (["repoll", "it-" ++ name] ++ dgTags d ++ a.map (argTag d)) (check := chk) with
               shown := s!"{clsName (Cls.ofBool p)} {count} 0 (no item after the first None)" }
      | _ => none
  | "chk_interleave", .a name :: d1 :: d2 :: more => do
    let a := toDG (← GDesc.parse d1)
    let b := toDG (← GDesc.parse d2)
    let x ← natArgs more
    let p ← match name, x with
      | "out_neighbors", [v] => some (!a.isV v || !b.isV v)
      | "in_neighbors", [_] => some false
      | _, [] => if name == "out_neighbors" || name == "in_neighbors" then none else some false
      | _, _ => none
    let lateZero : List V → Bool
      | [.a "ret", _, _, .i late] => late == 0
      | [.a "panic"] => true
      | _ => false
    pure { ofCls (Cls.ofBool p) (["interleave", "it-" ++ name] ++ dgTags a) (check := lateZero) with
           shown := "no item after an iterator's first None" }
  | "chk_twice", .a name :: desc :: rest => do
    let d := toDG (← GDesc.parse desc)
    let tags := ["twice-" ++ name] ++ dgTags d
    let src ← match rest with
      | [] => pure []
      | [s] => V.listOf? V.nat? s
      | _ => none
    let firstCall (alg : String) : Option Cls := do
      let out ← algOut alg d src []
      pure (match out with | [.a "panic"] => Cls.panic | _ => Cls.ret)
    let c ← match name with
      | "bfs_dist_distances" => firstCall "bfs_dist_distances"
      | "bfs_pred_predecessors" => firstCall "bfs_pred_predecessors"
      | "dfs_pred_predecessors" => firstCall "dfs_pred_predecessors"
      | "dijkstra" => if d.repr == "wu" then firstCall "dijkstra_dist_distances" else none
      | "tarjan" => some .ret
      | "johnson" => if d.repr == "am" then some (Cls.ofBool (d.verts.any (· ≥ d.order))) else none
      | "fw" => if d.repr == "wi" then some .ret else none
      | "bfm" => if d.repr == "wi" then (match src with | s :: _ => some (Cls.ofBool (s ≥ d.order)) | [] => none) else none
      | _ => none
    pure (ofCls c tags)
  | "chk_from", [src, .a dst] => do
    let d := toDG (← GDesc.parse src)
    if !d.unweighted || dst == d.repr || !["al", "am", "mx", "el", "wu", "wi"].contains dst then none
    pure (ofCls (Cls.ofBool (fromPanics d dst)) (["from", "to-" ++ dst] ++ dgTags d) (check := orderIs d.order))
  | "chk_q", .a name :: desc :: rest => do
    let d := toDG (← GDesc.parse desc)
    let tags := ["q-" ++ name] ++ dgTags d
    if binaryNames.contains name then
      match rest with
      | [other] => do
        let o := toDG (← GDesc.parse other)
        if !d.unweighted then none
        if name == "union" && d.repr == "am" then
          -- the `ptr::read`s of this very instance (keys of both maps, observed thread count) are linear
          let linear := amUnionReads d.verts o.verts t == .ok (List.range d.order, List.range o.order)
          pure { ofCls .ret (tags ++ ["union-linearity-checked"]) with
                 check := fun _ => linear, shown := "ret, but the model's ptr::read indices are not each-exactly-once" }
        else pure (ofCls .ret tags)
      | _ => none
    else if name == "filter_vertices" then
      match rest with
      | [keep] => do
        let k ← V.listOf? V.nat? keep
        if d.repr == "am" then
          pure (ofCls .ret tags (check := orderIs (d.verts.filter (fun v => k.contains v)).length))
        else none
      | _ => none
    else if name == "has_walk" then
      match rest with
      | [w] => do
        let w ← V.listOf? V.nat? w
        pure (ofCls .ret (tags ++ w.map (argTag d)) (nt := w.length ≥ 2))
      | _ => none
    else do
      let a ← natArgs rest
      let p ← qPanics oc d name a
      pure (ofCls (Cls.ofBool p) (tags ++ a.map (argTag d)) (nt := d.order ≥ 2 || a.any (fun x => !d.isV x)))
  | "chk_chain", [start, .l prods, .a consumer] => do
    let tags := ["chain", "consumer-" ++ consumer, s!"producers{prods.length}"]
    match start with
    | .l (.a "gen" :: .a repr :: _) => pure (ofCls .ret (tags ++ ["start-gen", "repr-" ++ repr]))
    | _ => do
      let d := toDG (← GDesc.parse start)
      if !d.unweighted || d.order == 0 then none
      pure (ofCls .ret (tags ++ dgTags d))
  | "chk_hist", [desc, .l steps] => do
    let d := toDG (← GDesc.parse desc)
    if !d.unweighted then none
    let ss ← steps.mapM stepOf
    let (verts, rs) ← ss.foldlM (fun (acc : List Nat × List V) s => do
      let (p, vs') ← histStep d acc.1 s.1 s.2.1 s.2.2
      pure (vs', acc.2 ++ [.a (if p then "p" else "r")])) (d.verts, [])
    let want : V := .l rs
    pure { cls := .ret, shown := s!"ret {want} {verts.length}", tags := ["hist"] ++ dgTags d,
           check := fun obs => match obs with
             | .a "ret" :: got :: .i k :: _ => got == want && k == (verts.length : Int)
             | _ => false }
  | "chk_mx", [n, .l steps] => do
    let n ← V.nat? n
    let ss ← steps.mapM (fun s => do
      let (op, x, y) ← stepOf s
      pure (op, x, ← y))
    let out := mxRun n ss
    pure { exactM out ["mx", sizeTag n] (n ≥ 2) with strict := false }
  | "chk_it", [k, desc, src, rounds, shape] => do
    -- the shape of the caller's source iterator (its `size_hint`) must not matter
    let sh ← V.nat? shape
    let m ← model oc t "chk_it" [k, desc, src, rounds]
    pure { m with tags := m.tags ++ [s!"src-shape{sh}"] }
  | "chk_it", [.a kind, desc, src, rounds] => do
    let d := toDG (← GDesc.parse desc)
    let src ← V.listOf? V.nat? src
    let r ← V.nat? rounds
    let out ← itOut kind d src (max 1 (min r 4))
    pure (exactM out (["it-" ++ kind] ++ dgTags d ++ (src.map (argTag d)).eraseDups ++ [s!"rounds{r}"])
      (d.order ≥ 2 || src.any (fun x => !d.isV x)))
  | "chk_alg", .a name :: desc :: rest => do
    let d := toDG (← GDesc.parse desc)
    let tags := ["alg-" ++ name] ++ dgTags d
    match name, rest with
    | "bfm_new", [s] => do
      let s ← V.nat? s
      if d.repr == "am" then none
      pure { ofCls (Cls.ofBool (s ≥ d.order)) (tags ++ [argTag d s]) with strict := true }
    | "bfm", [s] => do
      let s ← V.nat? s
      if d.repr != "wi" then none
      pure { ofCls (Cls.ofBool (s ≥ d.order)) (tags ++ [argTag d s]) with strict := true }
    | "fw_new", [] => pure (ofCls (Cls.ofBool (d.order == 0)) tags)
    | "fw", [] => if d.repr == "wi" then pure (ofCls .ret tags) else none
    | _, src :: more => do
      let src ← V.listOf? V.nat? src
      let tg ← match more with
        | [] => pure []
        | [t] => V.listOf? V.nat? t
        | _ => none
      let out ← algOut name d src tg
      pure (exactM out (tags ++ (src.map (argTag d)).eraseDups) (d.order ≥ 2 || src.any (fun x => !d.isV x)))
    | _, _ => none
  | "chk_dm", .a name :: rest =>
    match name, rest with
    | "new", [n] => do
      let n ← V.nat? n
      pure (ofCls (Cls.ofBool (dmNewPanics n)) ["dm-new"] (check := orderIs n))
    | _, .l dist :: _ :: order :: ix => do
      let order ← V.nat? order
      let ix ← natArgs ix
      let p ← dmPanics name dist.length order ix
      pure (ofCls (Cls.ofBool p) ["dm-" ++ name])
    | _, _ => none
  | "chk_pt", .a name :: rest =>
    match name, rest with
    | "new", [n] => do
      let n ← V.nat? n
      pure (ofCls (Cls.ofBool (n == 0)) ["pt-new"] (check := orderIs n))
    | "index", [.l pred, i] => do
      let i ← V.nat? i
      pure (ofCls (Cls.ofBool (i ≥ pred.length)) ["pt-index"])
    | "index_mut", [.l pred, i] => do
      let i ← V.nat? i
      pure (ofCls (Cls.ofBool (i ≥ pred.length)) ["pt-index"])
    | _, _ => none
  | "chk_prng", [_, _] => some (ofCls .ret ["prng"])
  | _, _ => none

def observedCls : List V → Option Cls
  | .a "ret" :: _ => some .ret
  | [.a "panic"] => some .panic
  | [.l _, .a "ok"] => some .ret
  | [.l _, .a "panic"] => some .panic
  | _ => none

def judge (m : M) (obs : List V) (extraTags : List String := []) : Verdict :=
  let tags := m.tags ++ extraTags
  match observedCls obs with
  | none => { status := "MISMATCH", nontrivial := m.nt, tags := tags, detail := m.shown }
  | some c =>
    let tags := tags ++ ["class-" ++ clsName c]
    if c != m.cls then
      if m.strict && m.cls == .panic then
        { status := "PROPFAIL", nontrivial := m.nt, tags := tags,
          detail := "returned although a vertex id is not in the digraph: the documented panic is missing; model: " ++ m.shown }
      else { status := "MISMATCH", nontrivial := m.nt, tags := tags, detail := m.shown }
    else if m.check obs then { status := "OK", nontrivial := m.nt, tags := tags }
    else { status := "MISMATCH", nontrivial := m.nt, tags := tags, detail := m.shown }

def splitOc : List V → Option (Bool × List V)
  | .a "oc1" :: r => some (true, r)
  | .a "oc0" :: r => some (false, r)
  | _ => none

def handle (op : String) : Handler := fun t args obs => do
  let (oc, rest) ← splitOc obs
  let m ← model oc t op args
  pure (judge m rest [if oc then "overflow-checks" else "no-overflow-checks"])

/-- `chk_leak k [op arg*] => <oc> <class> <live-byte delta>` -/
def hLeak : Handler := fun t args obs =>
  match args, splitOc obs with
  | [_, .l (.a op :: pargs)], some (oc, [.a cls, .i delta]) => do
    let m ← model oc t op pargs
    let tags := ["leak"] ++ m.tags.take 2
    if delta != 0 then
      pure { status := "PROPFAIL", nontrivial := true, tags := tags ++ ["leaked"],
             detail := s!"the heap grew by {delta} bytes over the repetitions of the program" }
    else if cls == clsName m.cls then pure { status := "OK", nontrivial := m.nt, tags := tags ++ ["class-" ++ cls] }
    else pure { status := "MISMATCH", nontrivial := m.nt, tags := tags, detail := clsName m.cls ++ " 0" }
  | _, _ => none

def handlers : List (String × Handler) :=
  (["chk_gen", "chk_rows", "chk_from", "chk_q", "chk_rows_all", "chk_repoll", "chk_interleave", "chk_twice", "chk_chain", "chk_hist", "chk_mx", "chk_it", "chk_alg", "chk_dm", "chk_pt",
    "chk_prng"].map (fun op => (op, handle op))) ++ [("chk_leak", hLeak)]

end GraafVerif.Driver.H13
