import GraafVerif.Driver.Common
/-! Driver handlers for property C13 (ops the harness module `ops/c13.rs` emits). -/
namespace GraafVerif.Driver.H13
open GraafVerif GraafVerif.Driver

def handlers : List (String × Handler) := []

end GraafVerif.Driver.H13
