import GraafVerif.Driver.Common
import GraafVerif.Model.Tarjan
import GraafVerif.Spec.Tarjan
/-!
Driver handlers for property C09 (ops the harness module `ops/c09.rs` emits).

  tarjan_components <desc>  =>  [[component] …] | panic

* correspondence: `Tarjan.components` (Model/Tarjan.lean) on the `VGraph` of the description,
  compared verbatim (components ascending, in emission order);
* property oracle (PROPFAIL): the VERIFIED checker `Tarjan.sccCheck` (Spec/Tarjan.lean,
  soundness in Proof/TarjanCheck.lean) on the IMPLEMENTATION's component list.
-/
namespace GraafVerif.Driver.H09
open GraafVerif GraafVerif.Driver GraafVerif.Tarjan

/-- Vertex list of a description, ascending and duplicate free.  `AdjacencyMap::add_arc` admits
new endpoints, so for `am` the endpoints of the arcs are vertices too (as in `Desc::parse`). -/
def vertsOf (d : GDesc) : List Nat :=
  if d.repr == "am" then
    (d.verts ++ d.arcs.map (·.1) ++ d.arcs.map (·.2)).foldl (fun acc x => Tarjan.insertAsc x acc) []
  else d.verts

/-- `add_arc` panics on a self-loop (all representations) and on an endpoint `≥ order`
(all but `am`); `empty(0)` panics. -/
def validDesc (d : GDesc) : Bool :=
  d.arcs.all (fun a => a.1 != a.2) &&
  (d.repr == "am" || (d.order ≥ 1 && d.arcs.all (fun a => a.1 < d.order && a.2 < d.order)))

/-- Rows are built for ids `0..max id`, so sparse ids are covered. -/
def vgraphOf (d : GDesc) : VGraph :=
  let vs := vertsOf d
  let bound := vs.foldl max 0 + 1
  let rows := rowsOfArcs bound d.arcs
  ⟨vs, fun u => rows.getD u []⟩

def resToV : Res → List V
  | .panic => [.a "panic"]
  | .fuel => [.a "model-out-of-fuel"]
  | .ret cs => [.l (cs.map V.ofNats)]

def countTag (pre : String) (k : Nat) : String :=
  pre ++ (if k ≤ 1 then "0-1" else if k ≤ 3 then "2-3" else if k ≤ 8 then "4-8" else ">8")

def hComponents : Handler := fun _ args obs =>
  match args with
  | [desc] => do
    let d ← GDesc.parse desc
    if !validDesc d then
      -- building the digraph panics before Tarjan runs; the property does not speak about it
      pure (classify obs [.a "panic"] none (nt := false) ["invalid-desc"])
    else
      let g := vgraphOf d
      -- the theorems of Thm/C09 are about closed digraphs; a valid description always is
      if !(decide g.Closed) then none else
      let model := resToV (components g)
      let n := g.verts.length
      let contiguous := g.verts == List.range n
      let obsCs : Option (List (List Nat)) :=
        match obs with
        | [v] => V.listOf? (V.listOf? V.nat?) v
        | _ => none
      let propFail : Option String :=
        match obsCs with
        | none => some "no-component-list (panic or malformed output)"
        | some cs => if sccCheck g cs then none else some "not-the-partition-into-strongly-connected-components"
      let ncomp := (obsCs.getD []).length
      let largest := (obsCs.getD []).foldl (fun m c => max m c.length) 0
      -- an arc between two different components: when it is scanned its head is either un-indexed
      -- or in a finished component (indexed, NOT on the stack: the branch the `on_stack` test is for)
      let compOf (x : Nat) : Nat := ((obsCs.getD []).findIdx? (fun c => c.contains x)).getD 0
      let inter := d.arcs.any (fun a => compOf a.1 != compOf a.2)
      let tags := [ d.repr, if inter then "inter-scc-arcs" else "no-inter-scc-arc", sizeTag n, if contiguous then "contiguous" else "sparse-ids",
                    countTag "comps=" ncomp, countTag "largest=" largest,
                    if ncomp == n then "all-singletons" else if ncomp == 1 then "one-scc" else "mixed" ]
      pure (classify obs model propFail (nt := n ≥ 2 && !d.arcs.isEmpty) tags)
  | _ => none

def handlers : List (String × Handler) := [("tarjan_components", hComponents)]

end GraafVerif.Driver.H09
