import GraafVerif.Driver.Common
/-! Driver handlers for property C09 (ops the harness module `ops/c09.rs` emits). -/
namespace GraafVerif.Driver.H09
open GraafVerif GraafVerif.Driver

def handlers : List (String × Handler) := []

end GraafVerif.Driver.H09
