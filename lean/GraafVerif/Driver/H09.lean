import GraafVerif.Driver.Common
import GraafVerif.Model.Tarjan
import GraafVerif.Spec.Tarjan
/-!
Driver handlers for property C09 (ops the harness module `ops/c09.rs` emits).

  tarjan_components <desc>  =>  [[component] …] | panic

* correspondence: `Tarjan.components` (Model/Tarjan.lean) on the `VGraph` of the description,
  compared verbatim (components ascending, in emission order);
* property oracle (PROPFAIL): the VERIFIED checker `Tarjan.sccCheck` (Spec/Tarjan.lean,
  soundness in Proof/TarjanCheck.lean) on the IMPLEMENTATION's component list.
-/
namespace GraafVerif.Driver.H09
open GraafVerif GraafVerif.Driver GraafVerif.Tarjan

/-- Vertex list of a description, ascending and duplicate free.  `AdjacencyMap::add_arc` admits
new endpoints, so for `am` the endpoints of the arcs are vertices too (as in `Desc::parse`). -/
def vertsOf (d : GDesc) : List Nat :=
  if d.repr == "am" then
    (d.verts ++ d.arcs.map (·.1) ++ d.arcs.map (·.2)).foldl (fun acc x => Tarjan.insertAsc x acc) []
  else d.verts

/-- `add_arc` panics on a self-loop (all representations) and on an endpoint `≥ order`
(all but `am`); `empty(0)` panics. -/
def validDesc (d : GDesc) : Bool :=
  d.arcs.all (fun a => a.1 != a.2) &&
  (d.repr == "am" || (d.order ≥ 1 && d.arcs.all (fun a => a.1 < d.order && a.2 < d.order)))

/-- Rows are built for ids `0..max id`, so sparse ids are covered. -/
def vgraphOf (d : GDesc) : VGraph :=
  let vs := vertsOf d
  let bound := vs.foldl max 0 + 1
  let rows := rowsOfArcs bound d.arcs
  ⟨vs, fun u => rows.getD u []⟩

/-! Huge ids (`2^32`, `usize::MAX`, …) in an `AdjacencyMap`: rows keyed by id in an array sorted
by id, found by binary search (`vgraphOf` would allocate `max id + 1` rows). -/

def bsearch (rows : Array (Nat × List Nat)) (u : Nat) : Nat → Nat → Nat → Option Nat
  | 0, _, _ => none
  | fuel+1, lo, hi =>
    if lo ≥ hi then none
    else
      let mid := (lo + hi) / 2
      let k := (rows.getD mid (0, [])).1
      if k == u then some mid
      else if k < u then bsearch rows u fuel (mid + 1) hi
      else bsearch rows u fuel lo mid

def rankOf (rows : Array (Nat × List Nat)) (u : Nat) : Option Nat := bsearch rows u (rows.size + 1) 0 rows.size

def vgraphSparse (d : GDesc) : VGraph :=
  let vs := vertsOf d
  let rows0 : Array (Nat × List Nat) := (vs.map (fun v => (v, ([] : List Nat)))).toArray
  let rows := d.arcs.foldl (fun rows a =>
    match rankOf rows a.1 with
    | some i => rows.modify i (fun r => (r.1, Tarjan.insertAsc a.2 r.2))
    | none => rows) rows0
  ⟨vs, fun u => match rankOf rows u with
    | some i => (rows.getD i (0, [])).2
    | none => []⟩

/-- The digraph the handlers work on. -/
def graphOfDesc (d : GDesc) : VGraph :=
  if d.repr == "am" && (vertsOf d).foldl max 0 ≥ 4096 then vgraphSparse d else vgraphOf d

def resToV : Res → List V
  | .panic => [.a "panic"]
  | .fuel => [.a "model-out-of-fuel"]
  | .ret cs => [.l (cs.map V.ofNats)]

def countTag (pre : String) (k : Nat) : String :=
  pre ++ (if k ≤ 1 then "0-1" else if k ≤ 3 then "2-3" else if k ≤ 8 then "4-8" else ">8")

/-- Oracle on one returned component list. -/
def oracle (g : VGraph) (cs : List (List Nat)) : Option String :=
  if sccCheck g cs then none else some "not-the-partition-into-strongly-connected-components"

def tagsOf (d : GDesc) (g : VGraph) (cs : List (List Nat)) : List String :=
  let n := g.verts.length
  let contiguous := g.verts == List.range n
  let ncomp := cs.length
  let largest := cs.foldl (fun m c => max m c.length) 0
  -- an arc between two different components: when it is scanned its head is either un-indexed
  -- or in a finished component (indexed, NOT on the stack: the branch the `on_stack` test is for)
  let compOf (x : Nat) : Nat := (cs.findIdx? (fun c => c.contains x)).getD 0
  let inter := d.arcs.any (fun a => compOf a.1 != compOf a.2)
  let maxId := g.verts.foldl max 0
  [ d.repr, if inter then "inter-scc-arcs" else "no-inter-scc-arc",
    sizeTag n, if n > 130 then "n>130" else "n<=130",
    if contiguous then "contiguous" else if maxId ≥ 2^32 then "huge-ids" else "sparse-ids",
    countTag "comps=" ncomp, countTag "largest=" largest,
    if ncomp == n then "all-singletons" else if ncomp == 1 then "one-scc" else "mixed" ]

def hComponents : Handler := fun _ args obs =>
  match args with
  | [desc] => do
    let d ← GDesc.parse desc
    if !validDesc d then
      -- building the digraph panics before Tarjan runs; the property does not speak about it
      pure (classify obs [.a "panic"] none (nt := false) ["invalid-desc"])
    else
      let g := graphOfDesc d
      -- the theorems of Thm/C09 are about closed digraphs; a valid description always is
      if !(decide g.Closed) then none else
      let model := resToV (components g)
      let obsCs : Option (List (List Nat)) :=
        match obs with
        | [v] => V.listOf? (V.listOf? V.nat?) v
        | _ => none
      let propFail : Option String :=
        match obsCs with
        | none => some "no-component-list (panic or malformed output)"
        | some cs => oracle g cs
      pure (classify obs model propFail (nt := g.verts.length ≥ 2 && !d.arcs.isEmpty)
        ("single-call" :: tagsOf d g (obsCs.getD [])))
  | _ => none

/-- `tarjan_repeat <desc> <k>`: `components()` called `k` times on ONE `Tarjan` value; the output
is the list of the `k` returned component lists.  The property speaks about every call. -/
def hRepeat : Handler := fun _ args obs =>
  match args with
  | [desc, k] => do
    let d ← GDesc.parse desc
    let k ← V.nat? k
    if k == 0 || k > 5 then none else
    if !validDesc d then
      pure (classify obs [.a "panic"] none (nt := false) ["invalid-desc"])
    else
      let g := graphOfDesc d
      if !(decide g.Closed) then none else
      let results := (List.range k).map (fun j => componentsAt g (j + 1))
      let model : List V :=
        match results.find? (fun r => match r with | .ret _ => false | _ => true) with
        | some bad => resToV bad
        | none => [.l (results.map (fun r => match r with | .ret cs => V.l (cs.map V.ofNats) | _ => V.a "?"))]
      let obsAll : Option (List (List (List Nat))) :=
        match obs with
        | [v] => V.listOf? (V.listOf? (V.listOf? V.nat?)) v
        | _ => none
      let propFail : Option String :=
        match obsAll with
        | none => some "no-component-lists (panic or malformed output)"
        | some css =>
          if css.length != k then some s!"{css.length} results for {k} calls"
          else
            -- identical lists need one check only
            let rec go (j : Nat) (prev : Option (List (List Nat))) : List (List (List Nat)) → Option String
              | [] => none
              | cs :: rest =>
                if prev == some cs then go (j + 1) prev rest
                else match oracle g cs with
                  | some why => some s!"call-{j}: {why}"
                  | none => go (j + 1) (some cs) rest
            go 1 none css
      let first := ((obsAll.getD []).head?).getD []
      pure (classify obs model propFail (nt := g.verts.length ≥ 2 && !d.arcs.isEmpty)
        (s!"calls={k}" :: tagsOf d g first))
  | _ => none

def handlers : List (String × Handler) := [("tarjan_components", hComponents), ("tarjan_repeat", hRepeat)]

end GraafVerif.Driver.H09
