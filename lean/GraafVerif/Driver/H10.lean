import GraafVerif.Driver.Common
/-! Driver handlers for property C10 (ops the harness module `ops/c10.rs` emits). -/
namespace GraafVerif.Driver.H10
open GraafVerif GraafVerif.Driver

def handlers : List (String × Handler) := []

end GraafVerif.Driver.H10
