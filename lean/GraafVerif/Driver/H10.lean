import GraafVerif.Driver.Common
import GraafVerif.Model.Johnson
import GraafVerif.Spec.Johnson
/-!
Driver handlers for C10: `johnson_circuits <family> [am verts arcs] => [[circuit] …] | panic` and
`johnson_repeat <family> <k|clone> [am verts arcs] => ([[circuit] …]) × k | panic` (see `hRepeat`).

* correspondence: the model's `circuits` output, verbatim (the emission order is deterministic);
* property oracle on the IMPLEMENTATION's output: permutation-equality with the verified naive
  enumerator `allCircuits` (`Proof/JohnsonSpec.lean`: `allCircuits_spec`, `allCircuits_nodup`),
  reported as `spurious` (a returned list is not a canonical elementary circuit — decided by the
  defining predicate `isCanonB`, independently of the enumerator), `duplicate`, or `missing`.

Only contiguous descriptions (vertex set `0..n`, arcs in range, no loops) are in scope.
-/
namespace GraafVerif.Driver.H10
open GraafVerif GraafVerif.Driver GraafVerif.Johnson

/-- Executable form of `IsCanonicalElemCircuit` (the property's defining predicate). -/
def isCanonB (g : Graph) (c : List Nat) : Bool :=
  match c with
  | [] => false
  | s :: rest =>
    !rest.isEmpty && rest.all (fun x => s < x) &&
    (List.range c.length).all (fun i => (List.range c.length).all (fun j => i == j || c[i]? != c[j]?)) &&
    (List.range c.length).all (fun i =>
      let u := (c[i]?).getD 0
      let v := if i + 1 < c.length then (c[i+1]?).getD 0 else s
      (g.out u).contains v)

def firstDup : List (List Nat) → Option (List Nat)
  | [] => none
  | c :: cs => if cs.contains c then some c else firstDup cs

/-! Instrumented copy of the model's `unblock`/`circuit` (same code + counters) used only for the
tags: how often a blocked neighbour was skipped, how many vertices a cascade unblocked through
B-lists, how many searches failed.  Its circuit list is checked against the model's. -/
structure Stat where
  skips : Nat := 0
  cascades : Nat := 0
  fails : Nat := 0

def unblockI : Nat → JState × Stat → Bool → Nat → JState × Stat
  | 0, p, _, _ => p
  | fuel+1, (st, k), top, u =>
    if st.isBlocked u then
      (st.Bof u).foldl (fun p v => unblockI fuel p false v)
        ({ st with blocked := st.blocked.filter (· != u), B := st.B.set u [] },
         if top then k else { k with cascades := k.cascades + 1 })
    else (st, k)

def circuitI (comp : AM) (s : Nat) (ufuel : Nat) : Nat → JState × Stat → Nat → Bool × (JState × Stat)
  | 0, p, _ => (false, p)
  | fuel+1, (st, k), v =>
    let st : JState := { st with stack := st.stack ++ [v], blocked := insBlocked v st.blocked }
    let r := (comp.out v).foldl (fun (acc : Bool × (JState × Stat)) w =>
      if w = s then (true, ({ acc.2.1 with result := acc.2.1.result ++ [acc.2.1.stack] }, acc.2.2))
      else if !acc.2.1.isBlocked w then
        let r := circuitI comp s ufuel fuel acc.2 w
        (acc.1 || r.1, r.2)
      else (acc.1, (acc.2.1, { acc.2.2 with skips := acc.2.2.skips + 1 }))) (false, (st, k))
    let p := if r.1 then unblockI ufuel r.2 true v
             else ({ r.2.1 with B := addToB v r.2.1.B (comp.out v) }, { r.2.2 with fails := r.2.2.fails + 1 })
    (r.1, ({ p.1 with stack := p.1.stack.dropLast }, p.2))

def circuitsI (a : AM) : List (List Nat) × Stat :=
  let r := a.verts.foldl (fun (p : JState × Stat) s =>
    let subgraph := a.filter (fun u => decide (s ≤ u))
    match minByKey (tarjan subgraph) with
    | none => p
    | some minScc =>
      let component := a.filter (fun u => minScc.contains u)
      if component.order > 0 then
        match minScc.head? with
        | none => p
        | some start => (circuitI component start (a.order + 1) (a.order + 1) (resetFor component.verts p.1, p.2) start).2
      else p) (⟨[], List.replicate a.order [], [], []⟩, {})
  (r.1.result, r.2)

def countTag (pfx : String) (k : Nat) : String :=
  pfx ++ (if k == 0 then "0" else if k < 10 then "1-9" else if k < 100 then "10-99" else "100+")

def countTag2 (pfx : String) (k : Nat) : String :=
  pfx ++ (if k == 0 then "0" else if k < 10 then "1-9" else "10+")

def hCircuits : Handler := fun _ args obs =>
  match args with
  | [V.a fam, desc] => do
    let d ← GDesc.parse desc
    if d.repr != "am" then none
    if d.verts != List.range d.order then none
    if !d.arcs.all (fun a => a.1 < d.order && a.2 < d.order && a.1 != a.2) then none
    let g := d.graph
    let modelCs := circuits g
    let model : List V := match circuitsChecked (AM.ofGraph g) with
      | some cs => [V.l (cs.map V.ofNats)]
      | none => [V.a "panic"]
    let all := allCircuits g
    let (instr, k) := circuitsI (AM.ofGraph g)
    let propFail : Option String :=
      match obs with
      | [V.l cs] =>
        match cs.mapM (V.listOf? V.nat?) with
        | none => some "output is not a list of vertex lists"
        | some cs =>
          match cs.find? (fun c => !isCanonB g c) with
          | some c => some s!"spurious {V.ofNats c} is not a canonical elementary circuit"
          | none =>
            match firstDup cs with
            | some c => some s!"duplicate {V.ofNats c} returned more than once"
            | none =>
              match all.find? (fun c => !cs.contains c) with
              | some c => some s!"missing {V.ofNats c} of {all.length} circuits, {cs.length} returned"
              | none => if cs.length == all.length then none else some s!"count {cs.length} returned, {all.length} exist"
      | _ => some s!"no circuit list returned ({all.length} circuits exist)"
    let group := if fam == "corpus" then "corpus" else if fam.startsWith "all" || fam == "tournament5" || fam == "complete" then "exhaustive-small"
                 else if ["trap-then-close", "cycle-chords", "theta", "flower", "bidirected", "two-blocks",
                          "ladder", "sparse-hamiltonian", "big-sparse"].contains fam then "blocking-families"
                 else "shared-families"
    let nTag := if d.order ≤ 3 then "n1-3" else if d.order ≤ 6 then "n4-6" else if d.order ≤ 9 then "n7-9"
                else if d.order ≤ 14 then "n10-14" else "n15+"
    let tags := (if group == "corpus" then [] else ["gen:" ++ group]) ++ [ nTag, countTag "circuits:" all.length,
                  countTag2 "blocked-skips:" k.skips, countTag2 "cascade-unblocks:" k.cascades,
                  countTag2 "failed-searches:" k.fails ] ++
                (if instr == modelCs then [] else ["INSTRUMENTED-COPY-DIFFERS"])
    pure (classify obs model propFail (nt := all.length ≥ 2) tags)
  | _ => none

/-- Oracle on one returned vector: defining predicate on every list, no duplicates, nothing of
`allCircuits` missing. -/
def oracleOne (g : Graph) (all : List (List Nat)) (call : Nat) (v : V) : Option String :=
  match v with
  | V.l cs =>
    match cs.mapM (V.listOf? V.nat?) with
    | none => some s!"call {call}: output is not a list of vertex lists"
    | some cs =>
      match cs.find? (fun c => !isCanonB g c) with
      | some c => some s!"call {call}: spurious {V.ofNats c} is not a canonical elementary circuit"
      | none =>
        match firstDup cs with
        | some c => some s!"call {call}: duplicate {V.ofNats c} returned more than once"
        | none =>
          match all.find? (fun c => !cs.contains c) with
          | some c => some s!"call {call}: missing {V.ofNats c} of {all.length} circuits, {cs.length} returned"
          | none => if cs.length == all.length then none
                    else some s!"call {call}: count {cs.length} returned, {all.length} exist"
  | _ => some s!"call {call}: no circuit list returned"

/-- `johnson_repeat <family> <k|clone> desc`: `k` calls of `circuits()` on the same value (`clone`:
two calls, the second on a clone — the derived `Clone` is structural).  Model: `circuitsRepeat`
(state threaded through the calls; `Thm/C10.johnson_repeat_statement`: every call returns the
full enumeration).  Oracle: every returned vector is permutation-equal to `allCircuits`. -/
def hRepeat : Handler := fun _ args obs =>
  match args with
  | [V.a fam, mode, desc] => do
    let d ← GDesc.parse desc
    if d.repr != "am" then none
    if d.verts != List.range d.order then none
    if !d.arcs.all (fun a => a.1 < d.order && a.2 < d.order && a.1 != a.2) then none
    let k ← match mode with
      | V.a "clone" => some 2
      | m => V.nat? m
    if k == 0 || k > 8 then none
    let g := d.graph
    let a := AM.ofGraph g
    let model : List V := match circuitsChecked a with
      | some _ => (circuitsRepeat a k (JState.new a)).map (fun cs => V.l (cs.map V.ofNats))
      | none => [V.a "panic"]
    let all := allCircuits g
    let propFail : Option String :=
      if obs.length != k then some s!"{obs.length} results for {k} calls ({all.length} circuits exist)"
      else ((List.range k).zip obs).findSome? (fun p => oracleOne g all (p.1 + 1) p.2)
    let stale := (circuitsCall a (JState.new a)).blocked.length
    let nTag := if d.order ≤ 3 then "n1-3" else if d.order ≤ 6 then "n4-6" else if d.order ≤ 9 then "n7-9"
                else if d.order ≤ 14 then "n10-14" else "n15+"
    let tags := [ "repeat:" ++ toString mode, nTag, countTag "circuits:" all.length,
                  "stale-blocked-after-call:" ++ (if stale == 0 then "0" else if stale < 4 then "1-3" else "4+") ]
    let _ := fam
    pure (classify obs model propFail (nt := all.length ≥ 1 && stale ≥ 1) tags)
  | _ => none

def handlers : List (String × Handler) := [("johnson_circuits", hCircuits), ("johnson_repeat", hRepeat)]

end GraafVerif.Driver.H10
