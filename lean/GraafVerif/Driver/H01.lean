import GraafVerif.Driver.Common
import GraafVerif.Driver.ReprDesc
/-! Driver handlers for property C01 (ops the harness module `ops/c01.rs` emits). -/
namespace GraafVerif.Driver.H01
open GraafVerif GraafVerif.Driver

/-- `repr_obs <desc>`: build through the public API, observe order / vertices / arcs. -/
def hObs : Handler := fun _ args obs =>
  match args with
  | [d] => do
    let d ← GDesc.parse d
    let model := match obsDesc d with
      | some v => [v]
      | none => [V.a "panic"]
    pure (classify obs model none (nt := d.arcs.length ≥ 2) [d.repr, sizeTag d.order])
  | _ => none

def handlers : List (String × Handler) := [("repr_obs", hObs)]

end GraafVerif.Driver.H01
