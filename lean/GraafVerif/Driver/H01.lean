import GraafVerif.Driver.Common
/-! Driver handlers for property C01 (ops the harness module `ops/c01.rs` emits). -/
namespace GraafVerif.Driver.H01
open GraafVerif GraafVerif.Driver

def handlers : List (String × Handler) := []

end GraafVerif.Driver.H01
