import GraafVerif.Driver.Common
import GraafVerif.Driver.ReprDesc
import GraafVerif.Model.ReprEqHist
import GraafVerif.Model.ReprEqMxIter
import GraafVerif.Spec.ReprExec
/-!
# Driver handlers for C01

* `repr_obs <desc>` — construction correspondence (seed op).
* `repr_history <repr> <start> <ops>` — see `harness/src/ops/c01.rs` for the line format.
  The MODEL side replays the history with `X.step` of `Model/ReprEqHist.lean` and renders the
  same per-step observations; the ORACLE side (`PROPFAIL`) replays it on a *plain unsorted
  list of arcs* (`LSpec`, the executable form of `Spec/Repr.lean`'s `(V, A, w)`) and compares
  the IMPLEMENTATION's observations with it, step by step.

Both sides are instances of one renderer (`View`), so that they can only differ in the
digraph semantics, not in the formatting.
-/
namespace GraafVerif.Driver.H01
open GraafVerif GraafVerif.Driver GraafVerif.Repr GraafVerif.ReprSpec

/-- A call of the protocol. -/
inductive HOp where
  | add (u v : Nat)
  | addw (u v : Nat) (w : Int)
  | rem (u v : Nat)
  | tog (u v : Nat)
  deriving Repr, BEq

def HOp.parse : V → Option HOp
  | .l [.a "add", u, v] => do pure (.add (← V.nat? u) (← V.nat? v))
  | .l [.a "rem", u, v] => do pure (.rem (← V.nat? u) (← V.nat? v))
  | .l [.a "tog", u, v] => do pure (.tog (← V.nat? u) (← V.nat? v))
  | .l [.a "addw", u, v, w] => do pure (.addw (← V.nat? u) (← V.nat? v) (← V.int? w))
  | _ => none

def HOp.ends : HOp → Nat × Nat
  | .add u v | .rem u v | .tog u v | .addw u v _ => (u, v)

def outToV : Out → V
  | .unit => .a "unit"
  | .bool b => V.ofBool b
  | .panic => .a "panic"

/-- What the renderer needs of a digraph state (model state or oracle state). -/
structure View (σ : Type) where
  weighted : Bool
  order : σ → Nat
  verts : σ → List Nat
  /-- arcs in iteration order, weight `1` for unweighted digraphs -/
  arcs : σ → List (Nat × Nat × Int)
  plainArcs : σ → List (Nat × Nat)
  size : σ → Nat
  weight : σ → Nat → Nat → Option Int
  /-- `none` = the representation has no such method -/
  step : σ → HOp → Option (σ × Out)

def showArc (weighted : Bool) (a : Nat × Nat × Int) : V :=
  if weighted then .l [V.ofNat a.1, V.ofNat a.2.1, .i a.2.2] else .l [V.ofNat a.1, V.ofNat a.2.1]

def showArcs (weighted : Bool) (as : List (Nat × Nat × Int)) : V := .l (as.map (showArc weighted))

def showW : Option Int → V
  | none => .a "false"
  | some w => .i w

def hashP : Nat := 2^61 - 1
def mix (h x : Nat) : Nat := (h * 1000003 + x) % hashP

/-- The rolling hash of `harness/src/ops/c01.rs::digest`. -/
def digest (verts : List Nat) (arcs : List (Nat × Nat × Int)) : Nat :=
  let h := verts.foldl (fun h x => mix h (x + 1)) 7
  let h := mix h 0
  arcs.foldl (fun h a => mix (mix (mix h (a.1 + 1)) (a.2.1 + 1)) (a.2.2 + (2:Int)^70).toNat) h

def probeUniverse (d : GDesc) (ops : List HOp) : List Nat :=
  let m := d.verts.foldl (fun m x => max m (x + 1)) 0
  let ids := d.verts ++ [m, m + 1] ++ ops.flatMap (fun o => [o.ends.1, o.ends.2])
  ids.foldl (fun acc v => insertAsc v acc) []

def fullLimit : Nat := 12

def obsFull {σ : Type} (vw : View σ) (s : σ) (uni : List Nat) : List V :=
  let has := uni.flatMap (fun u => uni.filterMap (fun v =>
    match vw.weight s u v with
    | some w => some (showArc vw.weighted (u, v, w))
    | none => none))
  [V.ofNat (vw.order s), V.ofNats (vw.verts s), showArcs vw.weighted (vw.arcs s), V.ofNat (vw.size s), .l has]

def obsDigest {σ : Type} (vw : View σ) (s : σ) (probe : Option (Nat × Nat)) : List V :=
  let verts := vw.verts s
  let probes := match probe with
    | some (u, v) => [showW (vw.weight s u v), showW (vw.weight s v u)]
    | none => []
  [V.ofNat (vw.order s), V.ofNat verts.length, V.ofNat (vw.size s), V.ofNat (digest verts (vw.arcs s)), .l probes]

/-- The last element also carries `arcs()` of the weighted digraph and the listing of the second
of two `arcs()` iterators polled alternately (every `arcs()` call lists the same sequence). -/
def obsFinal {σ : Type} (vw : View σ) (s : σ) : V :=
  .l ([.a "final", V.ofNat (vw.order s), V.ofNats (vw.verts s), showArcs vw.weighted (vw.arcs s)] ++
    (if vw.weighted then [V.ofPairs (vw.plainArcs s)] else []) ++ [V.ofPairs (vw.plainArcs s)])

/-- Replay a history and render one value per step; `none` = an unsupported call. -/
def simulate {σ : Type} (vw : View σ) (s0 : σ) (ops : List HOp) (uni : List Nat) : Option (σ × List V) :=
  let full := uni.length ≤ fullLimit
  let first : V := .l (.a "start" :: (if full then obsFull vw s0 uni else obsDigest vw s0 none))
  let rec go (s : σ) (ops : List HOp) (acc : List V) : Option (σ × List V) :=
    match ops with
    | [] => some (s, (obsFinal vw s :: acc).reverse)
    | op :: rest =>
      match vw.step s op with
      | none => none
      | some (s', out) =>
        let o := if full then obsFull vw s' uni else obsDigest vw s' (some op.ends)
        go s' rest (.l (outToV out :: o) :: acc)
  go s0 ops [first]

/-! ## Model views -/

def unitArcs (as : List (Nat × Nat)) : List (Nat × Nat × Int) := as.map (fun a => (a.1, a.2, 1))
def unitW (b : Bool) : Option Int := if b then some 1 else none

def viewAL : View AdjList where
  weighted := false
  order := AdjList.order
  verts := AdjList.vertices
  arcs := fun d => unitArcs d.arcsIter   -- the literal hand-written iterator (= `arcs`, proved)
  plainArcs := AdjList.arcsIter
  size := AdjList.size
  weight := fun d u v => unitW (d.hasArc u v)
  step := fun d op => match op with
    | .add u v => some (d.step (.add u v ()))
    | .rem u v => some (d.step (.rem u v))
    | _ => none

def viewAM : View AdjMap where
  weighted := false
  order := AdjMap.order
  verts := AdjMap.vertices
  arcs := fun d => unitArcs d.arcs
  plainArcs := AdjMap.arcs
  size := AdjMap.size
  weight := fun d u v => unitW (d.hasArc u v)
  step := fun d op => match op with
    | .add u v => some (d.step (.add u v ()))
    | .rem u v => some (d.step (.rem u v))
    | _ => none

def viewEL : View EdgeList where
  weighted := false
  order := EdgeList.order
  verts := EdgeList.vertices
  arcs := fun d => unitArcs d.arcs
  plainArcs := EdgeList.arcs
  size := EdgeList.size
  weight := fun d u v => unitW (d.hasArc u v)
  step := fun d op => match op with
    | .add u v => some (d.step (.add u v ()))
    | .rem u v => some (d.step (.rem u v))
    | _ => none

/-- The matrix is observed through the LITERAL iterator loop (`arcsIter`) and `count_ones` sum
(`sizePop`) of `Model/ReprEqMxIter.lean`; `Proof/ReprMXIter.lean` proves them equal to the filter
forms `AdjMatrix.arcs` / `AdjMatrix.size` the theorems speak about.  Above 1 024 blocks (order > 256,
stress stream) the linear-time `arcsFold` (proved equal as well) replaces the list-indexing loop. -/
def viewMX : View AdjMatrix where
  weighted := false
  order := AdjMatrix.order
  verts := AdjMatrix.vertices
  arcs := fun d => unitArcs (if d.blocks.length ≤ 1024 then d.arcsIter else d.arcsFold)
  plainArcs := fun d => if d.blocks.length ≤ 1024 then d.arcsIter else d.arcsFold
  size := AdjMatrix.sizePop
  weight := fun d u v => unitW (d.hasArc u v)
  step := fun d op => match op with
    | .add u v => some (d.step (.add u v))
    | .rem u v => some (d.step (.rem u v))
    | .tog u v => some (d.step (.tog u v))
    | _ => none

def viewW : View AdjListW where
  weighted := true
  order := AdjListW.order
  verts := AdjListW.vertices
  arcs := AdjListW.arcsWeighted
  plainArcs := AdjListW.arcs
  size := AdjListW.size
  weight := fun d u v =>
    -- `has_arc` and `arc_weight` are both observed; the harness flags a disagreement
    if d.hasArc u v != (d.arcWeight u v).isSome then some (-(2:Int)^63) else d.arcWeight u v
  step := fun d op => match op with
    | .addw u v w => some (d.step (.add u v w))
    | .rem u v => some (d.step (.rem u v))
    | _ => none

/-! ## The oracle: `LSpec` of `Spec/ReprExec.lean` (a plain, unsorted list of weighted arcs) -/

namespace LSpecD
open LSpec
def step (s : LSpec) : HOp → Option (LSpec × Out)
  | .add u v => if s.weighted then none else some (s.put u v 1)
  | .addw u v w => if s.weighted then some (s.put u v w) else none
  | .rem u v => some (s.remove u v)
  | .tog u v => if !s.hasTog then none else some (s.toggle u v)
def sortedVerts (s : LSpec) : List Nat := s.verts.mergeSort (fun a b => decide (a ≤ b))
def arcLe (a b : Nat × Nat × Int) : Bool := a.1 < b.1 || (a.1 == b.1 && a.2.1 ≤ b.2.1)
def sortedArcs (s : LSpec) : List (Nat × Nat × Int) := s.arcs.mergeSort arcLe
/-- The start state a description denotes: its vertex list and its arcs added in order. -/
def ofDesc (d : GDesc) : Option LSpec :=
  let w := d.repr == "wu" || d.repr == "wi"
  let s0 : LSpec := ⟨d.repr != "am", w, d.repr == "mx", d.verts, []⟩
  if d.order == 0 && d.repr != "am" then none
  else d.warcs.foldlM (fun s a =>
    match s.put a.1 a.2.1 a.2.2 with
    | (_, .panic) => none
    | (s', _) => some s') s0
end LSpecD

def viewSpec (weighted : Bool) : View LSpec where
  weighted := weighted
  order := fun s => s.verts.length
  verts := LSpecD.sortedVerts
  arcs := LSpecD.sortedArcs
  plainArcs := fun s => (LSpecD.sortedArcs s).map (fun a => (a.1, a.2.1))
  size := fun s => s.arcs.length
  weight := LSpec.weight
  step := LSpecD.step

/-! ## Handlers -/

/-- `repr_obs <desc>`: build through the public API, observe order / vertices / arcs. -/
def hObs : Handler := fun _ args obs =>
  match args with
  | [d] => do
    let d ← GDesc.parse d
    let model := match obsDesc d with
      | some v => [v]
      | none => [V.a "panic"]
    pure (classify obs model none (nt := d.arcs.length ≥ 2) [d.repr, sizeTag d.order])
  | _ => none

/-- Model replay for the representation named by the description. -/
def modelRun (d : GDesc) (ops : List HOp) (uni : List Nat) : Option (Option (List V)) :=
  match d.repr with
  | "al" => some ((buildAL d).bind (fun g => (simulate viewAL g ops uni).map (·.2)))
  | "am" => some ((buildAM d).bind (fun g => (simulate viewAM g ops uni).map (·.2)))
  | "mx" => some ((buildMX d).bind (fun g => (simulate viewMX g ops uni).map (·.2)))
  | "el" => some ((buildEL d).bind (fun g => (simulate viewEL g ops uni).map (·.2)))
  | "wu" | "wi" => some ((buildW d).bind (fun g => (simulate viewW g ops uni).map (·.2)))
  | _ => none

/-- First position where two renderings differ. -/
def firstDiff (got want : List V) : Option String :=
  let rec go (i : Nat) : List V → List V → Option String
    | [], [] => none
    | g :: gs, w :: ws => if g == w then go (i + 1) gs ws else
        some s!"step {i}: spec-says {(toString w).take 300} impl-gave {(toString g).take 300}"
    | [], w :: _ => some s!"step {i}: missing, spec-says {(toString w).take 300}"
    | g :: _, [] => some s!"step {i}: extra {(toString g).take 300}"
  go 0 got want

def supported (repr : String) : HOp → Bool
  | .add .. => repr == "al" || repr == "am" || repr == "mx" || repr == "el"
  | .addw .. => repr == "wu" || repr == "wi"
  | .rem .. => true
  | .tog .. => repr == "mx"

def hHistory : Handler := fun _ args obs =>
  match args with
  | [.a repr, start, ops] => do
    let d ← GDesc.parse start
    if d.repr != repr then none
    let ops ← V.listOf? HOp.parse ops
    if !(ops.all (supported repr)) then none
    let uni := probeUniverse d ops
    let model ← modelRun d ops uni
    let modelOut := model.getD [V.a "panic"]
    -- oracle on the implementation's observations
    let spec0 := LSpecD.ofDesc d
    let want : List V := match spec0 with
      | none => [V.a "panic"]
      | some s0 => match simulate (viewSpec s0.weighted) s0 ops uni with
        | some (_, vs) => vs
        | none => [V.a "unsupported"]
    let propFail := firstDiff obs want
    -- tags: what happened in this history (from the oracle run)
    let outs : List Out := match spec0 with
      | none => []
      | some s0 => (ops.foldl (fun (acc : LSpec × List (Out × Bool)) op =>
          match LSpecD.step acc.1 op with
          | some (s', o) => (s', (o, acc.1.has op.ends.1 op.ends.2) :: acc.2)
          | none => acc) (s0, [])).2.map (·.1)
    let pres : List (HOp × Out × Bool) := match spec0 with
      | none => []
      | some s0 => (ops.foldl (fun (acc : LSpec × List (HOp × Out × Bool)) op =>
          match LSpecD.step acc.1 op with
          | some (s', o) => (s', (op, o, acc.1.has op.ends.1 op.ends.2) :: acc.2)
          | none => acc) (s0, [])).2
    let anyP (p : HOp × Out × Bool → Bool) : Bool := pres.any p
    let isAdd : HOp → Bool := fun o => match o with | .add .. | .addw .. => true | _ => false
    let isTog : HOp → Bool := fun o => match o with | .tog .. => true | _ => false
    let tags := [repr, if uni.length ≤ fullLimit then "full" else "digest", sizeTag d.order,
      s!"len{if ops.length == 0 then "0" else if ops.length ≤ 4 then "1-4" else if ops.length ≤ 20 then "5-20" else "21-60"}"]
      ++ (if outs.contains .panic then ["has-panic"] else [])
      ++ (if outs.contains (.bool true) then ["has-rem-true"] else [])
      ++ (if outs.contains (.bool false) then ["has-rem-false"] else [])
      ++ (if anyP (fun (o, r, pre) => isAdd o && r == .unit && pre) then ["has-readd"] else [])
      ++ (if anyP (fun (o, r, pre) => isTog o && r == .unit && pre) then ["has-tog-off"] else [])
      ++ (if anyP (fun (o, r, pre) => isTog o && r == .unit && !pre) then ["has-tog-on"] else [])
      ++ (if d.arcs.isEmpty then ["start-empty"] else ["start-desc"])
    let changed := anyP (fun (o, r, pre) => (isAdd o && r == .unit && !pre) || r == .bool true || (isTog o && r == .unit))
    pure (classify obs modelOut propFail (nt := ops.length ≥ 2 && changed) tags)
  | _ => none

def handlers : List (String × Handler) := [("repr_obs", hObs), ("repr_history", hHistory)]

end GraafVerif.Driver.H01
