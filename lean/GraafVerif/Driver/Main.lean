import GraafVerif.Driver.Common
import GraafVerif.Driver.H01
import GraafVerif.Driver.H02
import GraafVerif.Driver.H03
import GraafVerif.Driver.H04
import GraafVerif.Driver.H05
import GraafVerif.Driver.H06
import GraafVerif.Driver.H07
import GraafVerif.Driver.H08
import GraafVerif.Driver.H09
import GraafVerif.Driver.H10
import GraafVerif.Driver.H11
import GraafVerif.Driver.H12
import GraafVerif.Driver.H13
import GraafVerif.Driver.H14
import GraafVerif.Driver.H15
import GraafVerif.Driver.H16
import GraafVerif.Driver.H17
import GraafVerif.Driver.H18
import GraafVerif.Driver.H19
import GraafVerif.Driver.H20
/-! `gdriver`: stdin = case lines, stdout = one verdict line per case line (see `Common`). -/
open GraafVerif GraafVerif.Driver

def allHandlers : List (String × Handler) :=
  H01.handlers ++ H02.handlers ++ H03.handlers ++ H04.handlers ++ H05.handlers ++
  H06.handlers ++ H07.handlers ++ H08.handlers ++ H09.handlers ++ H10.handlers ++
  H11.handlers ++ H12.handlers ++ H13.handlers ++ H14.handlers ++ H15.handlers ++
  H16.handlers ++ H17.handlers ++ H18.handlers ++ H19.handlers ++ H20.handlers

def handleLine (t : Nat) (line : String) : Verdict :=
  match V.parseLine line with
  | none => bad "unbalanced"
  | some vs =>
    let (pre, post) := V.splitArrow vs
    match pre with
    | V.a op :: args =>
      match allHandlers.lookup op with
      | none => bad s!"unknown-op {op}"
      | some h =>
        match h t args post with
        | some v => v
        | none => bad s!"malformed {op}"
    | _ => bad "no-op"

partial def loop (h : IO.FS.Stream) (out : IO.FS.Stream) (t : Nat) : IO Unit := do
  let line ← h.getLine
  if line.isEmpty then return ()
  let s := line.trimAscii.toString
  if s.isEmpty || s.startsWith "#" then
    loop h out t
  else if s.startsWith "@t " then
    let t' := ((s.drop 3).trimAscii.toString.toNat?).getD t
    loop h out t'
  else
    out.putStrLn (handleLine t s).render
    loop h out t

def main : IO Unit := do
  let stdin ← IO.getStdin
  let stdout ← IO.getStdout
  loop stdin stdout 1
  stdout.flush
