import GraafVerif.Driver.Common
import GraafVerif.Model.Repr
/-!
# Model digraphs from descriptions, and their observation

`build*` mirrors `graphs::Desc::build_*` of the harness (empty + `add_arc` in description order;
the map is built directly over its canonical vertex set).  `none` = the build panics.
`obs*` renders what the harness observes through `order / vertices / arcs(_weighted)`.
-/
namespace GraafVerif.Driver
open GraafVerif GraafVerif.Repr

def buildAL (d : GDesc) : Option AdjList := do
  let e ← AdjList.empty d.order
  d.arcs.foldlM (fun g a => g.addArc a.1 a.2) e

def buildMX (d : GDesc) : Option AdjMatrix := do
  let e ← AdjMatrix.empty d.order
  d.arcs.foldlM (fun g a => g.addArc a.1 a.2) e

def buildEL (d : GDesc) : Option EdgeList := do
  let e ← EdgeList.empty d.order
  d.arcs.foldlM (fun g a => g.addArc a.1 a.2) e

def buildAM (d : GDesc) : Option AdjMap :=
  d.arcs.foldlM (fun g a => g.addArc a.1 a.2) (⟨d.verts.map (fun v => (v, []))⟩ : AdjMap)

def buildW (d : GDesc) : Option AdjListW := do
  let e ← AdjListW.empty d.order
  d.warcs.foldlM (fun g a => g.addArcWeighted a.1 a.2.1 a.2.2) e

/-- `[order [vertices] [[u v] …]]` -/
def obs (order : Nat) (verts : List Nat) (arcs : List (Nat × Nat)) : V :=
  .l [V.ofNat order, V.ofNats verts, V.ofPairs arcs]

def obsW (order : Nat) (verts : List Nat) (arcs : List (Nat × Nat × Int)) : V :=
  .l [V.ofNat order, V.ofNats verts, .l (arcs.map (fun a => .l [V.ofNat a.1, V.ofNat a.2.1, .i a.2.2]))]

def obsAL (g : AdjList) : V := obs g.order g.vertices g.arcs
def obsAM (g : AdjMap) : V := obs g.order g.vertices g.arcs
def obsMX (g : AdjMatrix) : V := obs g.order g.vertices g.arcs
def obsEL (g : EdgeList) : V := obs g.order g.vertices g.arcs
def obsWL (g : AdjListW) : V := obsW g.order g.vertices g.arcsWeighted

/-- Observation of the digraph a description denotes, by representation tag. -/
def obsDesc (d : GDesc) : Option V :=
  match d.repr with
  | "al" => (buildAL d).map obsAL
  | "am" => (buildAM d).map obsAM
  | "mx" => (buildMX d).map obsMX
  | "el" => (buildEL d).map obsEL
  | "wu" | "wi" => (buildW d).map obsWL
  | _ => none

end GraafVerif.Driver
