import GraafVerif.Driver.Common
/-! Driver handlers for property C04 (ops the harness module `ops/c04.rs` emits). -/
namespace GraafVerif.Driver.H04
open GraafVerif GraafVerif.Driver

def handlers : List (String × Handler) := []

end GraafVerif.Driver.H04
