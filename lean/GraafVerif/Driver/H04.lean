import GraafVerif.Driver.Common
import GraafVerif.Model.Bfs
/-!
Driver handlers for property C04 (ops of `harness/src/ops/c04.rs`):

  bfs_iter           <desc> <sources> [shape]  =>  panic | [v …]
  bfs_dist_iter      <desc> <sources> [shape]  =>  panic | [[v w] …]
  bfs_dist_distances <desc> <sources> [shape]  =>  panic | [d …]        (`usize::MAX` printed in full)
  bfs_dist_distances_twice <desc> <sources> [shape]  =>  panic | [d …] [d …]
  bfs_iter_repoll / bfs_dist_iter_repoll <desc> <sources> <k> <extra> [shape]
                                       =>  panic | [first ≤k] [rest] [rest of a clone] [extra polls]

`[shape]` names the kind of iterator the harness hands the sources over as (exact-size `slice`,
`vec`; lazy `filter flat_map flatten from_fn take_while map_while skip_while scan`; `range_filter` =
`(0..order).filter(|u| sources.contains(u))`).  `new` only does `for u in sources`, so the model
depends on the SEQUENCE of sources alone: the same for every shape (for `range_filter` the sequence
is the ascending duplicate-free in-range one).  After `None` the queue is empty, so every further
`next` is `None`; a clone continues like the original; a second `distances()` runs over the
exhausted iterator and returns the `usize::MAX`-filled vector.

Correspondence: the model of `Model/Bfs.lean` on `GDesc.graph`.  Property oracle (only for a
buildable description and distinct in-range sources, which is what C04 speaks about): the naive
`hopDistB` / `reachSetB` of `Spec/Graph.lean` judge the IMPLEMENTATION's output.
-/
namespace GraafVerif.Driver.H04
open GraafVerif GraafVerif.Driver GraafVerif.Bfs

def usizeMax : Nat := 18446744073709551615

/-- The description can be built by the harness (`empty(n)` needs `n ≥ 1`, `add_arc` asserts
in-range distinct endpoints; `am` must have the contiguous vertex set). -/
def descOk (d : GDesc) : Bool :=
  d.order ≥ 1 && d.verts == List.range d.order &&
  d.arcs.all (fun a => a.1 < d.order && a.2 < d.order && a.1 != a.2) &&
  (d.repr != "wu" || d.warcs.all (fun a => a.2.2 ≥ 0))

def nodupB : List Nat → Bool
  | [] => true
  | x :: xs => !xs.contains x && nodupB xs

def sortedB : List Nat → Bool
  | [] => true
  | [_] => true
  | x :: y :: r => x ≤ y && sortedB (y :: r)

/-- Sources the property quantifies over. -/
def srcOk (n : Nat) (S : List Nat) : Bool := nodupB S && S.all (· < n)

def resV {α : Type} (f : α → V) : Res α → List V
  | .panic => [.a "panic"]
  | .ok a => [f a]

def shapes : List String :=
  ["slice", "vec", "filter", "flat_map", "flatten", "from_fn", "take_while", "map_while", "skip_while", "scan",
   "range_filter"]

/-- Level-synchronous hop distances on arrays (frontier lists): the search oracle for orders above
130, where the list-based `hopDistB` (order³ list steps) is too slow.  Like `hopDistB` it is
certified case by case against the proved model of `distances()` (`Ctx.oracleOk`). -/
def hopDistFast (g : Graph) (S : List Nat) : List (Option Nat) :=
  let init : Array (Option Nat) := S.foldl (fun d s => d.setIfInBounds s (some 0)) (Array.replicate g.n none)
  let rec go (fuel k : Nat) (front : List Nat) (d : Array (Option Nat)) : Array (Option Nat) :=
    match fuel with
    | 0 => d
    | fuel+1 =>
      if front.isEmpty then d else
      let r := front.foldl (fun (acc : Array (Option Nat) × List Nat) u =>
        (g.out u).foldl (fun (a : Array (Option Nat) × List Nat) v =>
          match a.1[v]? with
          | some none => (a.1.setIfInBounds v (some (k+1)), v :: a.2)
          | _ => a) acc) (d, [])
      go fuel (k+1) r.2 r.1
  (go (g.n + 1) 0 S init).toList

structure Ctx where
  d : GDesc
  g : Graph
  S : List Nat                -- the sequence of sources `new` receives
  inProp : Bool
  hd : List (Option Nat)      -- naive hop distances (only meaningful when `inProp`)
  reach : List Bool           -- naive reachable set
  oracleOk : Bool             -- the naive oracle agrees with the PROVED model on this input
  tags : List String

def mkCtx (desc srcs : V) (shape : List V) : Option Ctx := do
  let d ← GDesc.parse desc
  let S0 ← V.listOf? V.nat? srcs
  let sh ← match shape with
    | [] => some "slice"
    | [.a s] => if shapes.contains s then some s else none
    | _ => none
  let S := if sh == "range_filter" then (List.range d.order).filter (fun u => S0.contains u) else S0
  let g := d.graph
  let ok := descOk d
  let inProp := ok && srcOk d.order S
  let hd := if !inProp then [] else if d.order ≤ 130 then hopDistB g S else hopDistFast g S
  -- `reachSetB` costs order * arcs * order list steps: second opinion on small and medium orders only
  let reach := if !inProp then [] else if d.order ≤ 40 then reachSetB g S else hd.map Option.isSome
  -- `distances` of the model is proved to be the exact hop-distance vector (Thm/C04
  -- `distances_correct`), so this comparison certifies the naive oracle case by case
  let oracleOk := !inProp ||
    resV V.ofNats (distances g S usizeMax) == [V.ofNats (hd.map (fun o => o.getD usizeMax))]
  let nReach := (reach.filter id).length
  let tags := [d.repr,
    (if d.order ≤ 8 then "n1-8" else if d.order ≤ 40 then "n9-40" else if d.order ≤ 130 then "n>40" else "n>130"),
    (if S.isEmpty then "src0" else if S.length == 1 then "src1" else "src>1"),
    (if sh == "slice" || sh == "vec" then "it-exact" else if sh == "range_filter" then "it-range-filter" else "it-lazy"),
    (if !ok then "bad-desc" else if !inProp then "bad-sources"
     else if nReach == d.order then "reach-all" else if nReach ≤ S.length then "reach-only-sources" else "reach-part")]
  pure ⟨d, g, S, inProp, hd, reach, oracleOk, tags⟩

def Ctx.dist (c : Ctx) (v : Nat) : Option Nat := (c.hd[v]?).getD none

/-- A non-trivial case: some non-source vertex is reachable. -/
def Ctx.nt (c : Ctx) : Bool := c.inProp && (c.reach.filter id).length > c.S.length

/-- "each reachable vertex exactly once, no other vertex, non-decreasing hop distance". -/
def checkOrder (c : Ctx) (vs : List Nat) : Option String :=
  if !nodupB vs then some "a vertex is yielded twice"
  else if !vs.all (fun v => (c.reach[v]?).getD false) then some "an unreachable vertex is yielded"
  else if vs.length != (c.reach.filter id).length then some "a reachable vertex is not yielded"
  else if !vs.all (fun v => (c.dist v).isSome) then some "oracles disagree (reachSetB vs hopDistB)"
  else if !sortedB (vs.map (fun v => (c.dist v).getD 0)) then some "hop distances decrease along the output"
  else none

def checkDistItems (c : Ctx) (ps : List (Nat × Nat)) : Option String :=
  match checkOrder c (ps.map (·.1)) with
  | some e => some e
  | none =>
    if ps.all (fun p => c.dist p.1 == some p.2) then none
    else some "a yielded distance is not the hop distance"

/-- Descriptions the harness cannot build (never generated; the shrinker may produce them) are
outside every statement here: trivial `OK`, tagged `bad-desc`. -/
def finish (c : Ctx) (obs model : List V) (propFail : Option String) (extraTags : List String := []) : Verdict :=
  if !descOk c.d then
    { status := "OK", nontrivial := false, tags := c.tags }
  else if !c.oracleOk then
    -- machinery error, never a silent pass: the search oracle contradicts a proved computation
    bad "oracle hopDistB disagrees with the proved model of distances()"
  else
    classify obs model (if c.inProp then propFail else none) (nt := c.nt) (c.tags ++ extraTags)

def hIter : Handler := fun _ args obs =>
  match args with
  | desc :: srcs :: shape => do
    let c ← mkCtx desc srcs shape
    let model := resV V.ofNats (bfs c.g c.S)
    let pf : Option String :=
      match obs with
      | [v] => match V.listOf? V.nat? v with
        | some vs => checkOrder c vs
        | none => some "the call panicked / returned no list"
      | _ => some "malformed output"
    pure (finish c obs model pf)
  | _ => none

def hDistIter : Handler := fun _ args obs =>
  match args with
  | desc :: srcs :: shape => do
    let c ← mkCtx desc srcs shape
    let model := resV V.ofPairs (bfsDist c.g c.S)
    let pf : Option String :=
      match obs with
      | [v] => match V.listOf? (V.pair? V.nat? V.nat?) v with
        | some ps => checkDistItems c ps
        | none => some "the call panicked / returned no list"
      | _ => some "malformed output"
    pure (finish c obs model pf)
  | _ => none

def hDistances : Handler := fun _ args obs =>
  match args with
  | desc :: srcs :: shape => do
    let c ← mkCtx desc srcs shape
    let model := resV V.ofNats (distances c.g c.S usizeMax)
    let want : List V := [V.ofNats (c.hd.map (fun o => o.getD usizeMax))]
    let pf : Option String :=
      if obs == want then none else some s!"hop-distance vector should be {want}"
    pure (finish c obs model pf)
  | _ => none

/-- Two calls on the same object: the first is the property's `distances()`; the second runs over
the exhausted iterator (correspondence only: the property speaks about a fresh traversal). -/
def hDistancesTwice : Handler := fun _ args obs =>
  match args with
  | desc :: srcs :: shape => do
    let c ← mkCtx desc srcs shape
    let model := match distances c.g c.S usizeMax with
      | .panic => [V.a "panic"]
      | .ok d => [V.ofNats d, V.ofNats (List.replicate c.g.n usizeMax)]
    let want : V := V.ofNats (c.hd.map (fun o => o.getD usizeMax))
    let pf : Option String :=
      match obs with
      | [a, _] => if a == want then none else some s!"first distances() should be {want}"
      | _ => some "the call panicked / returned no two vectors"
    pure (finish c obs model pf)
  | _ => none

/-- Model of the re-polling protocol from the full item list of the run. -/
def repollModel {α : Type} (f : α → V) (r : Res (List α)) (k extra : Nat) : List V :=
  match r with
  | .panic => [.a "panic"]
  | .ok l =>
    let rest := V.l ((l.drop k).map f)
    [V.l ((l.take k).map f), rest, rest, V.l (List.replicate extra (.a "none"))]

/-- Everything the original iterator yielded, in poll order (items polled after `None` included). -/
def repollAll {α : Type} (p : V → Option α) (obs : List V) : Option (List α × Bool) :=
  match obs with
  | [a, b, _, .l late] => do
    let xs ← V.listOf? p a
    let ys ← V.listOf? p b
    let zs ← (late.filter (fun v => !(v == V.a "none"))).mapM p
    pure (xs ++ ys ++ zs, !zs.isEmpty)
  | _ => none

def hIterRepoll : Handler := fun _ args obs =>
  match args with
  | desc :: srcs :: k :: extra :: shape => do
    let c ← mkCtx desc srcs shape
    let k ← V.nat? k
    let extra ← V.nat? extra
    let model := repollModel V.ofNat (bfs c.g c.S) k extra
    let pf : Option String :=
      match repollAll V.nat? obs with
      | some (vs, _) => checkOrder c vs
      | none => some "the call panicked / malformed output"
    pure (finish c obs model pf ["repoll"])
  | _ => none

def hDistRepoll : Handler := fun _ args obs =>
  match args with
  | desc :: srcs :: k :: extra :: shape => do
    let c ← mkCtx desc srcs shape
    let k ← V.nat? k
    let extra ← V.nat? extra
    let model := repollModel V.ofPair (bfsDist c.g c.S) k extra
    let pf : Option String :=
      match repollAll (V.pair? V.nat? V.nat?) obs with
      | some (ps, _) => checkDistItems c ps
      | none => some "the call panicked / malformed output"
    pure (finish c obs model pf ["repoll"])
  | _ => none

def handlers : List (String × Handler) :=
  [("bfs_iter", hIter), ("bfs_dist_iter", hDistIter), ("bfs_dist_distances", hDistances),
   ("bfs_dist_distances_twice", hDistancesTwice), ("bfs_iter_repoll", hIterRepoll),
   ("bfs_dist_iter_repoll", hDistRepoll)]

end GraafVerif.Driver.H04
