import GraafVerif.Driver.Common
import GraafVerif.Model.Bfs
/-!
Driver handlers for property C04 (ops of `harness/src/ops/c04.rs`):

  bfs_iter           <desc> <sources>  =>  panic | [v …]
  bfs_dist_iter      <desc> <sources>  =>  panic | [[v w] …]
  bfs_dist_distances <desc> <sources>  =>  panic | [d …]        (`usize::MAX` printed in full)

Correspondence: the model of `Model/Bfs.lean` on `GDesc.graph`.  Property oracle (only for a
buildable description and distinct in-range sources, which is what C04 speaks about): the naive
`hopDistB` / `reachSetB` of `Spec/Graph.lean` judge the IMPLEMENTATION's output.
-/
namespace GraafVerif.Driver.H04
open GraafVerif GraafVerif.Driver GraafVerif.Bfs

def usizeMax : Nat := 18446744073709551615

/-- The description can be built by the harness (`empty(n)` needs `n ≥ 1`, `add_arc` asserts
in-range distinct endpoints; `am` must have the contiguous vertex set). -/
def descOk (d : GDesc) : Bool :=
  d.order ≥ 1 && d.verts == List.range d.order &&
  d.arcs.all (fun a => a.1 < d.order && a.2 < d.order && a.1 != a.2) &&
  (d.repr != "wu" || d.warcs.all (fun a => a.2.2 ≥ 0))

def nodupB : List Nat → Bool
  | [] => true
  | x :: xs => !xs.contains x && nodupB xs

def sortedB : List Nat → Bool
  | [] => true
  | [_] => true
  | x :: y :: r => x ≤ y && sortedB (y :: r)

/-- Sources the property quantifies over. -/
def srcOk (n : Nat) (S : List Nat) : Bool := nodupB S && S.all (· < n)

def resV {α : Type} (f : α → V) : Res α → List V
  | .panic => [.a "panic"]
  | .ok a => [f a]

structure Ctx where
  d : GDesc
  g : Graph
  S : List Nat
  inProp : Bool
  hd : List (Option Nat)      -- naive hop distances (only meaningful when `inProp`)
  reach : List Bool           -- naive reachable set
  oracleOk : Bool             -- the naive oracle agrees with the PROVED model on this input
  tags : List String

def mkCtx (desc srcs : V) : Option Ctx := do
  let d ← GDesc.parse desc
  let S ← V.listOf? V.nat? srcs
  let g := d.graph
  let ok := descOk d
  let inProp := ok && srcOk d.order S
  let hd := if inProp then hopDistB g S else []
  -- `reachSetB` costs order * arcs * order list steps: second opinion on small and medium orders only
  let reach := if !inProp then [] else if d.order ≤ 40 then reachSetB g S else hd.map Option.isSome
  -- `distances` of the model is proved to be the exact hop-distance vector (Thm/C04
  -- `distances_correct`), so this comparison certifies the naive oracle case by case
  let oracleOk := !inProp ||
    resV V.ofNats (distances g S usizeMax) == [V.ofNats (hd.map (fun o => o.getD usizeMax))]
  let nReach := (reach.filter id).length
  let tags := [d.repr, (if d.order ≤ 8 then "n1-8" else if d.order ≤ 40 then "n9-40" else "n>40"),
    (if S.isEmpty then "src0" else if S.length == 1 then "src1" else "src>1"),
    (if !ok then "bad-desc" else if !inProp then "bad-sources"
     else if nReach == d.order then "reach-all" else if nReach ≤ S.length then "reach-only-sources" else "reach-part")]
  pure ⟨d, g, S, inProp, hd, reach, oracleOk, tags⟩

def Ctx.dist (c : Ctx) (v : Nat) : Option Nat := (c.hd[v]?).getD none

/-- A non-trivial case: some non-source vertex is reachable. -/
def Ctx.nt (c : Ctx) : Bool := c.inProp && (c.reach.filter id).length > c.S.length

/-- "each reachable vertex exactly once, no other vertex, non-decreasing hop distance". -/
def checkOrder (c : Ctx) (vs : List Nat) : Option String :=
  if !nodupB vs then some "a vertex is yielded twice"
  else if !vs.all (fun v => (c.reach[v]?).getD false) then some "an unreachable vertex is yielded"
  else if vs.length != (c.reach.filter id).length then some "a reachable vertex is not yielded"
  else if !vs.all (fun v => (c.dist v).isSome) then some "oracles disagree (reachSetB vs hopDistB)"
  else if !sortedB (vs.map (fun v => (c.dist v).getD 0)) then some "hop distances decrease along the output"
  else none

/-- Descriptions the harness cannot build (never generated; the shrinker may produce them) are
outside every statement here: trivial `OK`, tagged `bad-desc`. -/
def finish (c : Ctx) (obs model : List V) (propFail : Option String) : Verdict :=
  if !descOk c.d then
    { status := "OK", nontrivial := false, tags := c.tags }
  else if !c.oracleOk then
    -- machinery error, never a silent pass: the search oracle contradicts a proved computation
    bad "oracle hopDistB disagrees with the proved model of distances()"
  else
    classify obs model (if c.inProp then propFail else none) (nt := c.nt) c.tags

def hIter : Handler := fun _ args obs =>
  match args with
  | [desc, srcs] => do
    let c ← mkCtx desc srcs
    let model := resV V.ofNats (bfs c.g c.S)
    let pf : Option String :=
      match obs with
      | [v] => match V.listOf? V.nat? v with
        | some vs => checkOrder c vs
        | none => some "the call panicked / returned no list"
      | _ => some "malformed output"
    pure (finish c obs model pf)
  | _ => none

def hDistIter : Handler := fun _ args obs =>
  match args with
  | [desc, srcs] => do
    let c ← mkCtx desc srcs
    let model := resV V.ofPairs (bfsDist c.g c.S)
    let pf : Option String :=
      match obs with
      | [v] => match V.listOf? (V.pair? V.nat? V.nat?) v with
        | some ps =>
          match checkOrder c (ps.map (·.1)) with
          | some e => some e
          | none =>
            if ps.all (fun p => c.dist p.1 == some p.2) then none
            else some "a yielded distance is not the hop distance"
        | none => some "the call panicked / returned no list"
      | _ => some "malformed output"
    pure (finish c obs model pf)
  | _ => none

def hDistances : Handler := fun _ args obs =>
  match args with
  | [desc, srcs] => do
    let c ← mkCtx desc srcs
    let model := resV V.ofNats (distances c.g c.S usizeMax)
    let want : List V := [V.ofNats (c.hd.map (fun o => o.getD usizeMax))]
    let pf : Option String :=
      if obs == want then none else some s!"hop-distance vector should be {want}"
    pure (finish c obs model pf)
  | _ => none

def handlers : List (String × Handler) :=
  [("bfs_iter", hIter), ("bfs_dist_iter", hDistIter), ("bfs_dist_distances", hDistances)]

end GraafVerif.Driver.H04
