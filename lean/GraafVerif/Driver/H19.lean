import GraafVerif.Driver.Common
import GraafVerif.Model.PredTree
/-! Driver handlers for C19: `pt_search_by pred s tgt`, `pt_search pred s t`,
`pt_big len dflt [[i e]…] s tgt` (long vector in a compact description; `[eq t]` = `search`).
Predicates: `[eq t] [in [..]] [predeq x] prednone always never [reach2 pred2 t]` (the last one
runs the model's `search` on a second vector: a pure function of the vertex). -/
namespace GraafVerif.Driver.H19
open GraafVerif GraafVerif.Driver GraafVerif.PredTree

/-- Target predicates of the protocol. -/
def parseTgt : V → Option (Nat → Option Nat → Bool)
  | .l [.a "eq", t] => do let t ← V.nat? t; pure (fun v _ => v == t)
  | .l [.a "in", ts] => do let ts ← V.listOf? V.nat? ts; pure (fun v _ => ts.contains v)
  | .l [.a "predeq", x] => do let x ← V.nat? x; pure (fun _ p => p == some x)
  | .a "prednone" => some (fun _ p => p.isNone)
  | .a "always" => some (fun _ _ => true)
  | .a "never" => some (fun _ _ => false)
  | .l [.a "reach2", pred2, t] => do
    let pred2 ← V.listOf? (V.opt? V.nat?) pred2
    let t ← V.nat? t
    pure (fun v _ => decide (v < pred2.length) &&
      (match search pred2 v t with
       | .ret (some _) => true
       | _ => false))
  | _ => none

def resToV : Res → List V
  | .panic => [.a "panic"]
  | .ret none => [.a "none"]
  | .ret (some p) => [V.ofNats p]

/-- Spec oracle (independent of the model's loop): follow the chain for at most `len + 1`
links and return the prefix up to the first target. -/
def oracle (pred : Pred) (s : Nat) (isT : Nat → Option Nat → Bool) : Option (List Nat) :=
  let rec go (fuel : Nat) (x : Nat) (acc : List Nat) : Option (List Nat) :=
    match fuel with
    | 0 => none
    | fuel+1 =>
      if target pred isT x then some (acc ++ [x]).reverse.reverse
      else match (pred[x]?).getD none with
        | none => none
        | some y => go fuel y (acc ++ [x])
  go (pred.length + 2) s []

def inRange (pred : Pred) : Bool := pred.all (fun e => match e with | none => true | some v => v < pred.length)

def run (pred : Pred) (s : Nat) (isT : Nat → Option Nat → Bool) (observed : List V) : Verdict :=
  let model := resToV (searchBy pred s isT)
  let applicable := inRange pred && s < pred.length
  let propFail : Option String :=
    if applicable then
      let want := resToV (.ret (oracle pred s isT))
      if observed == want then none else some s!"spec-says {want}"
    else none
  -- the start has a predecessor (chain position 1 exists)
  let hasLink := ((pred[s]?).getD none).isSome
  -- shape of the chain from `s`: ends in `none` within `len` links, or runs into a cycle
  let cyclic := (chain pred s pred.length).isSome
  let selfRef := (pred[s]?).getD none == some s
  let outcome :=
    match observed with
    | [V.l [_]] => "hit-at-start"
    | [V.l _] => "hit-later"
    | [V.a "panic"] => "res-panic"
    | _ => if cyclic then "miss-cycle" else "miss-chain-ends"
  let tags := [ if applicable then "in-range" else "out-of-range",
                outcome,
                if cyclic then (if selfRef then "start-self-ref" else "cyclic") else "acyclic",
                if pred.length ≤ 2 then "len1-2" else if pred.length ≤ 5 then "len3-5"
                else if pred.length ≤ 32 then "len6-32" else "len33+" ]
  classify observed model propFail (nt := pred.length ≥ 2 && hasLink) tags

def hSearchBy : Handler := fun _ args obs =>
  match args with
  | [pred, s, tgt] => do
    let pred ← V.listOf? (V.opt? V.nat?) pred
    let s ← V.nat? s
    let isT ← parseTgt tgt
    let v := run pred s isT obs
    let kind := match tgt with
      | .l (.a k :: _) => k
      | .a k => k
      | _ => "?"
    pure { v with tags := v.tags ++ ["tgt-" ++ kind] }
  | _ => none

def hSearch : Handler := fun _ args obs =>
  match args with
  | [pred, s, t] => do
    let pred ← V.listOf? (V.opt? V.nat?) pred
    let s ← V.nat? s
    let t ← V.nat? t
    let v := run pred s (fun v _ => v == t) obs
    -- `search` must also literally be the model's `search`
    if resToV (search pred s t) == resToV (searchBy pred s (fun v _ => v == t)) then pure v else none
  | _ => none

/-! ## long vectors (round 2b) -/

/-- Expand the compact description. -/
def buildBig (len : Nat) (dflt : V) (exc : List (Nat × Option Nat)) : Option (Array (Option Nat)) := do
  let base : Array (Option Nat) ←
    match dflt with
    | .a "none" => some (Array.replicate len none)
    | .a "self" => some ((Array.range len).map some)
    | .a "next" => some ((Array.range len).map (fun i => if i + 1 < len then some (i + 1) else none))
    | .a "prev" => some ((Array.range len).map (fun i => if i = 0 then none else some (i - 1)))
    | v => (V.nat? v).map (fun d => Array.replicate len (some d))
  exc.foldlM (fun a e => if e.1 < a.size then some (a.set! e.1 e.2) else none) base

/-- Array twin of the spec oracle: follow the chain (O(1) per link), stop at the first target,
at the end of the chain, or after `len + 2` links. Returns the path and the number of links. -/
def oracleArr (pred : Array (Option Nat)) (s : Nat) (isT : Nat → Option Nat → Bool) : Option (List Nat) :=
  let rec go (fuel : Nat) (x : Nat) (acc : List Nat) : Option (List Nat) :=
    match fuel with
    | 0 => none
    | fuel+1 =>
      let e := (pred[x]?).getD none
      if isT x e then some (x :: acc).reverse
      else match e with
        | none => none
        | some y => go fuel y (x :: acc)
  go (pred.size + 2) s []

def hBig : Handler := fun _ args obs =>
  match args with
  | [len, dflt, exc, s, tgt] => do
    let len ← V.nat? len
    let exc ← V.listOf? (V.pair? V.nat? (V.opt? V.nat?)) exc
    let s ← V.nat? s
    let isT ← parseTgt tgt
    if len > 1048576 then none
    else
      let arr ← buildBig len dflt exc
      let pred : Pred := arr.toList
      let applicable := arr.all (fun e => match e with | none => true | some v => v < len) && s < len
      let model := resToV (searchBy pred s isT)
      let want := resToV (.ret (oracleArr arr s isT))
      let propFail : Option String :=
        if applicable then (if obs == want then none else some s!"spec-says {want}") else none
      -- does the chain (up to the first target) step onto one of the top `len % 64` ids?
      let visitedIds : List Nat :=
        match oracleArr arr s isT with
        | some p => p
        | none => (match oracleArr arr s (fun _ e => e.isNone) with | some p => p | none => [])
      let word0 := (len / 64) * 64
      let steppedTop := (visitedIds.drop 1).any (fun x => x ≥ word0)
      let outcome :=
        match obs with
        | [V.l [_]] => "hit-at-start"
        | [V.l _] => "hit-later"
        | [V.a "panic"] => "res-panic"
        | _ => "miss"
      let tags := [ if applicable then "in-range" else "out-of-range", "big", outcome,
                    if len > 4096 then (if len % 64 == 0 then "len>4096-mult64" else "len>4096") else "len<=4096",
                    if steppedTop then "steps-on-top-ids" else "no-top-id" ]
      pure (classify obs model propFail (nt := true) tags)
  | _ => none

def handlers : List (String × Handler) :=
  [("pt_search_by", hSearchBy), ("pt_search", hSearch), ("pt_big", hBig)]

end GraafVerif.Driver.H19
