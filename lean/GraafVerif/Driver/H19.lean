import GraafVerif.Driver.Common
import GraafVerif.Model.PredTree
/-! Driver handlers for C19: `pt_search_by pred s tgt`, `pt_search pred s t`. -/
namespace GraafVerif.Driver.H19
open GraafVerif GraafVerif.Driver GraafVerif.PredTree

/-- Target predicates of the protocol. -/
def parseTgt : V → Option (Nat → Option Nat → Bool)
  | .l [.a "eq", t] => do let t ← V.nat? t; pure (fun v _ => v == t)
  | .l [.a "in", ts] => do let ts ← V.listOf? V.nat? ts; pure (fun v _ => ts.contains v)
  | .l [.a "predeq", x] => do let x ← V.nat? x; pure (fun _ p => p == some x)
  | .a "prednone" => some (fun _ p => p.isNone)
  | .a "always" => some (fun _ _ => true)
  | .a "never" => some (fun _ _ => false)
  | _ => none

def resToV : Res → List V
  | .panic => [.a "panic"]
  | .ret none => [.a "none"]
  | .ret (some p) => [V.ofNats p]

/-- Spec oracle (independent of the model's loop): follow the chain for at most `len + 1`
links and return the prefix up to the first target. -/
def oracle (pred : Pred) (s : Nat) (isT : Nat → Option Nat → Bool) : Option (List Nat) :=
  let rec go (fuel : Nat) (x : Nat) (acc : List Nat) : Option (List Nat) :=
    match fuel with
    | 0 => none
    | fuel+1 =>
      if target pred isT x then some (acc ++ [x]).reverse.reverse
      else match (pred[x]?).getD none with
        | none => none
        | some y => go fuel y (acc ++ [x])
  go (pred.length + 2) s []

def inRange (pred : Pred) : Bool := pred.all (fun e => match e with | none => true | some v => v < pred.length)

def run (pred : Pred) (s : Nat) (isT : Nat → Option Nat → Bool) (observed : List V) : Verdict :=
  let model := resToV (searchBy pred s isT)
  let applicable := inRange pred && s < pred.length
  let propFail : Option String :=
    if applicable then
      let want := resToV (.ret (oracle pred s isT))
      if observed == want then none else some s!"spec-says {want}"
    else none
  -- the start has a predecessor (chain position 1 exists)
  let hasLink := ((pred[s]?).getD none).isSome
  -- shape of the chain from `s`: ends in `none` within `len` links, or runs into a cycle
  let cyclic := (chain pred s pred.length).isSome
  let selfRef := (pred[s]?).getD none == some s
  let outcome :=
    match observed with
    | [V.l [_]] => "hit-at-start"
    | [V.l _] => "hit-later"
    | [V.a "panic"] => "res-panic"
    | _ => if cyclic then "miss-cycle" else "miss-chain-ends"
  let tags := [ if applicable then "in-range" else "out-of-range",
                outcome,
                if cyclic then (if selfRef then "start-self-ref" else "cyclic") else "acyclic",
                if pred.length ≤ 2 then "len1-2" else if pred.length ≤ 5 then "len3-5"
                else if pred.length ≤ 32 then "len6-32" else "len33+" ]
  classify observed model propFail (nt := pred.length ≥ 2 && hasLink) tags

def hSearchBy : Handler := fun _ args obs =>
  match args with
  | [pred, s, tgt] => do
    let pred ← V.listOf? (V.opt? V.nat?) pred
    let s ← V.nat? s
    let isT ← parseTgt tgt
    pure (run pred s isT obs)
  | _ => none

def hSearch : Handler := fun _ args obs =>
  match args with
  | [pred, s, t] => do
    let pred ← V.listOf? (V.opt? V.nat?) pred
    let s ← V.nat? s
    let t ← V.nat? t
    let v := run pred s (fun v _ => v == t) obs
    -- `search` must also literally be the model's `search`
    if resToV (search pred s t) == resToV (searchBy pred s (fun v _ => v == t)) then pure v else none
  | _ => none

def handlers : List (String × Handler) := [("pt_search_by", hSearchBy), ("pt_search", hSearch)]

end GraafVerif.Driver.H19
