import GraafVerif.Driver.Common
/-! Driver handlers for property C17 (ops the harness module `ops/c17.rs` emits). -/
namespace GraafVerif.Driver.H17
open GraafVerif GraafVerif.Driver

def handlers : List (String × Handler) := []

end GraafVerif.Driver.H17
