import GraafVerif.Data.Value
import GraafVerif.Spec.Graph
/-!
# Driver protocol

The driver reads case lines `op arg* => out*` (produced by `gharness eval`, i.e. `out*` is what
the REAL code returned) and answers one verdict line per case:

  STATUS nt tags detail…

* `OK`        the model recomputed the same output and the property oracle accepts the
              implementation's output;
* `MISMATCH`  model output ≠ implementation output (detail = model output) — the
              correspondence is broken on this input, the property itself was not refuted;
* `PROPFAIL`  the property oracle rejects the IMPLEMENTATION's output (detail = reason) —
              a concrete failing input of the property;
* `KNOWN`     as PROPFAIL, but the failure carries the mechanical signature of a recorded
              known finding (first word of detail = class name);
* `BADLINE`   the line could not be parsed / op unknown (always an error of the machinery).

`nt` is 1 when the case is non-trivial by the handler's rule, `tags` is a comma separated
list used for the input-distribution histogram in the evidence (`-` when empty).
-/
namespace GraafVerif.Driver
open GraafVerif

structure Verdict where
  status : String
  nontrivial : Bool := true
  tags : List String := []
  detail : String := ""

def Verdict.render (v : Verdict) : String :=
  let tags := if v.tags.isEmpty then "-" else ",".intercalate v.tags
  s!"{v.status} {if v.nontrivial then 1 else 0} {tags} {v.detail}"

/-- `handler t args observed`: `t` = thread count the harness observed (`@t` line). -/
abbrev Handler := Nat → List V → List V → Option Verdict

def bad (msg : String) : Verdict := { status := "BADLINE", nontrivial := false, detail := msg }

/-- Standard classification.  `propFail` (about the implementation's output) wins over a
model disagreement, so that a real violation is always reported with its input. -/
def classify (observed model : List V) (propFail : Option String)
    (nt : Bool := true) (tags : List String := []) : Verdict :=
  match propFail with
  | some why => { status := "PROPFAIL", nontrivial := nt, tags := tags, detail := why }
  | none =>
    if observed == model then { status := "OK", nontrivial := nt, tags := tags }
    else { status := "MISMATCH", nontrivial := nt, tags := tags,
           detail := " ".intercalate (model.map toString) }

def known (cls why : String) (nt : Bool := true) (tags : List String := []) : Verdict :=
  { status := "KNOWN", nontrivial := nt, tags := tags, detail := cls ++ " " ++ why }

/-! ## Digraph descriptions shared by all handlers

`[al n arcs] [mx n arcs] [el n arcs]` order + arc list;  `[am verts arcs]` vertex list + arcs;
`[wu n warcs] [wi n warcs]` weighted (`[u v w]`).  The harness builds the real structure from
exactly this description (empty / `From<rows>` + `add_arc`). -/

structure GDesc where
  repr : String
  verts : List Nat
  order : Nat
  arcs : List (Nat × Nat)
  warcs : List (Nat × Nat × Int)

def GDesc.parse : V → Option GDesc
  | .l [.a r, x, arcs] =>
    if r == "am" then do
      let vs0 ← V.listOf? V.nat? x
      let as ← V.listOf? (V.pair? V.nat? V.nat?) arcs
      -- canonical vertex set: ascending, duplicate-free, endpoints admitted (as `add_arc` does)
      let vs := (vs0 ++ as.flatMap (fun a => [a.1, a.2])).foldl (fun acc v => insertAsc v acc) []
      pure ⟨r, vs, vs.length, as, as.map (fun a => (a.1, a.2, 1))⟩
    else if r == "al" || r == "mx" || r == "el" then do
      let n ← V.nat? x
      let as ← V.listOf? (V.pair? V.nat? V.nat?) arcs
      pure ⟨r, List.range n, n, as, as.map (fun a => (a.1, a.2, 1))⟩
    else if r == "wu" || r == "wi" then do
      let n ← V.nat? x
      let ws ← V.listOf? (V.triple? V.nat? V.nat? V.int?) arcs
      pure ⟨r, List.range n, n, ws.map (fun a => (a.1, a.2.1)), ws⟩
    else none
  | _ => none

/-- Contiguous descriptions as a `Graph` (rows ascending, duplicates collapsed). -/
def GDesc.graph (d : GDesc) : Graph := Graph.ofRows (rowsOfArcs d.order d.arcs)
def GDesc.wgraph (d : GDesc) : WGraph := WGraph.ofRows (wrowsOfArcs d.order d.warcs)

def sizeTag (n : Nat) : String :=
  if n ≤ 1 then "n<=1" else if n ≤ 8 then "n2-8" else if n ≤ 40 then "n9-40" else "n>40"

end GraafVerif.Driver
