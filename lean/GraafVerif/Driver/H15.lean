import GraafVerif.Driver.Common
import GraafVerif.Driver.ReprDesc
import GraafVerif.Model.Rand
/-!
Driver handlers for C15:

  rand_tournament <repr> <order> <seed>                  =>  <obs|panic> <repeat>
  rand_rrt        <repr> <order> <seed>                  =>  <obs|panic> <repeat>
  rand_er         <repr> <order> <pbits> <qbits> <seed>  =>  <obs|panic> <repeat>
  rand_f64        <seed> <k>                             =>  [bits …]
  rand_u64        <seed> <k>                             =>  [u64 …]

Correspondence: the generators of `Model/Rand.lean` run on the bit-exact xoshiro256** stream
(worker `k` of the map variants on the stream of `seed + k`, with the thread count `t` the harness saw).
Property oracle (on the IMPLEMENTATION's observation, by an arc-count matrix, independent of the
model): the validity predicates of the property text, `repeat = true`, `next_f64 ∈ [0,1)`.
-/
namespace GraafVerif.Driver.H15
open GraafVerif GraafVerif.Driver GraafVerif.Rand GraafVerif.Repr

def seed? (v : V) : Option UInt64 := do
  let n ← V.nat? v
  if n < 2^64 then some (UInt64.ofNat n) else none

/-- First `k` draws of the workers `0 .. w-1` (`seed + id`, wrapping), materialised.
(The arrays are `let`-bound in the handlers and captured by the stream closures: a `def` returning
a function would recompute them on every draw.) -/
def workerDraws (seed : UInt64) (k w : Nat) : Array (Array UInt64) :=
  ((List.range w).map fun i => xoTake (seed + UInt64.ofNat i) k).toArray

def streamsOfArrays (arrs : Array (Array UInt64)) : Nat → Stream :=
  fun i => streamOfArray (arrs.getD i #[])

structure Obs where
  order : Nat
  verts : List Nat
  arcs : List (Nat × Nat)

def parseObs : V → Option Obs
  | .l [n, vs, as] => do
    pure ⟨← V.nat? n, ← V.listOf? V.nat? vs, ← V.listOf? (V.pair? V.nat? V.nat?) as⟩
  | _ => none

/-- `m[u*n+v]` = how often the arc `u→v` was observed; `none` = some endpoint is not in `0..n`. -/
def countMatrix (n : Nat) (arcs : List (Nat × Nat)) : Option (Array Nat) :=
  arcs.foldlM (fun m a => if a.1 < n && a.2 < n then some (m.modify (a.1 * n + a.2) (· + 1)) else none)
    (Array.replicate (n * n) 0)

def cnt (m : Array Nat) (n u v : Nat) : Nat := m.getD (u * n + v) 0

/-- order, vertex set `0..n`, arcs inside the vertex set; then `k` on the count matrix. -/
def shape (n : Nat) (o : Obs) (k : Array Nat → Option String) : Option String :=
  if o.order != n then some s!"order {o.order} != {n}"
  else if o.verts != List.range n then some "vertex set is not 0..order"
  else match countMatrix n o.arcs with
    | none => some "arc endpoint outside 0..order"
    | some m => k m

def firstFail (xs : List Nat) (f : Nat → Option String) : Option String := xs.findSome? f

/-- exactly one arc between every pair of distinct vertices, no self-loop -/
def tournamentOracle (n : Nat) (o : Obs) : Option String :=
  shape n o fun m => firstFail (List.range n) fun u => firstFail (List.range n) fun v =>
    if u = v then (if cnt m n u u != 0 then some s!"self-loop at {u}" else none)
    else if u < v && cnt m n u v + cnt m n v u != 1 then
      some s!"pair {u},{v}: {cnt m n u v} arc(s) {u}->{v}, {cnt m n v u} arc(s) {v}->{u}"
    else none

/-- vertex 0 has no out-arc, every `u ≥ 1` exactly one, to a smaller vertex -/
def rrtOracle (n : Nat) (o : Obs) : Option String :=
  shape n o fun m => firstFail (List.range n) fun u =>
    let row := (List.range n).map (cnt m n u)
    if u = 0 then (if row.sum != 0 then some "vertex 0 has an out-arc" else none)
    else if row.sum != 1 then some s!"vertex {u} has {row.sum} out-arcs"
    else if ((List.range u).map (cnt m n u)).sum != 1 then some s!"vertex {u}: out-arc to a vertex >= {u}"
    else none

/-- no self-loop, no arc twice; `p = 0` ⇒ no arcs, `p = 1` ⇒ all arcs -/
def erOracle (n : Nat) (p : F64) (o : Obs) : Option String :=
  shape n o fun m => firstFail (List.range n) fun u => firstFail (List.range n) fun v =>
    let c := cnt m n u v
    if u = v then (if c != 0 then some s!"self-loop at {u}" else none)
    else if c > 1 then some s!"arc {u}->{v} listed {c} times"
    else if p == F64.zero && c != 0 then some s!"p = 0 but arc {u}->{v}"
    else if p == F64.one && c != 1 then some s!"p = 1 but no arc {u}->{v}"
    else none

def seedTag (s : UInt64) : String :=
  if s == 0 then "seed0" else if s == 1 then "seed1" else if s.toNat + 17 ≥ 2^64 then "seed-wrap" else "seed-any"

/-- is the FIRST draw of the seed's PRNG extreme (0, all ones, low 52 bits all zero / all one, or a
`next_f64` value that is a dyadic `p` used by the generator: 1/2, 1/4, 3/4, 1/8, one ulp)? -/
def drawTag (seed : UInt64) : String :=
  let w := (xoTake seed 1).getD 0 0
  let m := mant w
  if w == 0 || w.toNat == 2^64 - 1 || m == 0 || m == 2^52 - 1 || m == 2^51 || m == 2^50 || m == 3 * 2^50 ||
     m == 2^49 || m == 1 || m == 2^51 - 1 || m == 2^51 + 1 || w.toNat == 2^64 - 2
  then "draw1-extreme" else "draw1-any"

/-- how the rows are split over the workers (map variants): one row per worker (`n ≤ t`), all
chunks full, last chunk short, or the loop `break`s before `t` workers were spawned -/
def threadTag (n t : Nat) : String :=
  let w := min n t
  let rs := Par.ranges n w
  if n ≤ t then "chunk=1"
  else if rs.length < w then "fewer-workers"
  else if n % w = 0 then "full-chunks" else "short-last"

def optObs {α : Type} (f : α → V) : Option α → V
  | some g => f g
  | none => .a "panic"

/-- Common tail: model output vs observation, oracle, repeat flag. -/
def finish (n : Nat) (observed : List V) (modelObs : V) (seqAgree : Bool)
    (mustPanic : Bool) (oracle : Obs → Option String) (tags : List String) : Option Verdict :=
  match observed with
  | [o, rep] => do
    let rep ← V.bool? rep
    let isPanic := o == V.a "panic"
    let pf : Option String ←
      if n = 0 then pure none                                   -- outside the property
      else if !rep then pure (some "second call with equal arguments returned a different result")
      else if mustPanic then pure (if isPanic then none else some "no panic for p outside [0,1]")
      else if isPanic then pure (some "panic on an input the property covers")
      else do
        let ob ← parseObs o
        pure (oracle ob)
    let tags := tags ++ [sizeTag n, if isPanic then "panic" else "returned"]
    let v := classify observed [modelObs, V.ofBool true] pf (nt := n ≥ 2) tags
    if v.status == "OK" && !seqAgree then
      pure { v with status := "MISMATCH", detail := "models of the sequential representations disagree" }
    else pure v
  | _ => none

def allEq (xs : List V) : Bool :=
  match xs with
  | [] => true
  | x :: rest => rest.all (· == x)

/-- Above this order the (list based, quadratic) tournament model is not run: the verdict is the
property oracle on the implementation's output alone (tag `oracle-only`; stress-tier orders 768+). -/
def modelLimit : Nat := 300

def hTournament : Handler := fun t args obs =>
  match args with
  | [.a repr, n, seed] => do
    let n ← V.nat? n
    let seed ← seed? seed
    let tags := ["tournament", repr, seedTag seed, drawTag seed]
    if n > modelLimit then
      let o ← obs.head?
      let tt := if repr == "am" then [threadTag n t] else []
      finish n obs o true false (tournamentOracle n) (tags ++ tt ++ ["oracle-only"])
    else
    let draws := xoTake seed (n * n)
    let s := streamOfArray draws
    let al := optObs obsAL (tournamentAL s n)
    match repr with
    | "am" =>
      let w := min n t
      let wd := workerDraws seed (n * n) w
      let m := optObs obsAM (tournamentAM (streamsOfArrays wd) n t)
      finish n obs m (w != 1 || m == al) false (tournamentOracle n) (tags ++ [threadTag n t])
    -- the sequential representations consume the stream identically: `mx`/`el` lines also check
    -- that their model agrees with the `al` model
    | "al" => finish n obs al true false (tournamentOracle n) tags
    | "mx" =>
      let m := optObs obsMX (tournamentMX s n)
      finish n obs m (m == al) false (tournamentOracle n) tags
    | "el" =>
      let m := optObs obsEL (tournamentEL s n)
      finish n obs m (m == al) false (tournamentOracle n) tags
    | _ => none
  | _ => none

def hRrt : Handler := fun _ args obs =>
  match args with
  | [.a repr, n, seed] => do
    let n ← V.nat? n
    let seed ← seed? seed
    let draws := xoTake seed n
    let s := streamOfArray draws
    let tags := ["rrt", repr, seedTag seed, drawTag seed]
    if n > modelLimit then
      -- large orders (stress tier): only the requested model; the matrix model's observation is
      -- quadratic in the block count, so `mx` is judged by the oracle alone
      let m ← match repr with
        | "al" => some (optObs obsAL (rrtAL s n)) | "am" => some (optObs obsAM (rrtAM s n))
        | "el" => some (optObs obsEL (rrtEL s n)) | "mx" => obs.head? | _ => none
      finish n obs m true false (rrtOracle n) (tags ++ (if repr == "mx" then ["oracle-only"] else []))
    else
    let al := optObs obsAL (rrtAL s n)
    let am := optObs obsAM (rrtAM s n)
    let mx := optObs obsMX (rrtMX s n)
    let el := optObs obsEL (rrtEL s n)
    let m ← match repr with
      | "al" => some al | "am" => some am | "mx" => some mx | "el" => some el | _ => none
    finish n obs m (allEq [al, am, mx, el]) false (rrtOracle n) tags
  | _ => none

def pTag (p : F64) : String :=
  if !p.inUnit then "p-out" else if p == F64.zero then "p=0" else if p == F64.one then "p=1"
  else if p.gtHalf then "p>.5" else "p<=.5"

def hEr : Handler := fun t args obs =>
  match args with
  | [.a repr, n, pbits, qbits, seed] => do
    let n ← V.nat? n
    let seed ← seed? seed
    let p := F64.ofBits (← seed? pbits)
    let q := F64.ofBits (← seed? qbits)
    -- trusted IEEE fact, checked on every case: `1.0 - p` is exact for p in (0.5, 1]
    if p.inUnit && p.gtHalf && q != p.oneMinus then
      pure (bad "harness computed 1.0 - p differently from the exact difference")
    else
      let draws := xoTake seed (n * n)
      let s := streamOfArray draws
      let al := optObs obsAL (erAL s n p)
      let tags := ["er", repr, seedTag seed, drawTag seed, pTag p]
      let mustPanic := !p.inUnit
      match repr with
      | "am" =>
        let w := min n t
        let wd := workerDraws seed (n * n) w
        let m := optObs obsAM (erAM (streamsOfArrays wd) n t p)
        finish n obs m (w != 1 || p.gtHalf || m == al) mustPanic (erOracle n p) (tags ++ [threadTag n t])
      | "al" => finish n obs al true mustPanic (erOracle n p) tags
      | "mx" =>
        let m := optObs obsMX (erMX s n p)
        finish n obs m (m == al) mustPanic (erOracle n p) tags
      | "el" =>
        let m := optObs obsEL (erEL s n p)
        finish n obs m (m == al) mustPanic (erOracle n p) tags
      | _ => none
  | _ => none

/-- `next_f64` outputs as bit patterns; oracle: each decodes to a value in `[0, 1)`. -/
def hF64 : Handler := fun _ args obs =>
  match args, obs with
  | [seed, k], [.l outs] => do
    let seed ← seed? seed
    let k ← V.nat? k
    let arr := xoTake seed k
    let model := V.l (arr.toList.map fun w => V.ofNat (f64BitsOfMant (mant w)))
    let outs ← outs.mapM seed?
    let pf := outs.findSome? fun b =>
      match F64.ofBits b with
      | .fin num => if 0 ≤ num && num < 2^1074 then none else some s!"next_f64 bits {b.toNat} outside [0,1)"
      | _ => some s!"next_f64 bits {b.toNat} not finite"
    -- the model's own encoding decodes back to m / 2^52 (self-check of the bit encoder)
    let selfOk := arr.toList.all fun w =>
      F64.ofBits (UInt64.ofNat (f64BitsOfMant (mant w))) == .fin ((mant w : Int) * 2^1022)
    if !selfOk then pure (bad "f64 encoder self-check")
    else pure (classify obs [model] pf (nt := k ≥ 1) ["f64", seedTag seed, drawTag seed])
  | _, _ => none

def hU64 : Handler := fun _ args obs =>
  match args with
  | [seed, k] => do
    let seed ← seed? seed
    let k ← V.nat? k
    let model := V.l ((xoTake seed k).toList.map fun w => V.ofNat w.toNat)
    pure (classify obs [model] none (nt := k ≥ 1) ["u64", seedTag seed])
  | _ => none

def handlers : List (String × Handler) :=
  [("rand_tournament", hTournament), ("rand_rrt", hRrt), ("rand_er", hEr), ("rand_f64", hF64), ("rand_u64", hU64)]

end GraafVerif.Driver.H15
