import GraafVerif.Driver.Common
/-! Driver handlers for property C15 (ops the harness module `ops/c15.rs` emits). -/
namespace GraafVerif.Driver.H15
open GraafVerif GraafVerif.Driver

def handlers : List (String × Handler) := []

end GraafVerif.Driver.H15
