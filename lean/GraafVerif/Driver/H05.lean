import GraafVerif.Driver.Common
import GraafVerif.Driver.H04
import GraafVerif.Model.Bfs
/-!
Driver handlers for the BFS half of property C05 (ops of `harness/src/ops/c05.rs`):

  bfs_pred_iter          <desc> <sources> [shape]        =>  panic | [[pred v] …]      (pred = none | id)
  bfs_pred_predecessors  <desc> <sources> [shape]        =>  panic | [pred …]
  bfs_pred_shortest_path <desc> <sources> <tgt> [shape]  =>  panic | none | [v …]
  bfs_pred_cycles        <desc> <sources> [shape]        =>  panic | [[v …] …]
  bfs_pred_iter_repoll   <desc> <sources> <k> <extra> [shape]
                                   =>  panic | [first ≤k] [rest] [rest of a clone] [extra polls after None]

`[shape]` = kind of source iterator, see `H04.lean` (the model is the same for every shape).

`tgt` ∈ `[eq t] [in [..]] never always`.  Oracles judge the implementation's output with the
naive `hopDistB`; the model is only used for the correspondence.
-/
namespace GraafVerif.Driver.H05
open GraafVerif GraafVerif.Driver GraafVerif.Bfs GraafVerif.Driver.H04

def parseTgt : V → Option (Nat → Bool)
  | .l [.a "eq", t] => do let t ← V.nat? t; pure (fun v => v == t)
  | .l [.a "in", ts] => do let ts ← V.listOf? V.nat? ts; pure (fun v => ts.contains v)
  | .a "always" => some (fun _ => true)
  | .a "never" => some (fun _ => false)
  | _ => none

def isArc (c : Ctx) (u v : Nat) : Bool := (c.g.out u).contains v

def walkB (c : Ctx) : List Nat → Bool
  | [] => true
  | [_] => true
  | u :: v :: r => isArc c u v && walkB c (v :: r)

/-- The C05 condition on one `(vertex, recorded predecessor)` pair. -/
def predEntryOk (c : Ctx) (v : Nat) (p : Option Nat) : Option String :=
  match c.dist v, p with
  | none, none => none
  | none, some _ => some s!"unreachable vertex {v} has a predecessor"
  | some _, none => if c.S.contains v then none else some s!"reachable non-source {v} has no predecessor"
  | some dv, some u =>
    if c.S.contains v then some s!"source {v} has a predecessor"
    else if !isArc c u v then some s!"{u}->{v} is not an arc"
    else if c.dist u != some (dv - 1) || dv == 0 then some s!"dist({u}) + 1 != dist({v})"
    else none

def firstSome {α : Type} (f : α → Option String) : List α → Option String
  | [] => none
  | x :: xs => match f x with
    | some e => some e
    | none => firstSome f xs

def ofOptPair (p : Nat × Option Nat) : V := .l [V.ofOptNat p.2, V.ofNat p.1]

/-- The C05 conditions on the items of the `BfsPred` iterator (Rust order `(pred, v)`). -/
def checkPredItems (c : Ctx) (ps : List (Option Nat × Nat)) : Option String :=
  match checkOrder c (ps.map (·.2)) with
  | some e => some e
  | none => firstSome (fun (p : Option Nat × Nat) => predEntryOk c p.2 p.1) ps

def hPredRepoll : Handler := fun _ args obs =>
  match args with
  | desc :: srcs :: k :: extra :: shape => do
    let c ← mkCtx desc srcs shape
    let k ← V.nat? k
    let extra ← V.nat? extra
    let model := repollModel ofOptPair (bfsPred c.g c.S) k extra
    let pf : Option String :=
      match repollAll (V.pair? (V.opt? V.nat?) V.nat?) obs with
      | some (ps, _) => checkPredItems c ps
      | none => some "the call panicked / malformed output"
    pure (finish c obs model pf ["repoll"])
  | _ => none

def hPredIter : Handler := fun _ args obs =>
  match args with
  | desc :: srcs :: shape => do
    let c ← mkCtx desc srcs shape
    let model := resV (fun xs => V.l (xs.map ofOptPair)) (bfsPred c.g c.S)
    let pf : Option String :=
      match obs with
      | [v] => match V.listOf? (V.pair? (V.opt? V.nat?) V.nat?) v with
        | some ps =>
          match checkOrder c (ps.map (·.2)) with
          | some e => some e
          | none => firstSome (fun (p : Option Nat × Nat) => predEntryOk c p.2 p.1) ps
        | none => some "the call panicked / returned no list"
      | _ => some "malformed output"
    pure (finish c obs model pf)
  | _ => none

def hPredecessors : Handler := fun _ args obs =>
  match args with
  | desc :: srcs :: shape => do
    let c ← mkCtx desc srcs shape
    let model := resV (fun pr => V.l (pr.map V.ofOptNat)) (predecessors c.g c.S)
    let pf : Option String :=
      match obs with
      | [v] => match V.listOf? (V.opt? V.nat?) v with
        | some pr =>
          if pr.length != c.d.order then some "predecessor vector has the wrong length"
          else firstSome (fun (vp : Nat × Option Nat) => predEntryOk c vp.1 vp.2)
                 ((List.range pr.length).zip pr)
        | none => some "the call panicked / returned no vector"
      | _ => some "malformed output"
    pure (finish c obs model pf)
  | _ => none

def hShortestPath : Handler := fun _ args obs =>
  match args with
  | desc :: srcs :: tgt :: shape => do
    let c ← mkCtx desc srcs shape
    let isT ← parseTgt tgt
    let model := resV (fun (o : Option (List Nat)) => match o with
      | none => V.a "none" | some p => V.ofNats p) (shortestPath c.g c.S isT)
    -- reachable targets and the minimum of their hop distances
    let tds := (List.range c.d.order).filterMap (fun v => if isT v then c.dist v else none)
    let best := tds.foldl (fun (m : Option Nat) x => match m with | none => some x | some y => some (min x y)) none
    let pf : Option String :=
      match obs, best with
      | [.a "none"], none => none
      | [.a "none"], some _ => some "None although a reachable vertex satisfies the predicate"
      | [v], best =>
        match V.listOf? V.nat? v with
        | none => some "the call panicked / returned no path"
        | some p =>
          match best, p.head?, p.getLast? with
          | none, _, _ => some "a path although no reachable vertex satisfies the predicate"
          | some b, some s, some t =>
            if !c.S.contains s then some "the path does not start at a source"
            else if !isT t then some "the path does not end at a target"
            else if !p.all (· < c.d.order) then some "the path leaves the digraph"
            else if !walkB c p then some "the path is not a walk of the digraph"
            else if p.length - 1 != b then some s!"path length {p.length - 1} is not the minimum {b} over all targets"
            else none
          | some _, _, _ => some "empty path"
      | _, _ => some "malformed output"
    let kind := match best with
      | none => "sp-none"
      | some 0 => "sp-source-is-target"
      | some _ => if tds.length > 1 then "sp-competing-targets" else "sp-one-target"
    let v := finish c obs model pf
    pure { v with tags := v.tags ++ [kind] }
  | _ => none

/-- Elementary cycle as a vertex list: non-empty, distinct vertices, consecutive arcs, closing arc. -/
def elemCycleB (c : Ctx) (p : List Nat) : Bool :=
  match p.head?, p.getLast? with
  | some a, some z => nodupB p && p.all (· < c.d.order) && walkB c p && isArc c z a
  | _, _ => false

def hCycles : Handler := fun _ args obs =>
  match args with
  | desc :: srcs :: shape => do
    let c ← mkCtx desc srcs shape
    let model := resV (fun cs => V.l (cs.map V.ofNats)) (cycles c.g c.S)
    let parsed := match obs with
      | [v] => V.listOf? (V.listOf? V.nat?) v
      | _ => none
    let pf : Option String :=
      match parsed with
      | some cs =>
        match cs.find? (fun p => !elemCycleB c p) with
        | some p => some s!"{V.ofNats p} is not an elementary cycle"
        | none => none
      | none => some "the call panicked / returned no list"
    let kind := match parsed with
      | some [] => "cycles0"
      | some _ => "cycles>0"
      | none => "cycles-panic"
    let v := finish c obs model pf
    -- a traversal that meets a cycle is the interesting case here
    pure { v with tags := v.tags ++ [kind], nontrivial := v.nontrivial && kind == "cycles>0" }
  | _ => none

def handlers : List (String × Handler) :=
  [("bfs_pred_iter", hPredIter), ("bfs_pred_predecessors", hPredecessors),
   ("bfs_pred_shortest_path", hShortestPath), ("bfs_pred_cycles", hCycles),
   ("bfs_pred_iter_repoll", hPredRepoll)]

end GraafVerif.Driver.H05
