import GraafVerif.Driver.Common
/-! Driver handlers for property C05 (ops the harness module `ops/c05.rs` emits). -/
namespace GraafVerif.Driver.H05
open GraafVerif GraafVerif.Driver

def handlers : List (String × Handler) := []

end GraafVerif.Driver.H05
