import GraafVerif.Driver.Common
import GraafVerif.Model.Bfm
/-!
Driver handlers for C07.

  bfm_dist [wi n warcs] s  =>  (panic | none | [d…])  (- | [dijkstra d…])

`d` entries are integers or the atom `inf` (`isize::MAX` / `usize::MAX`).  The second output is
what the REAL `DijkstraDist::distances` returned on the same arcs (only when every weight is
non-negative and the source is in range; `-` otherwise).

* correspondence: first output = `Bfm.distances` of the model;
* property oracle (on the implementation's output): `wdistB` of `Spec/Graph.lean` — `none` iff
  a negative circuit is reachable from `s`, otherwise exactly the oracle's distances with `inf`
  at the unreachable vertices; on non-negative weights the real Dijkstra must agree as well.
-/
namespace GraafVerif.Driver.H07
open GraafVerif GraafVerif.Driver GraafVerif.Bfm

def distToV (d : List (Option Int)) : V := .l (d.map (fun x => match x with | none => V.a "inf" | some x => V.i x))

def resToV : Res → V
  | .panic => .a "panic"
  | .ret none => .a "none"
  | .ret (some d) => distToV d

def hDist : Handler := fun _ args obs =>
  match args, obs with
  | [gd, s], [out, dij] => do
    let gd ← GDesc.parse gd
    if gd.repr != "wi" then none
    let s ← V.nat? s
    let g := gd.wgraph
    let n := g.n
    let arcs := arcsOf g
    let m := arcs.length
    let model := resToV (distances g s)
    let nonneg := arcs.all (fun a => decide (0 ≤ a.2.2))
    let (od, negReach) := if s < n then wdistB g [s] else ([], false)
    let anyNeg := (wdistB g (List.range n)).2
    let propFail : Option String :=
      if s < n then
        if negReach then
          (if out == V.a "none" then none else some "negative-circuit-reachable-but-not-none")
        else if out == V.a "none" then some "none-without-reachable-negative-circuit"
        else if out != distToV od then some s!"spec-says {distToV od}"
        else if nonneg && dij != out then some s!"dijkstra-disagrees {dij}"
        else none
      else none
    let used := if s < n then roundsUsed arcs (n - 1) (init n s) else (0, false)
    let tags := [
      sizeTag n,
      s!"m%4={m % 4}",
      (if m ≤ 3 then "m0-3" else if m ≤ 6 then "m4-6" else if m ≤ 9 then "m7-9" else "m>9"),
      (if negReach then "neg-reachable" else if anyNeg then "neg-unreachable" else "no-neg"),
      (if nonneg then "w-nonneg" else "w-hasneg"),
      (if out == V.a "none" then "res-none" else if out == V.a "panic" then "res-panic" else "res-some"),
      (if s < n then (if n ≤ 1 then "no-rounds" else if used.2 then (if used.1 < n - 1 then "break-early" else "break-in-last-round") else "all-rounds-updated") else "src-out-of-range"),
      (if od.any Option.isNone then "some-unreachable" else "all-reachable") ]
    pure (classify [out] [model] propFail (nt := n ≥ 2 && m ≥ 1 && s < n) tags)
  | _, _ => none

def handlers : List (String × Handler) := [("bfm_dist", hDist)]

end GraafVerif.Driver.H07
