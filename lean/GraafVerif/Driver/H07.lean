import GraafVerif.Driver.Common
import GraafVerif.Model.Bfm
/-!
Driver handlers for C07.

  bfm_dist [wi n warcs] s  =>  (panic | none | [d…])  (- | [dijkstra d…])

`d` entries are integers or the atom `inf` (`isize::MAX` / `usize::MAX`).  The second output is
what the REAL `DijkstraDist::distances` returned on the same arcs (only when every weight is
non-negative and the source is in range; `-` otherwise).

* correspondence: first output = `Bfm.distances` of the model;
* property oracle (on the implementation's output): `wdistB` of `Spec/Graph.lean` — `none` iff
  a negative circuit is reachable from `s`, otherwise exactly the oracle's distances with `inf`
  at the unreachable vertices; on non-negative weights the real Dijkstra must agree as well.
-/
namespace GraafVerif.Driver.H07
open GraafVerif GraafVerif.Driver GraafVerif.Bfm

def distToV (d : List (Option Int)) : V := .l (d.map (fun x => match x with | none => V.a "inf" | some x => V.i x))

def resToV : Res → V
  | .panic => .a "panic"
  | .ret none => .a "none"
  | .ret (some d) => distToV d

/-- Magnitude class of the largest |weight| (the large-weight streams). -/
def wmagTag (arcs : List Arc) : String :=
  let mx := arcs.foldl (fun acc a => max acc a.2.2.natAbs) 0
  if mx < 2^31 then "w<2^31" else if mx < 2^50 then "w<2^50" else if mx < 2^61 then "w<2^61" else "w>=2^61"

/-- Descriptions the real structure accepts (`add_arc_weighted` asserts): only those are cases. -/
def validDesc (gd : GDesc) : Bool :=
  gd.repr == "wi" && gd.order ≥ 1 && gd.warcs.all (fun a => a.1 < gd.order && a.2.1 < gd.order && a.1 != a.2.1)

def hDist : Handler := fun _ args obs =>
  match args, obs with
  | [gd, s], [out, dij] => do
    let gd ← GDesc.parse gd
    if !validDesc gd then none
    let s ← V.nat? s
    let g := gd.wgraph
    let n := g.n
    let arcs := arcsOf g
    let m := arcs.length
    let model := resToV (distances g s)
    let nonneg := arcs.all (fun a => decide (0 ≤ a.2.2))
    let (od, negReach) := if s < n then wdistB g [s] else ([], false)
    -- only a tag; trivially false on non-negative weights, not needed when a circuit is reachable
    let anyNeg := !negReach && !nonneg && (wdistB g (List.range n)).2
    let propFail : Option String :=
      if s < n then
        if negReach then
          (if out == V.a "none" then none else some "negative-circuit-reachable-but-not-none")
        else if out == V.a "none" then some "none-without-reachable-negative-circuit"
        else if out != distToV od then some s!"spec-says {distToV od}"
        else if nonneg && dij != out then some s!"dijkstra-disagrees {dij}"
        else none
      else none
    -- a reachable negative circuit makes every round update (a round without update is a fixpoint)
    let used := if s < n && !negReach then roundsUsed arcs (n - 1) (init n s) else (n - 1, false)
    let tags := [
      sizeTag n,
      s!"m%4={m % 4}",
      (if m ≤ 3 then "m0-3" else if m ≤ 6 then "m4-6" else if m ≤ 9 then "m7-9" else "m>9"),
      (if negReach then "neg-reachable" else if anyNeg then "neg-unreachable" else "no-neg"),
      (if nonneg then "w-nonneg" else "w-hasneg"),
      (if out == V.a "none" then "res-none" else if out == V.a "panic" then "res-panic" else "res-some"),
      (if s < n then (if n ≤ 1 then "no-rounds" else if used.2 then (if used.1 < n - 1 then "break-early" else "break-in-last-round") else "all-rounds-updated") else "src-out-of-range"),
      (if od.any Option.isNone then "some-unreachable" else "all-reachable"),
      wmagTag arcs,
      (if od.any (fun x => match x with | some x => decide (x ≥ 2^62) | none => false) then "far>=MAX/2" else "far<MAX/2") ]
    pure (classify [out] [model] propFail (nt := n ≥ 2 && m ≥ 1 && s < n) tags)
  | _, _ => none

/-- `bfm_dist_repeat [wi n warcs] s k => panic | [r1 … rk]`: `k` calls of `distances()` on the SAME
object.  Model: `distancesRepeat` (the state is threaded literally); oracle: EVERY call must give
the answer the specification fixes (`wdistB`). -/
def hRepeat : Handler := fun _ args obs =>
  match args, obs with
  | [gd, s, k], [out] => do
    let gd ← GDesc.parse gd
    if !validDesc gd || out == V.a "badargs" then none
    let s ← V.nat? s
    let k ← V.nat? k
    let g := gd.wgraph
    let n := g.n
    let m := (arcsOf g).length
    let model : V := match distancesRepeat g s k with
      | none => .a "panic"
      | some rs => .l (rs.map (fun r => resToV (.ret r)))
    let (od, negReach) := if s < n then wdistB g [s] else ([], false)
    let want : V := if negReach then .a "none" else distToV od
    let propFail : Option String :=
      if s < n then
        match out with
        | .l rs =>
          if rs.length != k then some s!"{rs.length}-results-for-{k}-calls"
          else match (List.range k).find? (fun i => rs[i]? != some want) with
            | some i => some s!"call-{i+1}-spec-says {want}"
            | none => none
        | _ => some s!"spec-says {want} on every call"
      else none
    let tags := [ sizeTag n, s!"calls={k}", s!"m%4={m % 4}",
      (if negReach then "neg-reachable" else "no-neg-reachable"),
      (if s < n then "rep-in-range" else "src-out-of-range"), wmagTag (arcsOf g) ]
    pure (classify [out] [model] propFail (nt := n ≥ 2 && m ≥ 1 && s < n && k ≥ 2) tags)
  | _, _ => none

def handlers : List (String × Handler) := [("bfm_dist", hDist), ("bfm_dist_repeat", hRepeat)]

end GraafVerif.Driver.H07
