import GraafVerif.Driver.Common
/-! Driver handlers for property C07 (ops the harness module `ops/c07.rs` emits). -/
namespace GraafVerif.Driver.H07
open GraafVerif GraafVerif.Driver

def handlers : List (String × Handler) := []

end GraafVerif.Driver.H07
