import GraafVerif.Driver.Common
/-! Driver handlers for property C02 (ops the harness module `ops/c02.rs` emits). -/
namespace GraafVerif.Driver.H02
open GraafVerif GraafVerif.Driver

def handlers : List (String × Handler) := []

end GraafVerif.Driver.H02
