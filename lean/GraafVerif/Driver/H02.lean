import Std.Data.HashMap
import GraafVerif.Driver.Common
import GraafVerif.Driver.ReprDesc
import GraafVerif.Model.Query
import GraafVerif.Model.QueryFast
import GraafVerif.Model.QueryIter
import GraafVerif.Spec.Query
/-!
Driver handlers for property C02 (ops of `harness/src/ops/c02.rs`):
`q_global q_degseq q_vertex q_pairs q_walks q_remove`.

Per case: (a) the model of the representation named in the description recomputes every
output (MISMATCH on disagreement); (b) the ORACLE evaluates the textbook definitions of
`Spec/Query.lean` on the implementation's own observation `[order [vertices] [arcs]]` (first
output of every op) and compares them with what the implementation answered (PROPFAIL).
For ids outside `V` the oracle only speaks about the queries documented as total
(`has_arc has_edge has_walk arc_weight remove_arc`); the last output `unchanged` must be `true`.
-/
namespace GraafVerif.Driver.H02
open GraafVerif GraafVerif.Driver GraafVerif.Repr GraafVerif.Query

/-! ## encodings -/
def panicV : V := .a "panic"
def oNat : Option Nat → V | none => panicV | some n => V.ofNat n
def oBool : Option Bool → V | none => panicV | some b => V.ofBool b
def oNats : Option (List Nat) → V | none => panicV | some l => V.ofNats l
def oPairs : Option (List (Nat × Nat)) → V | none => panicV | some l => V.ofPairs l
def b01 (b : Bool) : V := .i (if b then 1 else 0)
def wPairs (l : List (Nat × Int)) : V := .l (l.map (fun p => .l [V.ofNat p.1, .i p.2]))
def oInt : Option Int → V | none => .a "none" | some w => .i w

/-! ## model instance of a description -/
structure Inst where
  core : Core
  weighted : Bool
  arcWeight : Nat → Nat → Option Int
  outNW : Nat → Option (List (Nat × Int))
  obs : V
  /-- `remove_arc(u, v)` on a clone: (returned value, clone still equal to the original) -/
  remove : Nat → Nat → Bool × Bool
  /-- the threaded `degree_sequence` for thread count `t`: above order 300 the `Array` twin of the
  list model (`Proof/QueryFast.lean: degreeSequenceFast_eq` — equal for every digraph and `t`) -/
  degseq : Nat → Option (List Nat)

def mkInst (d : GDesc) : Option Inst :=
  match d.repr with
  | "al" => (buildAL d).map fun g =>
    ⟨AL.core g, false, fun _ _ => none, fun _ => none, obsAL g, fun u v => let r := g.removeArc u v; (r.2, r.1 == g),
     fun t => if g.order > 300 then some (AL.degreeSequenceFast g t) else (AL.core g).degreeSequence t⟩
  | "am" => (buildAM d).map fun g =>
    ⟨AM.core g, false, fun _ _ => none, fun _ => none, obsAM g, fun u v => let r := g.removeArc u v; (r.2, r.1 == g),
     (AM.core g).degreeSequence⟩
  | "mx" => (buildMX d).map fun g =>
    ⟨MX.core g, false, fun _ _ => none, fun _ => none, obsMX g, fun u v => let r := g.removeArc u v; (r.2, r.1 == g),
     (MX.core g).degreeSequence⟩
  | "el" => (buildEL d).map fun g =>
    ⟨EL.core g, false, fun _ _ => none, fun _ => none, obsEL g, fun u v => let r := g.removeArc u v; (r.2, r.1 == g),
     (EL.core g).degreeSequence⟩
  | "wu" | "wi" => (buildW d).map fun g =>
    ⟨WL.core g, true, g.arcWeight, WL.outNeighborsWeighted g, obsWL g, fun u v => let r := g.removeArc u v; (r.2, r.1 == g),
     (WL.core g).degreeSequence⟩
  | _ => none

/-! ## the oracle's digraph: the implementation's own observation -/
structure Obs where
  G : Digraph
  nverts : Nat
  narcs : Nat
  weighted : Bool
  arcs : List (Nat × Nat) := []

def parseObs (o : V) : Option Obs :=
  match o with
  | .l [_, vs, .l arcs] => do
    let verts ← V.listOf? V.nat? vs
    let triples ← arcs.mapM (fun a =>
      match a with
      | .l [u, v] => do pure ((← V.nat? u), (← V.nat? v), (none : Option Int))
      | .l [u, v, w] => do pure ((← V.nat? u), (← V.nat? v), some (← V.int? w))
      | _ => none)
    let m : Std.HashMap (Nat × Nat) Int :=
      triples.foldl (fun m a => m.insert (a.1, a.2.1) (a.2.2.getD 1)) {}
    let weighted := triples.any (fun a => a.2.2.isSome)
    pure ⟨⟨verts, fun u v => m.contains (u, v), fun u v => m[(u, v)]?⟩, verts.length, triples.length, weighted,
      triples.map (fun a => (a.1, a.2.1))⟩
  | _ => none

def firstDiff (xs ys : List V) (i : Nat := 0) : Option (Nat × V × V) :=
  match xs, ys with
  | [], [] => none
  | x :: xs, y :: ys => if x == y then firstDiff xs ys (i + 1) else some (i, x, y)
  | x :: _, [] => some (i, x, .a "missing")
  | [], y :: _ => some (i, .a "missing", y)

def short (v : V) : String :=
  let s := toString v
  if s.length > 160 then (s.take 160).toString ++ "…" else s

/-- Compare observed outputs with what the definitions demand (`want`, same shape). -/
def oracleVerdict (names : List String) (observed want : List V) : Option String :=
  match firstDiff observed want with
  | none => none
  | some (i, o, w) => some s!"{names[i]?.getD (toString i)}: implementation {short o} definition-from-own-arcs {short w}"

def densTag (n m : Nat) : String :=
  if m = 0 then "arcs=0" else if m = n * (n - 1) then "arcs=all" else if 2 * m ≥ n * (n - 1) then "dense" else "sparse"

def commonTags (d : GDesc) (ob : Obs) : List String :=
  let sparseIds := d.repr == "am" && d.verts != List.range d.order
  [s!"repr={d.repr}", sizeTag d.order, densTag ob.nverts ob.narcs] ++ (if sparseIds then ["sparse-ids"] else [])

/-! ## parts: each op is `obs :: part outputs ++ [unchanged]`; `q_all` concatenates all parts -/
structure Part where
  names : List String
  model : List V
  want : List V
  tags : List String := []

def partGlobal (m : Inst) (ob : Obs) : Part :=
  let G := ob.G
  let q := m.core
  { names := ["size", "sinks", "sources", "indegree_sequence", "outdegree_sequence", "semidegree_sequence",
              "max_degree", "min_degree", "max_indegree", "min_indegree", "max_outdegree", "min_outdegree"]
    want := [V.ofNat (Spec.size G), V.ofNats (Spec.sinks G), V.ofNats (Spec.sources G),
       V.ofNats (Spec.indegreeSequence G), V.ofNats (Spec.outdegreeSequence G), V.ofPairs (Spec.semidegreeSequence G),
       V.ofNat (Spec.maxDegree G), V.ofNat (Spec.minDegree G), V.ofNat (Spec.maxIndegree G), V.ofNat (Spec.minIndegree G),
       V.ofNat (Spec.maxOutdegree G), V.ofNat (Spec.minOutdegree G)]
    model := [V.ofNat q.size, oNats q.sinks, V.ofNats q.sources, oNats q.indegreeSequence,
         oNats q.outdegreeSequence, oPairs q.semidegreeSequence, oNat q.maxDegree, oNat q.minDegree,
         oNat q.maxIndegree, oNat q.minIndegree, oNat q.maxOutdegree, oNat q.minOutdegree] }

/-- `Spec.degreeSequence` in linear time (hash maps) for large observations: for a strictly
ascending vertex list it is the same value (each distinct arc `(u, v)` with both ends in `V` counts once
for `u` and once for `v`); anything else falls back to the definition itself. -/
def degreeSequenceOracle (ob : Obs) : List Nat :=
  let vs := ob.G.verts
  let ascending := (vs.zip (vs.drop 1)).all (fun p => p.1 < p.2)
  if ob.nverts ≤ 300 || !ascending then Spec.degreeSequence ob.G
  else
    let vset : Std.HashMap Nat Unit := vs.foldl (fun s v => s.insert v ()) {}
    let distinct : Std.HashMap (Nat × Nat) Unit := ob.arcs.foldl (fun s a => s.insert a ()) {}
    let cnt : Std.HashMap Nat Nat := distinct.fold (fun c a _ =>
      if vset.contains a.1 && vset.contains a.2 then
        let c := c.insert a.1 (c.getD a.1 0 + 1)
        c.insert a.2 (c.getD a.2 0 + 1)
      else c) {}
    vs.map (fun v => cnt.getD v 0)

def partDegseq (m : Inst) (ob : Obs) (t : Nat) : Part :=
  { names := ["degree_sequence"], want := [V.ofNats (degreeSequenceOracle ob)],
    model := [oNats (m.degseq t)],
    tags := [s!"threads={min t 17}"] ++ (if ob.nverts > 300 then ["degseq-fast-twin"] else []) }

def vertexFields : String := "(fields: outN inN indeg outdeg deg sink source isolated pendant outNW)"

def vertexModel (m : Inst) (u : Nat) : V :=
  let q := m.core
  .l [oNats (q.outNeighbors u), V.ofNats (q.inNeighbors u), oNat (q.indegree u), oNat (q.outdegree u),
      oNat (q.degree u), oBool (q.isSink u), V.ofBool (q.isSource u), oBool (q.isIsolated u), oBool (q.isPendant u),
      if m.weighted then (match m.outNW u with | none => panicV | some l => wPairs l) else .a "na"]

def vertexSpec (ob : Obs) (u : Nat) (observedRec : V) : V :=
  let G := ob.G
  if G.verts.contains u then
    .l [V.ofNats (Spec.outNeighbors G u), V.ofNats (Spec.inNeighbors G u), V.ofNat (Spec.indegree G u),
        V.ofNat (Spec.outdegree G u), V.ofNat (Spec.degree G u), V.ofBool (Spec.isSink G u), V.ofBool (Spec.isSource G u),
        V.ofBool (Spec.isIsolated G u), V.ofBool (Spec.isPendant G u),
        if ob.weighted || observedRec.list?.bind (·[9]?) != some (.a "na") then wPairs (Spec.outNeighborsWeighted G u) else .a "na"]
  else observedRec   -- outside V the property makes no demand on these queries

/-- `observedRecs`: the implementation's records (copied for ids outside `V`). -/
def partVertex (m : Inst) (ob : Obs) (ids : List Nat) (observedRecs : V) : Part :=
  let recs := observedRecs.list?.getD []
  let wantRecs :=
    if recs.length == ids.length then (ids.zip recs).map (fun p => vertexSpec ob p.1 p.2)
    else ids.map (fun u => vertexSpec ob u (.a "missing"))
  let nPanic := recs.filter (fun r => r.list?.bind (·[2]?) == some panicV) |>.length
  { names := ["vertex-records " ++ vertexFields], want := [.l wantRecs], model := [.l (ids.map (vertexModel m))],
    tags := [if nPanic > 0 then "with-outside-ids" else "inside-only"] }

def partPairs (m : Inst) (ob : Obs) (ids : List Nat) : Part :=
  let G := ob.G
  let prs := ids.flatMap (fun u => ids.map (fun v => (u, v)))
  let anyEdge := prs.any (fun p => Spec.hasEdge G p.1 p.2)
  { names := ["has_arc", "has_edge", "arc_weight"]
    want := [.l (prs.map (fun p => b01 (Spec.hasArc G p.1 p.2))), .l (prs.map (fun p => b01 (Spec.hasEdge G p.1 p.2))),
       .l (if m.weighted then prs.map (fun p => oInt (Spec.arcWeight G p.1 p.2)) else [])]
    model := [.l (prs.map (fun p => b01 (m.core.hasArc p.1 p.2))), .l (prs.map (fun p => b01 (m.core.hasEdge p.1 p.2))),
         .l (if m.weighted then prs.map (fun p => oInt (m.arcWeight p.1 p.2)) else [])]
    tags := [if anyEdge then "some-edge" else "no-edge"] }

def partWalks (m : Inst) (ob : Obs) (ws : List (List Nat)) : Part :=
  let nTrue := (ws.filter (fun w => Spec.hasWalk ob.G w)).length
  let nLong := (ws.filter (fun w => Spec.hasWalk ob.G w && w.length ≥ 3)).length
  { names := ["has_walk"], want := [.l (ws.map (fun w => b01 (Spec.hasWalk ob.G w)))],
    model := [.l (ws.map (fun w => b01 (m.core.hasWalk w)))]
    tags := [if nTrue = 0 then "walks-all-false" else if 3 * nTrue ≥ ws.length then "walks-true>=1/3" else "walks-true<1/3",
             if nLong > 0 then "true-walk-len>=3" else "no-long-true-walk"] }

/-- `remove_arc` is total: ids outside `V` answer `false` and change nothing. -/
def partRemove (m : Inst) (ob : Obs) (ps : List (Nat × Nat)) : Part :=
  { names := ["remove_arc"]
    want := [.l (ps.map (fun p => let a := Spec.hasArc ob.G p.1 p.2; .l [b01 a, b01 (!a)]))]
    model := [.l (ps.map (fun p => let r := m.remove p.1 p.2; .l [b01 r.1, b01 r.2]))] }

/-- Element-wise report: for list-valued outputs name the first differing element. -/
def explain (name : String) (o w : V) : String :=
  match o, w with
  | .l os, .l ws =>
    match firstDiff os ws with
    | some (k, o', w') =>
      match o', w' with
      | .l os', .l ws' =>
        match firstDiff os' ws' with
        | some (j, o'', w'') => s!"{name}[{k}][{j}]: implementation {short o''} definition-from-own-arcs {short w''}"
        | none => s!"{name}[{k}] differs"
      | _, _ => s!"{name}[{k}]: implementation {short o'} definition-from-own-arcs {short w'}"
    | none => s!"{name} differs"
  | _, _ => s!"{name}: implementation {short o} definition-from-own-arcs {short w}"

/-- Shared tail of every handler: `observed = obs :: parts ++ [unchanged]`. -/
def finish (d : GDesc) (obsV : V) (ob : Obs) (observed : List V) (parts : Option (Inst → List Part)) : Verdict :=
  match mkInst d, parts with
  | some m, some mk =>
    let ps := mk m
    let names := ["obs"] ++ ps.flatMap (·.names) ++ ["unchanged (queries never change the digraph)"]
    let model := [m.obs] ++ ps.flatMap (·.model) ++ [V.ofBool true]
    let want := [obsV] ++ ps.flatMap (·.want) ++ [V.ofBool true]
    let propFail := (firstDiff observed want).map (fun (i, o, w) => explain (names[i]?.getD (toString i)) o w)
    classify observed model propFail (nt := ob.nverts ≥ 2 && ob.narcs ≥ 1) (commonTags d ob ++ ps.flatMap (·.tags))
  | _, _ =>
    -- the model says: building this description panics
    classify observed [panicV] none (nt := false) (commonTags d ob)

def parseWalks (v : V) : Option (List (List Nat)) := V.listOf? (V.listOf? V.nat?) v
def parsePairs (v : V) : Option (List (Nat × Nat)) := V.listOf? (V.pair? V.nat? V.nat?) v
def parseIds (v : V) : Option (List Nat) := V.listOf? V.nat? v

def hGlobal : Handler := fun _ args observed =>
  match args, observed with
  | [dv], obsV :: _ => do
    let d ← GDesc.parse dv
    let ob ← parseObs obsV
    pure (finish d obsV ob observed (some fun m => [partGlobal m ob]))
  | _, _ => none

/-- threaded for AdjacencyList: the model is called with the observed `t` -/
def hDegseq : Handler := fun t args observed =>
  match args, observed with
  | [dv], obsV :: _ => do
    let d ← GDesc.parse dv
    let ob ← parseObs obsV
    pure (finish d obsV ob observed (some fun m => [partDegseq m ob t]))
  | _, _ => none

def hVertex : Handler := fun _ args observed =>
  match args, observed with
  | [dv, idsV], [obsV, recs, _] => do
    let d ← GDesc.parse dv
    let ids ← parseIds idsV
    let ob ← parseObs obsV
    pure (finish d obsV ob observed (some fun m => [partVertex m ob ids recs]))
  | _, _ => none

def hPairs : Handler := fun _ args observed =>
  match args, observed with
  | [dv, idsV], obsV :: _ => do
    let d ← GDesc.parse dv
    let ids ← parseIds idsV
    let ob ← parseObs obsV
    pure (finish d obsV ob observed (some fun m => [partPairs m ob ids]))
  | _, _ => none

def hWalks : Handler := fun _ args observed =>
  match args, observed with
  | [dv, wsV], obsV :: _ => do
    let d ← GDesc.parse dv
    let ws ← parseWalks wsV
    let ob ← parseObs obsV
    pure (finish d obsV ob observed (some fun m => [partWalks m ob ws]))
  | _, _ => none

def hRemove : Handler := fun _ args observed =>
  match args, observed with
  | [dv, psV], obsV :: _ => do
    let d ← GDesc.parse dv
    let ps ← parsePairs psV
    let ob ← parseObs obsV
    pure (finish d obsV ob observed (some fun m => [partRemove m ob ps]))
  | _, _ => none

/-- `q_all <desc> [vertex ids] [pair ids] [walks] [removes]`: every part on one line
(`obs global… degseq records has_arc has_edge arc_weight has_walk remove_arc unchanged`). -/
def hAll : Handler := fun t args observed =>
  match args, observed with
  | [dv, vidsV, pidsV, wsV, psV], obsV :: rest => do
    let d ← GDesc.parse dv
    let vids ← parseIds vidsV
    let pids ← parseIds pidsV
    let ws ← parseWalks wsV
    let ps ← parsePairs psV
    let ob ← parseObs obsV
    let recs := rest[13]?.getD (.l [])
    pure (finish d obsV ob observed (some fun m =>
      [partGlobal m ob, partDegseq m ob t, partVertex m ob vids recs, partPairs m ob pids, partWalks m ob ws, partRemove m ob ps]))
  | _, _ => none

/-- `q_cyclewalks <repr> [ids] <len> [positions]`: compact form of `q_walks` for very long walks.
The digraph is the directed cycle over `ids`; the walks are the closed walk of `len` vertices around
it and, per position `p`, the same walk jumping two steps ahead after index `p` (so `(p, p+1)` is its
only non-arc).  Both sides expand the same rule (`c02.rs: cycle_walk`). -/
def cycleWalk (ids : Array Nat) (len : Nat) (brk : Option Nat) : List Nat :=
  (List.range len).map (fun i =>
    let k := match brk with
      | some p => if i > p then i + 1 else i
      | none => i
    ids[k % ids.size]!)

def hCycleWalks : Handler := fun t args observed =>
  match args with
  | [.a repr, idsV, lenV, psV] => do
    let ids ← parseIds idsV
    let len ← V.nat? lenV
    let ps ← parseIds psV
    if ids.length < 4 || len < 2 then none
    let m := ids.length
    let arcs := (List.range m).map (fun i => (ids[i]?.getD 0, ids[(i + 1) % m]?.getD 0))
    let head := if repr == "am" then V.ofNats ids else V.ofNat m
    -- weighted tags: weights `i % 7 + 1` as `c02.rs: plain`
    let arcsV : V :=
      if repr == "wu" || repr == "wi" then
        .l (arcs.zipIdx.map (fun p => .l [V.ofNat p.1.1, V.ofNat p.1.2, V.ofNat (p.2 % 7 + 1)]))
      else V.ofPairs arcs
    let dv : V := .l [.a repr, head, arcsV]
    let a := ids.toArray
    let ws := cycleWalk a len none :: ps.map (fun p => cycleWalk a len (some p))
    let v ← hWalks t [dv, .l (ws.map V.ofNats)] observed
    pure { v with tags := v.tags ++ [if len ≥ 4096 then "walk-len>=4096" else "walk-len<4096"] }
  | _ => none

/-! ## q_iter: `k` × `next()`, then a fold-based consumer, on one iterator value

Model: `Iter.observe` on the list the model query yields.  Oracle: `Iter.observe` on the DEFINED sequence
(`Spec.*` on the implementation's own observation; for `arcs()` on the implementation's own fully
collected `arcs()`): by `Proof/QueryIter.lean: observe_eq` that is `take k` / `drop k` + the list consumer. -/
def encObs {α : Type} (enc : α → V) (o : Iter.Obs α) : V :=
  .l [.l (o.taken.map enc), V.ofNat o.count, (match o.last with | none => .a "none" | some x => enc x),
      .l (o.rest.map enc), V.ofNat o.sum, V.ofNat o.skipCount]

def recNat (l : List Nat) (k : Nat) : V := encObs V.ofNat (Iter.observe id l k)
def recPair (l : List (Nat × Nat)) (k : Nat) : V := encObs V.ofPair (Iter.observe (fun p => p.1 + p.2) l k)
def recNatO (l : Option (List Nat)) (k : Nat) : V := match l with | none => panicV | some l => recNat l k
def recPairO (l : Option (List (Nat × Nat))) (k : Nat) : V := match l with | none => panicV | some l => recPair l k

def partIter (m : Inst) (ob : Obs) (t : Nat) (ks ids : List Nat) (observedRecs : List V) : Part :=
  let q := m.core
  let G := ob.G
  let modelFor (k : Nat) : V :=
    .l ([recPair q.arcs k, recNat q.vertices k, recNatO (m.degseq t) k, recNatO q.indegreeSequence k,
         recNatO q.outdegreeSequence k, recPairO q.semidegreeSequence k, recNatO q.sinks k, recNat q.sources k] ++
        ids.flatMap (fun v => [recNat (q.inNeighbors v) k, recNatO (q.outNeighbors v) k]))
  let wantFor (k : Nat) (obsRec : V) : V :=
    let obsList := obsRec.list?.getD []
    .l ([recPair ob.arcs k, recNat G.verts k, recNat (degreeSequenceOracle ob) k, recNat (Spec.indegreeSequence G) k,
         recNat (Spec.outdegreeSequence G) k, recPair (Spec.semidegreeSequence G) k, recNat (Spec.sinks G) k,
         recNat (Spec.sources G) k] ++
        (ids.zipIdx.flatMap (fun (v, i) =>
          [recNat (Spec.inNeighbors G v) k,
           if G.verts.contains v then recNat (Spec.outNeighbors G v) k
           else obsList[8 + 2 * i + 1]?.getD (.a "missing")])))   -- outside V: no demand on out_neighbors
  let anyShort := (ks.any (fun k => k > 0)) && ob.narcs ≥ 2
  { names := ks.map (fun k => s!"iterators advanced {k}x with next() then consumed (records: arcs vertices degseq indegseq outdegseq semidegseq sinks sources, then in/out_neighbors per id; fields: taken count last rest sum skipcount)")
    model := ks.map modelFor
    want := (ks.zipIdx.map (fun (k, i) => wantFor k (observedRecs[i]?.getD (.l []))))
    tags := [s!"threads={min t 17}", if anyShort then "iter-advanced" else "iter-fresh-only",
             if ob.nverts * ob.nverts > 64 then "cells>64" else "cells<=64"] }

def hIter : Handler := fun t args observed =>
  match args, observed with
  | [dv, ksV, idsV], obsV :: rest => do
    let d ← GDesc.parse dv
    let ks ← parseIds ksV
    let ids ← parseIds idsV
    let ob ← parseObs obsV
    pure (finish d obsV ob observed (some fun m => [partIter m ob t ks ids (rest.take ks.length)]))
  | _, _ => none

def handlers : List (String × Handler) :=
  [("q_iter", hIter), ("q_cyclewalks", hCycleWalks), ("q_global", hGlobal), ("q_degseq", hDegseq), ("q_vertex", hVertex), ("q_pairs", hPairs),
   ("q_walks", hWalks), ("q_remove", hRemove), ("q_all", hAll)]

end GraafVerif.Driver.H02
