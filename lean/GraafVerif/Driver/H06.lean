import GraafVerif.Driver.Common
import GraafVerif.Model.Dfs
import GraafVerif.Spec.Dfs
import GraafVerif.Spec.OracleFast
/-!
Driver handlers for C06.

    dfs_iter <desc> <sources> [family]  =>  <Dfs items>
    dfs_dist <desc> <sources> [family]  =>  <DfsDist items>                     items `[v depth]`
    dfs_pred <desc> <sources> [family]  =>  <DfsPred items> <predecessors()>    items `[pred v]`, vector of `none | id`

    dfs_repoll <desc> <sources> [family] =>  <Dfs polls> <DfsDist polls> <DfsPred polls>

each output is a list or the atom `panic`.  A fourth argument of the first three ops (`vec`,
`filter`, `flatten`, `takewhile`, `mapwhile`) only says how the harness passed the sources; the
model does not depend on it.  `dfs_repoll` polls on after a `None` (items or `none`, trailing
`none`s trimmed); correspondence only — C06 says nothing about re-polling.  `<desc>` is a `GDesc` or one of the two compact
descriptions of large digraphs (`compact?`), which are expanded to a `GDesc` first.

Verdict (per op, i.e. per iterator):
* the property oracle (`Spec/Dfs.lean` + the naive reachability oracle `reachSetB` of `Spec/Graph.lean`) judges the
  IMPLEMENTATION's output: the sequence must be a depth-first preorder with the prescribed
  parents / depths, `predecessors()` its forest, and the yielded set the reachable set;
* `KNOWN early-stop-on-stale-pop` only when (i) the implementation's output equals the model of
  today's code, whose run ended at a stale pop, (ii) every step of what was yielded is valid
  (and `predecessors()` is the forest of what was yielded), the ONLY defect being missing
  reachable vertices, and (iii) the item sequence is a strict prefix of what the corrected
  variant yields, of exactly the length at which the corrected variant pops its first stale
  entry (`staleAt`);
* any other rejection by the oracle is `PROPFAIL`; model disagreement alone is `MISMATCH`.
-/
namespace GraafVerif.Driver.H06
open GraafVerif GraafVerif.Driver GraafVerif.Dfs

def vDist (items : List (Nat × Nat)) : V := .l (items.map (fun x => .l [V.ofNat x.1, V.ofNat x.2]))
def vPred (items : List (Nat × Option Nat)) : V := .l (items.map (fun x => .l [V.ofOptNat x.2, V.ofNat x.1]))
def vTree (t : List (Option Nat)) : V := .l (t.map V.ofOptNat)

def orPanic {α : Type} (o : Out α) (v : V) : V := if o.ending == .panic then .a "panic" else v

/-- `none` = that call panicked. -/
def optPanic {α : Type} (f : V → Option α) (v : V) : Option (Option α) :=
  if v == V.a "panic" then some none else (f v).map some

/-- First reachable vertex that `xs` lacks, or first vertex of `xs` that is not reachable. -/
def exactErr (g : Graph) (reach : Array Bool) (xs : List Nat) : Option String :=
  match xs.find? (fun v => !(reach[v]?).getD false) with
  | some v => some s!"vertex {v} yielded but not reachable (or out of range)"
  | none =>
    match (List.range g.n).find? (fun v => (reach[v]?).getD false && !xs.contains v) with
    | some v => some s!"reachable vertex {v} never yielded"
    | none => none

inductive Judge where
  | ok
  | incomplete (why : String)   -- every step valid, but reachable vertices are missing
  | bad (why : String)          -- anything else

/-- The oracle on one vertex sequence with optional annotations to compare. -/
def judgeSeq (g : Graph) (S : List Nat) (reach : Array Bool) (what : String) (xs : List Nat)
    (depths : Option (List Nat)) (preds : Option (List (Option Nat))) : Judge × Option (List Ann) :=
  match annotate g S xs with
  | none =>
    -- locate the first bad step for the message
    let k := ((List.range (xs.length + 1)).find? (fun k => (annotate g S (xs.take k)).isNone)).getD 0
    (.bad s!"{what}: item {k} (vertex {(xs[k-1]?).getD 0}) is not a valid depth-first step", none)
  | some ann =>
    let dOK := match depths with | none => true | some ds => ds == ann.map (·.2.2)
    let pOK := match preds with | none => true | some ps => ps == ann.map (·.2.1)
    if !dOK then (.bad s!"{what}: reported depths differ from the search-tree depths {ann.map (·.2.2)}", some ann)
    else if !pOK then (.bad s!"{what}: reported predecessors differ from the search-tree parents", some ann)
    else match exactErr g reach xs with
      | none => (.ok, some ann)
      | some why =>
        if why.startsWith "reachable" then (.incomplete s!"{what}: {why} ({xs.length} yielded)", some ann)
        else (.bad s!"{what}: {why}", some ann)

def isStrictPrefix {α : Type} [BEq α] (xs ys : List α) : Bool := xs.length < ys.length && ys.take xs.length == xs

inductive Kind where
  | iter | dist | pred
  deriving BEq

/-- Parse the observation: vertex sequence, optional depths / preds, optional tree, items as
values. Outer `none` = malformed, inner `none` = the call panicked. -/
def parseObs (kind : Kind) (observed : List V) :
    Option (Option (List Nat × Option (List Nat) × Option (List (Option Nat)) × Option (List (Option Nat)) × List V)) :=
    match kind, observed with
    | .iter, [a] => do
      let r ← optPanic (V.listOf? V.nat?) a
      pure (r.map (fun xs => (xs, none, none, none, a.list?.getD [])))
    | .dist, [a] => do
      let r ← optPanic (V.listOf? (V.pair? V.nat? V.nat?)) a
      pure (r.map (fun ds => (ds.map (·.1), some (ds.map (·.2)), none, none, a.list?.getD [])))
    | .pred, [a, t] => do
      let r ← optPanic (V.listOf? (V.pair? (V.opt? V.nat?) V.nat?)) a
      let rt ← optPanic (V.listOf? (V.opt? V.nat?)) t
      pure (match r, rt with
        | some ps, some tree => some (ps.map (·.2), none, some (ps.map (·.1)), some tree, a.list?.getD [])
        | _, _ => none)
    -- the whole evaluation panicked (building the digraph): `=> panic`
    | .pred, [a] => if a == V.a "panic" then some none else none
    | _, _ => none

/-- Orders above 4096: oracle only (no model, hence never MISMATCH / KNOWN), out-forests whose
sources are roots only (every vertex is pushed at most once, so no stale entry exists and the full
property must hold).  `forestParentsRec` / `forestJudgeRec` (`Spec/OracleFast.lean`) are PROVED:
acceptance ↔ `DfsOK` / `DfsDistOK` / `DfsPredOK` (`GraafVerif.OraclesFast.forestJudgeRec_dfs/_dist/_pred`,
`forestParentsRec_sound`, `forest_wf_ofRows`). -/
def runLight (kind : Kind) (d : GDesc) (S : List Nat) (fam : String) (observed : List V) : Option Verdict := do
  let g := d.graph
  let par ← forestParentsRec g S
  let parsed ← parseObs kind observed
  let tags := [ "repr-" ++ d.repr, sizeTag g.n, "fam-" ++ (fam.splitOn ":").headD "none", "oracle-only" ]
  match parsed with
  | none =>
    pure { status := "PROPFAIL", nontrivial := true, tags := "res-panic" :: tags,
           detail := "the search panicked on a digraph with in-range arcs and in-range sources" }
  | some (xs, depths, preds, tree, _) =>
    match forestJudgeRec g S par xs depths preds tree with
    | none => pure { status := "OK", nontrivial := true, tags := "res-complete" :: tags }
    | some w => pure { status := "PROPFAIL", nontrivial := true, tags := "res-bad" :: tags, detail := w }

/-- One iterator of one case. `observed` is what the real code returned. -/
def run (kind : Kind) (d : GDesc) (S : List Nat) (fam : String) (observed : List V) : Option Verdict := do
  let g := d.graph
  -- model of TODAY's code and of the corrected variant, as (output values, vertex sequence, items as values, ending)
  let fF := fuelFixed g S
  let (model, mEnd, fItems, fEnd, kStale) : List V × Ending × List V × Ending × Option Nat :=
    match kind with
    | .iter =>
      let m := dfs g S; let f := dfsFixed g S
      ([orPanic m (V.ofNats m.verts)], m.ending, f.verts.map V.ofNat, f.ending, staleAt g childU fF (new g S ()))
    | .dist =>
      let m := dfsDist g S; let f := dfsDistFixed g S
      ([orPanic m (vDist m.items)], m.ending, (vDist f.items).list?.getD [], f.ending, staleAt g childD fF (new g S 0))
    | .pred =>
      let m := dfsPred g S; let f := dfsPredFixed g S
      ([orPanic m (vPred m.items), orPanic m (vTree (predFold g.n m.items))], m.ending,
        (vPred f.items).list?.getD [], f.ending, staleAt g childP fF (new g S none))
  let distinct := S.eraseDups.length == S.length
  let applicable := S.all (· < g.n) && distinct && d.arcs.all (fun a => a.1 < g.n && a.2 < g.n)
  let staleTag := if mEnd == .stale then "stale-pop" else if mEnd == .done then "no-stale-pop" else "model-panic"
  let tags := [ "repr-" ++ d.repr, sizeTag g.n, "fam-" ++ (fam.splitOn ":").headD "none",
                "src-as-" ++ ((fam.splitOn ":")[2]?).getD "vec",
                (if S.length == 0 then "src0" else if S.length == 1 then "src1" else "src>1"), staleTag ]
  if !applicable then
    -- outside the property (C13 owns out-of-range arguments): correspondence only
    pure (classify observed model none (nt := false) ("not-applicable" :: tags))
  else
  let parsed ← parseObs kind observed
  match parsed with
  | none =>
    pure { status := "PROPFAIL", nontrivial := true, tags := "res-panic" :: tags,
           detail := "the search panicked on a digraph with in-range arcs and in-range sources" }
  | some (xs, depths, preds, tree, obsItems) =>
    let nt := xs.length ≥ 2
    let what := match kind with | .iter => "Dfs" | .dist => "DfsDist" | .pred => "DfsPred"
    let reach := (reachSetB g S).toArray
    let (j, ann) := judgeSeq g S reach what xs depths preds
    let jt : Judge := match ann, tree with
      | some ann, some tree =>
        if tree == forestOf g.n ann then .ok else .bad "predecessors() is not the forest of the DfsPred search"
      | _, _ => .ok
    -- run-time cross-check of the (proved) forest judge against the specification's `annotate`
    let (agree, tags) : Bool × List String := match forestParentsRec g S with
      | none => (true, tags)
      | some par =>
        let accepted := match j, jt with | .ok, .ok => true | _, _ => false
        ((forestJudgeRec g S par xs depths preds tree).isNone == accepted, "forest-xcheck" :: tags)
    if !agree then none else
    match j, jt with
    | .bad w, _ => pure { status := "PROPFAIL", nontrivial := nt, tags := "res-bad" :: tags, detail := w }
    | _, .bad w => pure { status := "PROPFAIL", nontrivial := nt, tags := "res-bad" :: tags, detail := w }
    | .ok, _ =>
      let extra := if observed != model && obsItems == fItems then ["impl-eq-corrected-variant"] else []
      pure (classify observed model none nt ("res-complete" :: extra ++ tags))
    | .incomplete w, _ =>
      -- signature of the known finding, decided mechanically
      let sig :=
        observed == model && mEnd == .stale && fEnd == .done &&
        isStrictPrefix obsItems fItems && kStale == some obsItems.length
      if sig then pure (known "early-stop-on-stale-pop" w nt ("res-incomplete" :: tags))
      else pure { status := "PROPFAIL", nontrivial := nt, tags := "res-incomplete" :: tags, detail := w }

/-- Compact descriptions (`ops/c06.rs`): `[k repr n a b m t rm]` = arc `u→v` (`u ≠ v`) iff
`(u·a + v·b) mod m < t`, minus the arcs `rm`; `[b repr n h]` = broom `0→h`, `h→v` for `v ∉ {0,h}`.
Expanded to a `GDesc` (rows listed descending, so that `insertAsc` is constant time). -/
def compact? : V → Option GDesc
  | .l [.a "k", .a repr, n, a, b, m, t, rm] => do
    let n ← V.nat? n; let a ← V.nat? a; let b ← V.nat? b; let m ← V.nat? m; let t ← V.nat? t
    let rm ← V.listOf? (V.pair? V.nat? V.nat?) rm
    if m == 0 || n > 4096 then none else
    let vs := (List.range n).reverse
    let arcs := (List.range n).flatMap (fun u =>
      (vs.filter (fun v => u != v && (u * a + v * b) % m < t && !rm.contains (u, v))).map (fun v => (u, v)))
    pure ⟨repr, List.range n, n, arcs, arcs.map (fun x => (x.1, x.2, 1))⟩
  | .l [.a "b", .a repr, n, h] => do
    let n ← V.nat? n; let h ← V.nat? h
    if h ≥ n || n > 200000 then none else
    let arcs := ((List.range n).reverse.filter (fun v => v != 0 && v != h)).map (fun v => (h, v))
    let arcs := if h != 0 then (0, h) :: arcs else arcs
    pure ⟨repr, List.range n, n, arcs, arcs.map (fun x => (x.1, x.2, 1))⟩
  | _ => none

/-- `dfs_repoll`: the three poll sequences against `pollTrace` (correspondence only). -/
def runRepoll (d : GDesc) (S : List Nat) (fam : String) (observed : List V) : Option Verdict := do
  let g := d.graph
  let fF := fuelFixed g S
  let show1 {α : Type} (f : Nat × α → V) (t : List (Option (Nat × α))) : V :=
    .l ((trimNones t).map (fun o => match o with | none => V.a "none" | some x => f x))
  let t1 := pollTrace g childU fF (new g S ())
  let model : List V :=
    [ show1 (fun x => V.ofNat x.1) t1,
      show1 (fun x => .l [V.ofNat x.1, V.ofNat x.2]) (pollTrace g childD fF (new g S 0)),
      show1 (fun x => .l [V.ofOptNat x.2, V.ofNat x.1]) (pollTrace g childP fF (new g S none)) ]
  let applicable := S.all (· < g.n) && S.eraseDups.length == S.length && d.arcs.all (fun a => a.1 < g.n && a.2 < g.n)
  if !applicable then none else
  let nones := (trimNones t1).filter Option.isNone |>.length
  let tags := [ "repr-" ++ d.repr, sizeTag g.n, "fam-" ++ (fam.splitOn ":").headD "none",
                if nones == 0 then "repoll-no-none" else "repoll-through-none" ]
  pure (classify observed model none (t1.length ≥ 2) tags)

def hRepoll : Handler := fun _ args obs => do
  let (desc, src, fam) ← match args with
    | [desc, src] => some (desc, src, "none")
    | [desc, src, .a fam] => some (desc, src, fam)
    | _ => none
  let d ← (compact? desc).orElse (fun _ => GDesc.parse desc)
  let S ← V.listOf? V.nat? src
  if d.repr == "am" && d.verts != List.range d.order then none
  else if d.order == 0 || d.order > 4096 || d.arcs.any (fun a => a.1 == a.2) then none
  else runRepoll d S fam obs

def handler (kind : Kind) : Handler := fun _ args obs => do
  let (desc, src, fam) ← match args with
    | [desc, src] => some (desc, src, "none")
    | [desc, src, .a fam] => some (desc, src, fam)
    | [desc, src, .a fam, .a shape] =>
      if ["vec", "filter", "flatten", "takewhile", "mapwhile"].contains shape then some (desc, src, fam ++ ":" ++ shape)
      else none
    | _ => none
  let d ← (compact? desc).orElse (fun _ => GDesc.parse desc)
  let S ← V.listOf? V.nat? src
  -- outside the protocol's domain (the harness cannot even build these: graaf panics on `empty(0)`
  -- and on self-loops; non-contiguous `am` is not C06's vertex set): BADLINE, never a verdict
  if d.repr == "am" && d.verts != List.range d.order then none
  else if d.order == 0 || d.arcs.any (fun a => a.1 == a.2) then none
  else if d.order > 4096 then runLight kind d S fam obs
  else run kind d S fam obs

def handlers : List (String × Handler) :=
  [("dfs_iter", handler .iter), ("dfs_dist", handler .dist), ("dfs_pred", handler .pred),
   ("dfs_repoll", hRepoll)]

end GraafVerif.Driver.H06
