import GraafVerif.Driver.Common
/-! Driver handlers for property C06 (ops the harness module `ops/c06.rs` emits). -/
namespace GraafVerif.Driver.H06
open GraafVerif GraafVerif.Driver

def handlers : List (String × Handler) := []

end GraafVerif.Driver.H06
