import GraafVerif.Driver.Common
import GraafVerif.Model.Dfs
import GraafVerif.Spec.Dfs
/-!
Driver handlers for C06.

    dfs_iter <desc> <sources> [family]  =>  <Dfs items>
    dfs_dist <desc> <sources> [family]  =>  <DfsDist items>                     items `[v depth]`
    dfs_pred <desc> <sources> [family]  =>  <DfsPred items> <predecessors()>    items `[pred v]`, vector of `none | id`

each output is a list or the atom `panic`.

Verdict (per op, i.e. per iterator):
* the property oracle (`Spec/Dfs.lean` + the naive reachability oracle `reachSetB` of `Spec/Graph.lean`) judges the
  IMPLEMENTATION's output: the sequence must be a depth-first preorder with the prescribed
  parents / depths, `predecessors()` its forest, and the yielded set the reachable set;
* `KNOWN early-stop-on-stale-pop` only when (i) the implementation's output equals the model of
  today's code, whose run ended at a stale pop, (ii) every step of what was yielded is valid
  (and `predecessors()` is the forest of what was yielded), the ONLY defect being missing
  reachable vertices, and (iii) the item sequence is a strict prefix of what the corrected
  variant yields, of exactly the length at which the corrected variant pops its first stale
  entry (`staleAt`);
* any other rejection by the oracle is `PROPFAIL`; model disagreement alone is `MISMATCH`.
-/
namespace GraafVerif.Driver.H06
open GraafVerif GraafVerif.Driver GraafVerif.Dfs

def vDist (items : List (Nat × Nat)) : V := .l (items.map (fun x => .l [V.ofNat x.1, V.ofNat x.2]))
def vPred (items : List (Nat × Option Nat)) : V := .l (items.map (fun x => .l [V.ofOptNat x.2, V.ofNat x.1]))
def vTree (t : List (Option Nat)) : V := .l (t.map V.ofOptNat)

def orPanic {α : Type} (o : Out α) (v : V) : V := if o.ending == .panic then .a "panic" else v

/-- `none` = that call panicked. -/
def optPanic {α : Type} (f : V → Option α) (v : V) : Option (Option α) :=
  if v == V.a "panic" then some none else (f v).map some

/-- First reachable vertex that `xs` lacks, or first vertex of `xs` that is not reachable. -/
def exactErr (g : Graph) (reach : Array Bool) (xs : List Nat) : Option String :=
  match xs.find? (fun v => !(reach[v]?).getD false) with
  | some v => some s!"vertex {v} yielded but not reachable (or out of range)"
  | none =>
    match (List.range g.n).find? (fun v => (reach[v]?).getD false && !xs.contains v) with
    | some v => some s!"reachable vertex {v} never yielded"
    | none => none

inductive Judge where
  | ok
  | incomplete (why : String)   -- every step valid, but reachable vertices are missing
  | bad (why : String)          -- anything else

/-- The oracle on one vertex sequence with optional annotations to compare. -/
def judgeSeq (g : Graph) (S : List Nat) (reach : Array Bool) (what : String) (xs : List Nat)
    (depths : Option (List Nat)) (preds : Option (List (Option Nat))) : Judge × Option (List Ann) :=
  match annotate g S xs with
  | none =>
    -- locate the first bad step for the message
    let k := ((List.range (xs.length + 1)).find? (fun k => (annotate g S (xs.take k)).isNone)).getD 0
    (.bad s!"{what}: item {k} (vertex {(xs[k-1]?).getD 0}) is not a valid depth-first step", none)
  | some ann =>
    let dOK := match depths with | none => true | some ds => ds == ann.map (·.2.2)
    let pOK := match preds with | none => true | some ps => ps == ann.map (·.2.1)
    if !dOK then (.bad s!"{what}: reported depths differ from the search-tree depths {ann.map (·.2.2)}", some ann)
    else if !pOK then (.bad s!"{what}: reported predecessors differ from the search-tree parents", some ann)
    else match exactErr g reach xs with
      | none => (.ok, some ann)
      | some why =>
        if why.startsWith "reachable" then (.incomplete s!"{what}: {why} ({xs.length} yielded)", some ann)
        else (.bad s!"{what}: {why}", some ann)

def isStrictPrefix {α : Type} [BEq α] (xs ys : List α) : Bool := xs.length < ys.length && ys.take xs.length == xs

inductive Kind where
  | iter | dist | pred
  deriving BEq

/-- One iterator of one case. `observed` is what the real code returned. -/
def run (kind : Kind) (d : GDesc) (S : List Nat) (fam : String) (observed : List V) : Option Verdict := do
  let g := d.graph
  -- model of TODAY's code and of the corrected variant, as (output values, vertex sequence, items as values, ending)
  let fF := fuelFixed g S
  let (model, mEnd, fItems, fEnd, kStale) : List V × Ending × List V × Ending × Option Nat :=
    match kind with
    | .iter =>
      let m := dfs g S; let f := dfsFixed g S
      ([orPanic m (V.ofNats m.verts)], m.ending, f.verts.map V.ofNat, f.ending, staleAt g childU fF (new g S ()))
    | .dist =>
      let m := dfsDist g S; let f := dfsDistFixed g S
      ([orPanic m (vDist m.items)], m.ending, (vDist f.items).list?.getD [], f.ending, staleAt g childD fF (new g S 0))
    | .pred =>
      let m := dfsPred g S; let f := dfsPredFixed g S
      ([orPanic m (vPred m.items), orPanic m (vTree (predFold g.n m.items))], m.ending,
        (vPred f.items).list?.getD [], f.ending, staleAt g childP fF (new g S none))
  let distinct := S.eraseDups.length == S.length
  let applicable := S.all (· < g.n) && distinct && d.arcs.all (fun a => a.1 < g.n && a.2 < g.n)
  let staleTag := if mEnd == .stale then "stale-pop" else if mEnd == .done then "no-stale-pop" else "model-panic"
  let tags := [ "repr-" ++ d.repr, sizeTag g.n, "fam-" ++ (fam.splitOn ":").headD "none",
                (if S.length == 0 then "src0" else if S.length == 1 then "src1" else "src>1"), staleTag ]
  if !applicable then
    -- outside the property (C13 owns out-of-range arguments): correspondence only
    pure (classify observed model none (nt := false) ("not-applicable" :: tags))
  else
  -- parse the observation: vertex sequence, optional depths / preds, optional tree, items as values
  let parsed : Option (Option (List Nat × Option (List Nat) × Option (List (Option Nat)) × Option (List (Option Nat)) × List V)) :=
    match kind, observed with
    | .iter, [a] => do
      let r ← optPanic (V.listOf? V.nat?) a
      pure (r.map (fun xs => (xs, none, none, none, a.list?.getD [])))
    | .dist, [a] => do
      let r ← optPanic (V.listOf? (V.pair? V.nat? V.nat?)) a
      pure (r.map (fun ds => (ds.map (·.1), some (ds.map (·.2)), none, none, a.list?.getD [])))
    | .pred, [a, t] => do
      let r ← optPanic (V.listOf? (V.pair? (V.opt? V.nat?) V.nat?)) a
      let rt ← optPanic (V.listOf? (V.opt? V.nat?)) t
      pure (match r, rt with
        | some ps, some tree => some (ps.map (·.2), none, some (ps.map (·.1)), some tree, a.list?.getD [])
        | _, _ => none)
    -- the whole evaluation panicked (building the digraph): `=> panic`
    | .pred, [a] => if a == V.a "panic" then some none else none
    | _, _ => none
  let parsed ← parsed
  match parsed with
  | none =>
    pure { status := "PROPFAIL", nontrivial := true, tags := "res-panic" :: tags,
           detail := "the search panicked on a digraph with in-range arcs and in-range sources" }
  | some (xs, depths, preds, tree, obsItems) =>
    let nt := xs.length ≥ 2
    let what := match kind with | .iter => "Dfs" | .dist => "DfsDist" | .pred => "DfsPred"
    let reach := (reachSetB g S).toArray
    let (j, ann) := judgeSeq g S reach what xs depths preds
    let jt : Judge := match ann, tree with
      | some ann, some tree =>
        if tree == forestOf g.n ann then .ok else .bad "predecessors() is not the forest of the DfsPred search"
      | _, _ => .ok
    match j, jt with
    | .bad w, _ => pure { status := "PROPFAIL", nontrivial := nt, tags := "res-bad" :: tags, detail := w }
    | _, .bad w => pure { status := "PROPFAIL", nontrivial := nt, tags := "res-bad" :: tags, detail := w }
    | .ok, _ =>
      let extra := if observed != model && obsItems == fItems then ["impl-eq-corrected-variant"] else []
      pure (classify observed model none nt ("res-complete" :: extra ++ tags))
    | .incomplete w, _ =>
      -- signature of the known finding, decided mechanically
      let sig :=
        observed == model && mEnd == .stale && fEnd == .done &&
        isStrictPrefix obsItems fItems && kStale == some obsItems.length
      if sig then pure (known "early-stop-on-stale-pop" w nt ("res-incomplete" :: tags))
      else pure { status := "PROPFAIL", nontrivial := nt, tags := "res-incomplete" :: tags, detail := w }

def handler (kind : Kind) : Handler := fun _ args obs => do
  let (desc, src, fam) ← match args with
    | [desc, src] => some (desc, src, "none")
    | [desc, src, .a fam] => some (desc, src, fam)
    | _ => none
  let d ← GDesc.parse desc
  let S ← V.listOf? V.nat? src
  -- outside the protocol's domain (the harness cannot even build these: graaf panics on `empty(0)`
  -- and on self-loops; non-contiguous `am` is not C06's vertex set): BADLINE, never a verdict
  if d.repr == "am" && d.verts != List.range d.order then none
  else if d.order == 0 || d.arcs.any (fun a => a.1 == a.2) then none
  else run kind d S fam obs

def handlers : List (String × Handler) :=
  [("dfs_iter", handler .iter), ("dfs_dist", handler .dist), ("dfs_pred", handler .pred)]

end GraafVerif.Driver.H06
