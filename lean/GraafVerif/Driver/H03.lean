import GraafVerif.Driver.Common
import GraafVerif.Model.Dijkstra
/-!
Driver handlers for property C03 and the DijkstraPred half of C05 (ops of `ops/c03.rs`).

  dijkstra_all       <wu-desc> <sources>        => panic | [v…] [[v d]…] [dist…]
  dijkstra_pred_tree <wu-desc> <sources>        => panic | [[p v]…] [pred…]
  dijkstra_pred_sp   <wu-desc> <sources> <tgt>  => panic | none | [path]
  dijkstra_repoll    <wu-desc> <sources> <k>    => [v…] [after…] [[v d]…] [dist…] [dist…] nx [pred…] pn [pred…]
      (state carried between calls: polls after `None`; `k` items then `distances()` twice then `next()`
       on ONE `DijkstraDist`; `predecessors()`, `next()`, `predecessors()` on ONE `DijkstraPred`)

`tgt` ∈ `[in [ids]] always never`.  `usize::MAX` is printed literally by the harness.

Oracles (only what the properties state): independent distances `wdistB` (Bellman-Ford rounds).
-/
namespace GraafVerif.Driver.H03
open GraafVerif GraafVerif.Driver GraafVerif.Dijkstra

def usizeMax : Int := 18446744073709551615

def distV : Option Int → V
  | none => .i usizeMax
  | some d => .i d

def getO {α : Type} (l : List (Option α)) (i : Nat) : Option α := (l[i]?).getD none

/-- Bellman-Ford rounds on an `Array` with early exit (same relaxation rule as `wdistB`, which is
quadratic per round on lists); used as the oracle for orders above 60. -/
def fastDist (g : WGraph) (S : List Nat) : List (Option Int) :=
  let init : Array (Option Int) := S.foldl (fun d s => d.setIfInBounds s (some 0)) (Array.replicate g.n none)
  let round (d : Array (Option Int)) : Array (Option Int) × Bool :=
    (List.range g.n).foldl (fun (acc : Array (Option Int) × Bool) u =>
      match acc with
      | (arr, ch) =>
        match arr.getD u none with
        | none => (arr, ch)
        | some du => (g.out u).foldl (fun (a : Array (Option Int) × Bool) vw =>
            match a with
            | (ar, c) =>
              match ar.getD vw.1 none with
              | none => (ar.setIfInBounds vw.1 (some (du + vw.2)), true)
              | some dv => if du + vw.2 < dv then (ar.setIfInBounds vw.1 (some (du + vw.2)), true) else (ar, c))
            (arr, ch)) (d, false)
  let rec go (fuel : Nat) (d : Array (Option Int)) : Array (Option Int) :=
    match fuel with
    | 0 => d
    | f+1 => match round d with
      | (d', true) => go f d'
      | (d', false) => d'
  (go (g.n + 1) init).toList

/-- The independent distances the oracles use. -/
def oracleDist (g : WGraph) (S : List Nat) : List (Option Int) :=
  if g.n ≤ 60 then (wdistB g S).1 else fastDist g S

def countOf (xs : List Nat) (v : Nat) : Nat := (xs.filter (· == v)).length

/-- First violated clause of "every reachable vertex exactly once, no unreachable one,
non-decreasing distance" for an emitted vertex sequence. -/
def seqFail (n : Nat) (wd : List (Option Int)) (vs : List Nat) : Option String :=
  let unreach := vs.filter (fun v => (getO wd v).isNone)
  let missing := (List.range n).filter (fun v => (getO wd v).isSome && countOf vs v != 1)
  let ds := vs.map (fun v => (getO wd v).getD 0)
  let sorted := (ds.zip (ds.drop 1)).all (fun p => decide (p.1 ≤ p.2))
  if !unreach.isEmpty then some s!"emits-unreachable-vertex {unreach.head!}"
  else if !missing.isEmpty then some s!"reachable-vertex-{missing.head!}-emitted-{countOf vs missing.head!}-times"
  else if !sorted then some "not-in-nondecreasing-distance-order"
  else none

def firstSome : List (Option String) → Option String
  | [] => none
  | some s :: _ => some s
  | none :: r => firstSome r

def parseSources (n : Nat) (v : V) : Option (List Nat) := do
  let s ← V.listOf? V.nat? v
  if s.all (· < n) && s.eraseDups.length == s.length then some s else none

def parseW (v : V) : Option GDesc := do
  let d ← GDesc.parse v
  if d.repr == "wu" && d.warcs.all (fun a => decide (0 ≤ a.2.2) && a.1 != a.2.1 && a.1 < d.order && a.2.1 < d.order)
  then some d else none

/-- Does some popped entry of the model run fail the freshness test (superseded entry)? -/
def staleCount (g : WGraph) (S : List Nat) : Nat :=
  -- number of pushes − number of emissions = superseded entries
  let emitted := (entries g (fun _ => none) S).length
  let rec pushes (fuel : Nat) (st : State) (acc : Nat) : Nat :=
    match fuel with
    | 0 => acc
    | f+1 => match popMax st.heap with
      | none => acc
      | some (e, h) =>
        if dOf st.dist e.v = some e.d then
          let st' := (g.out e.v).foldl (relax (fun _ => none) e.v e.d) ⟨st.dist, h⟩
          pushes f st' (acc + (st'.heap.length - h.length))
        else pushes f ⟨st.dist, h⟩ acc
  pushes (fuel g S) (init g.n S) S.length - emitted

def commonTags (d : GDesc) (S : List Nat) (wd : List (Option Int)) : List String :=
  let reach := (wd.filter Option.isSome).length
  let zero := d.warcs.any (fun a => a.2.2 == 0)
  [ sizeTag d.order, s!"src{min S.length 4}",
    if reach == d.order then "all-reachable" else if reach == 0 then "none-reachable" else "some-unreachable",
    if zero then "zero-weights" else "positive-weights",
    if d.warcs.any (fun a => decide (a.2.2 ≥ 1099511627776)) then "w>=2^40"
    else if d.warcs.any (fun a => decide (a.2.2 > 9)) then "wide" else "narrow",
    if wd.any (fun o => decide (o.getD 0 ≥ 9223372036854775807)) then "dist>=2^63-1"
    else if wd.any (fun o => decide (o.getD 0 ≥ 4611686018427387904)) then "dist>=2^62" else "dist<2^62" ]

def hAll : Handler := fun _ args obs =>
  match args with
  | [dv, sv] => do
    let d ← parseW dv
    let S ← parseSources d.order sv
    let g := d.wgraph
    let wd := oracleDist g S
    let E := entries g (fun _ => none) S     -- `dijkstra`, `dijkstraDist`, `distances` are maps/folds of it
    let mIter := E.map (·.v)
    let mDist := E.map (fun e => (e.v, e.d))
    let mDs := distancesOf g.n mDist
    let model : List V := [V.ofNats mIter, .l (mDist.map (fun p => .l [V.ofNat p.1, .i p.2])), .l (mDs.map distV)]
    let stale := if d.order ≤ 60 then staleCount g S else (if E.length < d.warcs.length then 1 else 0)
    let ties := (mDist.zip (mDist.drop 1)).any (fun p => p.1.2 == p.2.2)
    let tags := commonTags d S wd ++ [if stale > 0 then "superseded-entry" else "no-superseded", if ties then "ties" else "no-ties"]
    let nt := d.order ≥ 2 && !S.isEmpty && mIter.length ≥ 2
    let propFail : Option String :=
      match obs with
      | [it, di, ds] =>
        match V.listOf? V.nat? it, V.listOf? (V.pair? V.nat? V.int?) di,
              (if ds == V.a "overrun" then some [] else V.listOf? V.int? ds) with
        | some it, some di, some ds =>
          firstSome [
            (seqFail d.order wd it).map ("Dijkstra: " ++ ·),
            (seqFail d.order wd (di.map (·.1))).map ("DijkstraDist: " ++ ·),
            (di.find? (fun p => getO wd p.1 != some p.2)).map
              (fun p => s!"DijkstraDist: item ({p.1}, {p.2}) but minimum walk weight is {distV (getO wd p.1)}"),
            if di.length > d.order then some "DijkstraDist yields more items than the digraph has vertices" else none,
            if ds == wd.map (fun o => o.getD usizeMax) then none
            else some s!"distances() differs from the minimum walk weights {wd.map distV}" ]
        | _, _, _ => some "output-not-parsable"
      | _ => some s!"unexpected-output {obs}"
    pure (classify obs model propFail nt tags)
  | _ => none

/-- Weight of arc `u → v` (rows are maps: one weight per pair). -/
def arcW (g : WGraph) (u v : Nat) : Option Int := ((g.out u).find? (fun a => a.1 == v)).map (·.2)

def predFail (g : WGraph) (S : List Nat) (wd : List (Option Int)) (pred : List (Option Nat)) : Option String :=
  if pred.length != g.n then some "pred-length" else
  firstSome ((List.range g.n).map (fun v =>
    match getO wd v, getO pred v with
    | none, none => none
    | none, some u => some s!"unreachable vertex {v} has predecessor {u}"
    | some dv, none => if S.contains v then none else some s!"reachable non-source {v} (distance {dv}) has no predecessor"
    | some dv, some u =>
      if S.contains v then some s!"source {v} has predecessor {u}" else
      match arcW g u v, getO wd u with
      | some w, some du => if du + w == dv then none else some s!"pred arc {u}->{v} is not tight: {du}+{w} != {dv}"
      | none, _ => some s!"pred {u}->{v} is not an arc"
      | _, none => some s!"pred {u} of {v} is unreachable"))

def hPredTree : Handler := fun _ args obs =>
  match args with
  | [dv, sv] => do
    let d ← parseW dv
    let S ← parseSources d.order sv
    let g := d.wgraph
    let wd := oracleDist g S
    let mItems := dijkstraPred g S
    let mPred := predecessors g S
    let model : List V := [.l (mItems.map (fun p => .l [V.ofOptNat p.1, V.ofNat p.2])), .l (mPred.map V.ofOptNat)]
    let tags := "pred-tree" :: commonTags d S wd
    let nt := d.order ≥ 2 && !S.isEmpty && mItems.length ≥ 2
    let propFail : Option String :=
      match obs with
      | [_, .a "overrun"] => some "DijkstraPred yields more items than the digraph has vertices"
      | [_, pv] =>
        match V.listOf? (V.opt? V.nat?) pv with
        | some pred => predFail g S wd pred
        | none => some "output-not-parsable"
      | _ => some s!"unexpected-output {obs}"
    pure (classify obs model propFail nt tags)
  | _ => none

def parseTgt : V → Option (Nat → Bool)
  | .l [.a "in", ts] => do let ts ← V.listOf? V.nat? ts; pure (fun v => ts.contains v)
  | .a "always" => some (fun _ => true)
  | .a "never" => some (fun _ => false)
  | _ => none

/-- Weight of a vertex sequence as a walk, `none` when some step is not an arc. -/
def walkW (g : WGraph) : List Nat → Option Int
  | [] => some 0
  | [_] => some 0
  | u :: v :: rest => do
    let w ← arcW g u v
    let r ← walkW g (v :: rest)
    pure (w + r)

def minOpt : List Int → Option Int
  | [] => none
  | x :: xs => some (xs.foldl min x)

def hPredSp : Handler := fun _ args obs =>
  match args with
  | [dv, sv, tv] => do
    let d ← parseW dv
    let S ← parseSources d.order sv
    let isT ← parseTgt tv
    let g := d.wgraph
    let wd := oracleDist g S
    let model : List V := match shortestPath g S isT with
      | .panic => [.a "panic"]
      | .ret none => [.a "none"]
      | .ret (some p) => [V.ofNats p]
    let tdists := (List.range g.n).filterMap (fun v => if isT v then getO wd v else none)
    let best := minOpt tdists
    let srcIsTarget := S.any isT
    let tags := "shortest-path" :: commonTags d S wd ++
      [ match best with | none => "no-reachable-target" | some _ => if srcIsTarget then "source-is-target" else "target-reachable",
        if tdists.length ≥ 2 then "competing-targets" else "le1-target" ]
    let nt := d.order ≥ 2 && !S.isEmpty
    let propFail : Option String :=
      match obs, best with
      | [.a "overrun"], _ => some "DijkstraPred yields more items than the digraph has vertices"
      | [.a "none"], none => none
      | [.a "none"], some b => some s!"returned None but a target is reachable at distance {b}"
      | [pv], best =>
        match V.listOf? V.nat? pv with
        | none => some s!"unexpected-output {obs}"
        | some path =>
          match best with
          | none => some "returned a path but no target is reachable"
          | some b =>
            match path.head?, path.getLast? with
            | some a, some z =>
              if !S.contains a then some s!"path starts at non-source {a}"
              else if !isT z then some s!"path ends at non-target {z}"
              else match walkW g path with
                | none => some "path is not a walk of the digraph"
                | some w => if w == b then none else some s!"path weight {w} but the nearest target is at {b}"
            | _, _ => some "empty path"
      | _, _ => some s!"unexpected-output {obs}"
    pure (classify obs model propFail nt tags)
  | _ => none

/-- State carried between calls.  Model: an exhausted iterator keeps returning `None` (`next` on
an empty heap); `distances()` / `predecessors()` fold whatever the object still yields, so a second
call returns the untouched `MAX` / `None` vector. -/
def hRepoll : Handler := fun _ args obs =>
  match args with
  | [dv, sv, kv] => do
    let d ← parseW dv
    let S ← parseSources d.order sv
    let k ← V.nat? kv
    let g := d.wgraph
    let wd := oracleDist g S
    let E := entries g (fun _ => none) S
    let items := E.map (fun e => (e.v, e.d))
    let mPred := predecessors g S
    let noneV := V.a "none"
    let pairsV (l : List (Nat × Int)) : V := .l (l.map (fun p => .l [V.ofNat p.1, .i p.2]))
    let model : List V :=
      [ V.ofNats (E.map (·.v)), .l [noneV, noneV, noneV],
        pairsV (items.take k), .l ((distancesOf g.n (items.drop k)).map distV),
        .l ((distancesOf g.n []).map distV), noneV,
        .l (mPred.map V.ofOptNat), noneV, .l ((predecessorsOf g.n []).map V.ofOptNat) ]
    let tags := "repoll" :: commonTags d S wd ++ [if k == 0 then "k=0" else if k ≥ E.length then "k>=all" else "k-partial"]
    let nt := d.order ≥ 2 && !S.isEmpty && E.length ≥ 2
    let propFail : Option String :=
      match obs with
      | [it, .a "overrun"] =>
        match V.listOf? V.nat? it with
        | some it => (seqFail d.order wd it).map ("Dijkstra: " ++ ·) <|> some "Dijkstra never returns None"
        | none => some "output-not-parsable"
      | [it, after, first, d1, _, nx, p1, pn, _] =>
        match V.listOf? V.nat? it, V.listOf? (V.pair? V.nat? V.int?) first, V.listOf? V.int? d1,
              V.listOf? (V.opt? V.nat?) p1 with
        | some it, some first, some d1, some p1 =>
          firstSome [
            (seqFail d.order wd it).map ("Dijkstra: " ++ ·),
            if after == .l [noneV, noneV, noneV] then none
            else some s!"Dijkstra yields {after} after it returned None (every reachable vertex was already yielded)",
            (first.find? (fun p => getO wd p.1 != some p.2)).map
              (fun p => s!"DijkstraDist: item ({p.1}, {p.2}) but minimum walk weight is {distV (getO wd p.1)}"),
            -- vertices the object had not yielded yet must get their exact distance from distances()
            ((List.range d.order).find? (fun v => !(first.any (·.1 == v)) &&
                (d1[v]?).getD (-1) != (getO wd v).getD usizeMax)).map
              (fun v => s!"distances() after {first.length} items: [{v}] = {(d1[v]?).getD (-1)}, minimum walk weight is {distV (getO wd v)}"),
            if nx == noneV then none else some s!"DijkstraDist yields {nx} after distances() drained it",
            predFail g S wd p1,
            if pn == noneV then none else some s!"DijkstraPred yields {pn} after predecessors() drained it" ]
        | _, _, _, _ => some "output-not-parsable"
      | _ => some s!"unexpected-output {obs}"
    pure (classify obs model propFail nt tags)
  | _ => none

def handlers : List (String × Handler) :=
  [("dijkstra_all", hAll), ("dijkstra_pred_tree", hPredTree), ("dijkstra_pred_sp", hPredSp),
   ("dijkstra_repoll", hRepoll)]

end GraafVerif.Driver.H03
