import GraafVerif.Driver.Common
/-! Driver handlers for property C03 (ops the harness module `ops/c03.rs` emits). -/
namespace GraafVerif.Driver.H03
open GraafVerif GraafVerif.Driver

def handlers : List (String × Handler) := []

end GraafVerif.Driver.H03
