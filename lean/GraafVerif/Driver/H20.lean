import GraafVerif.Driver.Common
/-! Driver handlers for property C20 (ops the harness module `ops/c20.rs` emits). -/
namespace GraafVerif.Driver.H20
open GraafVerif GraafVerif.Driver

def handlers : List (String × Handler) := []

end GraafVerif.Driver.H20
