import GraafVerif.Driver.Common
import GraafVerif.Driver.H01
import GraafVerif.Model.Conv
/-!
# Driver handlers for C20: `eq_pair <repr> [<startA> <opsA>] [<startB> <opsB>] <mut>`

MODEL side: both histories are replayed on the representation model; `==` is structural
equality of the model structures, `cmp` the derived lexicographic order (`X.cmp`), `clone` the
identity on values, hash equality = structural equality (for unequal structures the hash
comparison is not determined by the model and is copied from the observation).

ORACLE side (on the implementation's output only): `==` ⇔ equal observations
(`order / vertices / arcs(+weights)`); equal ⇒ equal hashes ∧ `cmp = equal`; both observations
agree with the plain arc-set spec; a clone is equal to its original; mutating the clone leaves
the original's observation unchanged and vice versa; the mutated side shows the spec's result.
-/
namespace GraafVerif.Driver.H20
open GraafVerif GraafVerif.Driver GraafVerif.Repr GraafVerif.ReprSpec GraafVerif.Driver.H01

def replay {σ : Type} (vw : View σ) (s : σ) (ops : List HOp) : Option σ :=
  ops.foldlM (fun s op => (vw.step s op).map (·.1)) s

def obs3 {σ : Type} (vw : View σ) (s : σ) : V :=
  .l [V.ofNat (vw.order s), V.ofNats (vw.verts s), showArcs vw.weighted (vw.arcs s)]

def ordToV : Ordering → V
  | .lt => .a "less"
  | .eq => .a "equal"
  | .gt => .a "greater"

/-- How a side's start digraph came out: built, a `From` conversion that panics (`refused`, only
for `[from src]` starts), or a description the builders reject (the whole line panics). -/
inductive St (σ : Type) where
  | built (s : σ)
  | refused
  | panic

def St.ofOpt {σ : Type} : Option σ → St σ
  | some s => .built s
  | none => .panic

def consTrue : V := .l [V.ofBool true, V.ofBool true, V.ofBool true, V.ofBool true]

/-- The model's rendering of the whole output. `obsHashEq` = what the implementation said about
the hashes (used only when the structures differ).  The consistency elements are all `true` in the
model: a model structure is canonical (C20 `Determined`), so draining it gives the empty structure
and rebuilding it from what it shows gives the identical structure. -/
def modelPair {σ : Type} [DecidableEq σ] (vw : View σ) (cmp : σ → σ → Ordering)
    (a0 b0 : St σ) (opsA opsB : List HOp) (m : HOp) (obsHashEq : V) : Option (List V) :=
  match a0, b0 with
  | .panic, _ | _, .panic => none
  | .refused, .built _ => some [.l [.a "refused", .a "a"]]
  | .built _, .refused => some [.l [.a "refused", .a "b"]]
  | .refused, .refused => some [.l [.a "refused", .a "ab"]]
  | .built a0, .built b0 => do
    let a ← replay vw a0 opsA
    let b ← replay vw b0 opsB
    let eq := decide (a = b)
    let head := V.l [V.ofBool eq, ordToV (cmp a b), if eq then V.ofBool true else obsHashEq]
    let (c, ret) ← vw.step a m
    let (b', ret2) ← vw.step b m
    pure [head, obs3 vw a, obs3 vw b,
          .l [V.ofBool true, outToV ret, obs3 vw a, obs3 vw c],
          .l [V.ofBool true, outToV ret2, obs3 vw b', obs3 vw b], consTrue, consTrue]

/-- What a source description shows through `order()` / `arcs()` (input of the `From` macro body). -/
def srcShow (d : GDesc) : Option (Nat × List (Nat × Nat)) :=
  match d.repr with
  | "al" => (buildAL d).map (fun g => (g.order, g.arcs))
  | "am" => (buildAM d).map (fun g => (g.order, g.arcs))
  | "mx" => (buildMX d).map (fun g => (g.order, g.arcs))
  | "el" => (buildEL d).map (fun g => (g.order, g.arcs))
  | _ => none

/-- A `[from src]` start: the `Conv` model of the `From` impl (C16) decides accepted / refused. -/
def fromStart {σ : Type} (conv : Nat → List (Nat × Nat) → Option σ) (src : GDesc) : St σ :=
  match srcShow src with
  | none => .panic
  | some (n, arcs) => match conv n arcs with
    | some g => .built g
    | none => .refused

def specSide (d : GDesc) (ops : List HOp) (m : HOp) : Option (V × Out × V) := do
  let s0 ← LSpecD.ofDesc d
  let vw := viewSpec s0.weighted
  let s ← replay vw s0 ops
  let (s', ret) ← vw.step s m
  pure (obs3 vw s, ret, obs3 vw s')

/-- Implementation-only clauses: they use nothing but the implementation's own output. -/
def oracleImpl (obs : List V) : Option String :=
  match obs with
  | [.l [eq, cmp, heq], oa, ob, .l [ceq, _, oa', _], .l [ceq2, _, _, oc2], consA, consB] =>
    let same := oa == ob
    if eq != V.ofBool same then some s!"== is {eq} but observations equal = {same}"
    else if same && heq != V.ofBool true then some "equal digraphs hash differently"
    else if same && cmp != V.a "equal" then some s!"equal digraphs compare {cmp}"
    else if consA != consTrue then some s!"A is not the digraph it shows: [drained==empty rebuilt== hash cmp] = {consA}"
    else if consB != consTrue then some s!"B is not the digraph it shows: [drained==empty rebuilt== hash cmp] = {consB}"
    else if ceq != V.ofBool true || ceq2 != V.ofBool true then some "clone != original"
    else if oa' != oa then some "mutating the clone changed the original"
    else if oc2 != ob then some "mutating the original changed the clone"
    else none
  | [.l [.a "refused", _]] => none   -- whether a conversion must be refused is the model's (C16) business
  | [.a "panic"] => none             -- the build panicked: correspondence only
  | _ => some "malformed output"

/-- Spec clauses for the sides whose description is meaningful (`useA` / `useB`). -/
def oracle (obs : List V) (da db : GDesc) (opsA opsB : List HOp) (m : HOp) (useA useB : Bool) : Option String :=
  match oracleImpl obs with
  | some why => some why
  | none =>
    match obs with
    | [_, oa, ob, .l [_, ret, _, oc], .l [_, ret2, ob', _], _, _] =>
      let chkA : Option String := if !useA then none else
        match specSide da opsA m with
        | some (sa, sret, sa') =>
          if oa != sa then some s!"A disagrees with the arc-set spec: {(toString sa).take 300}"
          else if ret != outToV sret || oc != sa' then some s!"mutated clone wrong: spec {outToV sret} {(toString sa').take 300}"
          else none
        | none => none
      let chkB : Option String := if !useB then none else
        match specSide db opsB m with
        | some (sb, sret2, sb') =>
          if ob != sb then some s!"B disagrees with the arc-set spec: {(toString sb).take 300}"
          else if ret2 != outToV sret2 || ob' != sb' then some s!"mutated original wrong: spec {outToV sret2} {(toString sb').take 300}"
          else none
        | none => none
      chkA.orElse (fun _ => chkB)
    | _ => none

/-- How a start digraph may be produced before it is fixed up (by the harness, with plain calls)
to the described digraph: conversions, generators, digraph-returning operations.  Whatever the
route, the result denotes `desc`; by `C20.Determined` its structure is the one built directly. -/
def viaKinds : List String :=
  ["al", "am", "mx", "el",
   "complete", "circuit", "cycle", "path", "star", "wheel", "biclique", "empty", "tournament", "erdos", "rrt",
   "complement", "converse", "union", "filter"]

/-- `[desc ops]` or `[desc ops via]` (`via`: the start was built in another representation and
converted with `From`; a conversion preserves the abstract digraph — C16 — so by C20's
`Determined` the structure is the one built directly, which is what the model builds). -/
def parseHist : V → Option (GDesc × List HOp × Option String × Option GDesc)
  | .l [d, ops] => do pure (← GDesc.parse d, ← V.listOf? HOp.parse ops, none, none)
  | .l [d, ops, .a via] =>
    if viaKinds.contains via then
      do pure (← GDesc.parse d, ← V.listOf? HOp.parse ops, some via, none)
    else none
  | .l [d, ops, .l [.a "from", src]] => do
    let src ← GDesc.parse src
    if !(["al", "am", "mx", "el"].contains src.repr) then none
    pure (← GDesc.parse d, ← V.listOf? HOp.parse ops, none, some src)
  | _ => none

def hEqPair : Handler := fun _ args obs =>
  match args with
  | [.a repr, ha, hb, m] => do
    let (da, opsA, viaA, fromA) ← parseHist ha
    let (db, opsB, viaB, fromB) ← parseHist hb
    if (viaA.isSome || viaB.isSome) && (repr == "wu" || repr == "wi") then none
    if (fromA.any (·.repr == repr)) || (fromB.any (·.repr == repr)) then none
    let m ← HOp.parse m
    if da.repr != repr || db.repr != repr then none
    if !((m :: opsA ++ opsB).all (supported repr)) then none
    let obsHashEq : V := match obs with
      | .l [_, _, h] :: _ => h
      | _ => .a "?"
    let st {σ : Type} (build : GDesc → Option σ) (conv : Nat → List (Nat × Nat) → Option σ)
        (d : GDesc) (frm : Option GDesc) : St σ :=
      match frm with
      | some src => fromStart conv src
      | none => St.ofOpt (build d)
    let refusedBy {σ : Type} (x : St σ) : Bool := match x with | .refused => true | _ => false
    let (model, refA, refB) : Option (List V) × Bool × Bool ← match repr with
      | "al" =>
        let (a, b) := (st buildAL Conv.toAL da fromA, st buildAL Conv.toAL db fromB)
        some (modelPair viewAL AdjList.cmp a b opsA opsB m obsHashEq, refusedBy a, refusedBy b)
      | "am" =>
        let (a, b) := (st buildAM Conv.toAM da fromA, st buildAM Conv.toAM db fromB)
        some (modelPair viewAM AdjMap.cmp a b opsA opsB m obsHashEq, refusedBy a, refusedBy b)
      | "mx" =>
        let (a, b) := (st buildMX Conv.toMX da fromA, st buildMX Conv.toMX db fromB)
        some (modelPair viewMX AdjMatrix.cmp a b opsA opsB m obsHashEq, refusedBy a, refusedBy b)
      | "el" =>
        let (a, b) := (st buildEL Conv.toEL da fromA, st buildEL Conv.toEL db fromB)
        some (modelPair viewEL EdgeList.cmp a b opsA opsB m obsHashEq, refusedBy a, refusedBy b)
      | "wu" | "wi" =>
        let (a, b) := (st buildW Conv.toWL da fromA, st buildW Conv.toWL db fromB)
        some (modelPair viewW AdjListW.cmp a b opsA opsB m obsHashEq, refusedBy a, refusedBy b)
      | _ => none
    let modelOut := model.getD [V.a "panic"]
    -- the description a `[from src]` side must denote is derived from the SOURCE (a conversion
    -- preserves order and arcs), never taken from the line (a shrunk line may be inconsistent);
    -- a side the model refuses has none: the implementation-only clauses judge it
    let claimed (d : GDesc) (frm : Option GDesc) : GDesc := match frm with
      | none => d
      | some src => { repr := repr, verts := List.range src.order, order := src.order, arcs := src.arcs,
                      warcs := src.arcs.map (fun a => (a.1, a.2, 1)) }
    let propFail := oracle obs (claimed da fromA) (claimed db fromB) opsA opsB m (!refA) (!refB)
    let (eqTag, cmpTag, retTag) := match obs with
      | .l [eq, cmp, _] :: _ :: _ :: .l [_, ret, _, _] :: _ =>
        (if eq == V.ofBool true then "equal" else "differ", s!"cmp-{cmp}", s!"mut-{ret}")
      | [.l [.a "refused", _]] => ("refused", "", "")
      | _ => ("?", "?", "?")
    let detour := (opsA ++ opsB).any (fun o => match o with | .rem .. | .tog .. => true | _ => false)
    let tags := ([repr, eqTag, cmpTag, retTag, sizeTag (min da.order 40)].filter (· != "")) ++ (if detour then ["detours"] else ["plain"])
      ++ (if fromA.isSome || fromB.isSome then ["from-conversion"] else [])
      ++ (match viaA.orElse (fun _ => viaB) with
          | none => if fromA.isSome || fromB.isSome then [] else ["direct"]
          | some v => if ["al", "am", "mx", "el"].contains v then ["via-conversion"]
                      else if ["complement", "converse", "union", "filter"].contains v then ["via-operation"]
                      else ["via-generator"])
    pure (classify obs modelOut propFail (nt := opsA.length + opsB.length ≥ 2) tags)
  | _ => none

/-- Model of `eq_clonefrom`: after `dst.clone_from(&src)` the destination IS the source value. -/
def modelCloneFrom {σ : Type} [DecidableEq σ] (vw : View σ) (cmp : σ → σ → Ordering)
    (d0 s0 : Option σ) (opsD opsS : List HOp) (m : HOp) : Option (List V) := do
  let _ ← replay vw (← d0) opsD
  let src ← replay vw (← s0) opsS
  let dst := src
  let head := V.l [V.ofBool (decide (dst = src)), ordToV (cmp dst src), V.ofBool true]
  let (dst', ret) ← vw.step dst m
  pure [head, obs3 vw dst, obs3 vw src, .l [outToV ret, obs3 vw src, obs3 vw dst']]

def oracleCloneFrom (obs : List V) (dsrc : GDesc) (opsS : List HOp) (m : HOp) : Option String :=
  match obs with
  | [.l [eq, cmp, heq], od, os, .l [ret, os', od']] =>
    match specSide dsrc opsS m with
    | some (ss, sret, ss') =>
      if os != ss then some s!"source disagrees with the arc-set spec: {(toString ss).take 300}"
      else if od != os then some s!"clone_from: destination shows {(toString od).take 200}, source {(toString os).take 200}"
      else if eq != V.ofBool true then some "after clone_from: destination != source (equal observations)"
      else if heq != V.ofBool true then some "after clone_from: hashes differ"
      else if cmp != V.a "equal" then some s!"after clone_from: cmp = {cmp}"
      else if os' != os then some "mutating the destination changed the source"
      else if ret != outToV sret || od' != ss' then some s!"mutated destination wrong: spec {outToV sret} {(toString ss').take 300}"
      else none
    | none => none
  | [.a "panic"] => none
  | _ => some "malformed output"

def hCloneFrom : Handler := fun _ args obs =>
  match args with
  | [.a repr, hd, hs, m] => do
    let (dd, opsD, viaD, fromD) ← parseHist hd
    let (ds, opsS, viaS, fromS) ← parseHist hs
    if fromD.isSome || fromS.isSome then none
    let m ← HOp.parse m
    if dd.repr != repr || ds.repr != repr then none
    if !((m :: opsD ++ opsS).all (supported repr)) then none
    if (viaD.isSome || viaS.isSome) && (repr == "wu" || repr == "wi") then none
    let model : Option (List V) ← match repr with
      | "al" => some (modelCloneFrom viewAL AdjList.cmp (buildAL dd) (buildAL ds) opsD opsS m)
      | "am" => some (modelCloneFrom viewAM AdjMap.cmp (buildAM dd) (buildAM ds) opsD opsS m)
      | "mx" => some (modelCloneFrom viewMX AdjMatrix.cmp (buildMX dd) (buildMX ds) opsD opsS m)
      | "el" => some (modelCloneFrom viewEL EdgeList.cmp (buildEL dd) (buildEL ds) opsD opsS m)
      | "wu" | "wi" => some (modelCloneFrom viewW AdjListW.cmp (buildW dd) (buildW ds) opsD opsS m)
      | _ => none
    let modelOut := model.getD [V.a "panic"]
    let propFail := oracleCloneFrom obs ds opsS m
    let blocks (n : Nat) : Nat := (n * n + 63) / 64
    let shape := if dd.order == ds.order then "same-order"
      else if repr == "mx" && blocks dd.order == blocks ds.order then "same-blocks-other-order" else "other-shape"
    pure (classify obs modelOut propFail (nt := dd.order != ds.order || dd.arcs.length + ds.arcs.length > 0)
      [repr, "clone-from", shape, sizeTag (min ds.order 40)])
  | _ => none

def handlers : List (String × Handler) := [("eq_pair", hEqPair), ("eq_clonefrom", hCloneFrom)]

end GraafVerif.Driver.H20
