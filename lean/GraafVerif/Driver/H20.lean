import GraafVerif.Driver.Common
import GraafVerif.Driver.H01
/-!
# Driver handlers for C20: `eq_pair <repr> [<startA> <opsA>] [<startB> <opsB>] <mut>`

MODEL side: both histories are replayed on the representation model; `==` is structural
equality of the model structures, `cmp` the derived lexicographic order (`X.cmp`), `clone` the
identity on values, hash equality = structural equality (for unequal structures the hash
comparison is not determined by the model and is copied from the observation).

ORACLE side (on the implementation's output only): `==` ⇔ equal observations
(`order / vertices / arcs(+weights)`); equal ⇒ equal hashes ∧ `cmp = equal`; both observations
agree with the plain arc-set spec; a clone is equal to its original; mutating the clone leaves
the original's observation unchanged and vice versa; the mutated side shows the spec's result.
-/
namespace GraafVerif.Driver.H20
open GraafVerif GraafVerif.Driver GraafVerif.Repr GraafVerif.ReprSpec GraafVerif.Driver.H01

def replay {σ : Type} (vw : View σ) (s : σ) (ops : List HOp) : Option σ :=
  ops.foldlM (fun s op => (vw.step s op).map (·.1)) s

def obs3 {σ : Type} (vw : View σ) (s : σ) : V :=
  .l [V.ofNat (vw.order s), V.ofNats (vw.verts s), showArcs vw.weighted (vw.arcs s)]

def ordToV : Ordering → V
  | .lt => .a "less"
  | .eq => .a "equal"
  | .gt => .a "greater"

/-- The model's rendering of the whole output. `obsHashEq` = what the implementation said about
the hashes (used only when the structures differ). -/
def modelPair {σ : Type} [DecidableEq σ] (vw : View σ) (cmp : σ → σ → Ordering)
    (a0 b0 : Option σ) (opsA opsB : List HOp) (m : HOp) (obsHashEq : V) : Option (List V) := do
  let a ← replay vw (← a0) opsA
  let b ← replay vw (← b0) opsB
  let eq := decide (a = b)
  let head := V.l [V.ofBool eq, ordToV (cmp a b), if eq then V.ofBool true else obsHashEq]
  let (c, ret) ← vw.step a m
  let (b', ret2) ← vw.step b m
  pure [head, obs3 vw a, obs3 vw b,
        .l [V.ofBool true, outToV ret, obs3 vw a, obs3 vw c],
        .l [V.ofBool true, outToV ret2, obs3 vw b', obs3 vw b]]

def specSide (d : GDesc) (ops : List HOp) (m : HOp) : Option (V × Out × V) := do
  let s0 ← LSpecD.ofDesc d
  let vw := viewSpec s0.weighted
  let s ← replay vw s0 ops
  let (s', ret) ← vw.step s m
  pure (obs3 vw s, ret, obs3 vw s')

def oracle (obs : List V) (da db : GDesc) (opsA opsB : List HOp) (m : HOp) : Option String :=
  match obs with
  | [.l [eq, cmp, heq], oa, ob, .l [ceq, ret, oa', oc], .l [ceq2, ret2, ob', oc2]] =>
    match specSide da opsA m, specSide db opsB m with
    | some (sa, sret, sa'), some (sb, sret2, sb') =>
      let same := oa == ob
      if eq != V.ofBool same then some s!"== is {eq} but observations equal = {same}"
      else if same && heq != V.ofBool true then some "equal digraphs hash differently"
      else if same && cmp != V.a "equal" then some s!"equal digraphs compare {cmp}"
      else if oa != sa then some s!"A disagrees with the arc-set spec: {(toString sa).take 300}"
      else if ob != sb then some s!"B disagrees with the arc-set spec: {(toString sb).take 300}"
      else if ceq != V.ofBool true || ceq2 != V.ofBool true then some "clone != original"
      else if oa' != oa then some "mutating the clone changed the original"
      else if oc2 != ob then some "mutating the original changed the clone"
      else if ret != outToV sret || oc != sa' then some s!"mutated clone wrong: spec {outToV sret} {(toString sa').take 300}"
      else if ret2 != outToV sret2 || ob' != sb' then some s!"mutated original wrong: spec {outToV sret2} {(toString sb').take 300}"
      else none
    | _, _ => none  -- a start description the spec rejects: nothing is claimed (the model must agree)
  | [.a "panic"] => none  -- the build panicked: correspondence only
  | _ => some "malformed output"

/-- How a start digraph may be produced before it is fixed up (by the harness, with plain calls)
to the described digraph: conversions, generators, digraph-returning operations.  Whatever the
route, the result denotes `desc`; by `C20.Determined` its structure is the one built directly. -/
def viaKinds : List String :=
  ["al", "am", "mx", "el",
   "complete", "circuit", "cycle", "path", "star", "wheel", "biclique", "empty", "tournament", "erdos", "rrt",
   "complement", "converse", "union", "filter"]

/-- `[desc ops]` or `[desc ops via]` (`via`: the start was built in another representation and
converted with `From`; a conversion preserves the abstract digraph — C16 — so by C20's
`Determined` the structure is the one built directly, which is what the model builds). -/
def parseHist : V → Option (GDesc × List HOp × Option String)
  | .l [d, ops] => do pure (← GDesc.parse d, ← V.listOf? HOp.parse ops, none)
  | .l [d, ops, .a via] =>
    if viaKinds.contains via then
      do pure (← GDesc.parse d, ← V.listOf? HOp.parse ops, some via)
    else none
  | _ => none

def hEqPair : Handler := fun _ args obs =>
  match args with
  | [.a repr, ha, hb, m] => do
    let (da, opsA, viaA) ← parseHist ha
    let (db, opsB, viaB) ← parseHist hb
    if (viaA.isSome || viaB.isSome) && (repr == "wu" || repr == "wi") then none
    let m ← HOp.parse m
    if da.repr != repr || db.repr != repr then none
    if !((m :: opsA ++ opsB).all (supported repr)) then none
    let obsHashEq : V := match obs with
      | .l [_, _, h] :: _ => h
      | _ => .a "?"
    let model : Option (List V) ← match repr with
      | "al" => some (modelPair viewAL AdjList.cmp (buildAL da) (buildAL db) opsA opsB m obsHashEq)
      | "am" => some (modelPair viewAM AdjMap.cmp (buildAM da) (buildAM db) opsA opsB m obsHashEq)
      | "mx" => some (modelPair viewMX AdjMatrix.cmp (buildMX da) (buildMX db) opsA opsB m obsHashEq)
      | "el" => some (modelPair viewEL EdgeList.cmp (buildEL da) (buildEL db) opsA opsB m obsHashEq)
      | "wu" | "wi" => some (modelPair viewW AdjListW.cmp (buildW da) (buildW db) opsA opsB m obsHashEq)
      | _ => none
    let modelOut := model.getD [V.a "panic"]
    let propFail := oracle obs da db opsA opsB m
    let (eqTag, cmpTag, retTag) := match obs with
      | .l [eq, cmp, _] :: _ :: _ :: .l [_, ret, _, _] :: _ =>
        (if eq == V.ofBool true then "equal" else "differ", s!"cmp-{cmp}", s!"mut-{ret}")
      | _ => ("?", "?", "?")
    let detour := (opsA ++ opsB).any (fun o => match o with | .rem .. | .tog .. => true | _ => false)
    let tags := [repr, eqTag, cmpTag, retTag, sizeTag (min da.order 40)] ++ (if detour then ["detours"] else ["plain"])
      ++ (match viaA.orElse (fun _ => viaB) with
          | none => ["direct"]
          | some v => if ["al", "am", "mx", "el"].contains v then ["via-conversion"]
                      else if ["complement", "converse", "union", "filter"].contains v then ["via-operation"]
                      else ["via-generator"])
    pure (classify obs modelOut propFail (nt := opsA.length + opsB.length ≥ 2) tags)
  | _ => none

/-- Model of `eq_clonefrom`: after `dst.clone_from(&src)` the destination IS the source value. -/
def modelCloneFrom {σ : Type} [DecidableEq σ] (vw : View σ) (cmp : σ → σ → Ordering)
    (d0 s0 : Option σ) (opsD opsS : List HOp) (m : HOp) : Option (List V) := do
  let _ ← replay vw (← d0) opsD
  let src ← replay vw (← s0) opsS
  let dst := src
  let head := V.l [V.ofBool (decide (dst = src)), ordToV (cmp dst src), V.ofBool true]
  let (dst', ret) ← vw.step dst m
  pure [head, obs3 vw dst, obs3 vw src, .l [outToV ret, obs3 vw src, obs3 vw dst']]

def oracleCloneFrom (obs : List V) (dsrc : GDesc) (opsS : List HOp) (m : HOp) : Option String :=
  match obs with
  | [.l [eq, cmp, heq], od, os, .l [ret, os', od']] =>
    match specSide dsrc opsS m with
    | some (ss, sret, ss') =>
      if os != ss then some s!"source disagrees with the arc-set spec: {(toString ss).take 300}"
      else if od != os then some s!"clone_from: destination shows {(toString od).take 200}, source {(toString os).take 200}"
      else if eq != V.ofBool true then some "after clone_from: destination != source (equal observations)"
      else if heq != V.ofBool true then some "after clone_from: hashes differ"
      else if cmp != V.a "equal" then some s!"after clone_from: cmp = {cmp}"
      else if os' != os then some "mutating the destination changed the source"
      else if ret != outToV sret || od' != ss' then some s!"mutated destination wrong: spec {outToV sret} {(toString ss').take 300}"
      else none
    | none => none
  | [.a "panic"] => none
  | _ => some "malformed output"

def hCloneFrom : Handler := fun _ args obs =>
  match args with
  | [.a repr, hd, hs, m] => do
    let (dd, opsD, viaD) ← parseHist hd
    let (ds, opsS, viaS) ← parseHist hs
    let m ← HOp.parse m
    if dd.repr != repr || ds.repr != repr then none
    if !((m :: opsD ++ opsS).all (supported repr)) then none
    if (viaD.isSome || viaS.isSome) && (repr == "wu" || repr == "wi") then none
    let model : Option (List V) ← match repr with
      | "al" => some (modelCloneFrom viewAL AdjList.cmp (buildAL dd) (buildAL ds) opsD opsS m)
      | "am" => some (modelCloneFrom viewAM AdjMap.cmp (buildAM dd) (buildAM ds) opsD opsS m)
      | "mx" => some (modelCloneFrom viewMX AdjMatrix.cmp (buildMX dd) (buildMX ds) opsD opsS m)
      | "el" => some (modelCloneFrom viewEL EdgeList.cmp (buildEL dd) (buildEL ds) opsD opsS m)
      | "wu" | "wi" => some (modelCloneFrom viewW AdjListW.cmp (buildW dd) (buildW ds) opsD opsS m)
      | _ => none
    let modelOut := model.getD [V.a "panic"]
    let propFail := oracleCloneFrom obs ds opsS m
    let blocks (n : Nat) : Nat := (n * n + 63) / 64
    let shape := if dd.order == ds.order then "same-order"
      else if repr == "mx" && blocks dd.order == blocks ds.order then "same-blocks-other-order" else "other-shape"
    pure (classify obs modelOut propFail (nt := dd.order != ds.order || dd.arcs.length + ds.arcs.length > 0)
      [repr, "clone-from", shape, sizeTag (min ds.order 40)])
  | _ => none

def handlers : List (String × Handler) := [("eq_pair", hEqPair), ("eq_clonefrom", hCloneFrom)]

end GraafVerif.Driver.H20
