import GraafVerif.Driver.Common
import GraafVerif.Model.Fw
/-!
Driver handler for C08:  `fw_dist [wi n warcs] => panic | rows flat bfm dij`
(see `harness/src/ops/c08.rs`).

* correspondence: `rows` (pair index) and `flat` (`dist.dist`) against `Fw.run`;
* property oracle (on the IMPLEMENTATION's `rows`): for every source `s`, the naive relaxation
  oracle `wdistB g [s]` must equal row `s` (`inf` ↔ `none`), the diagonal must be `0`, and the
  rows must equal what the real `BellmanFordMoore` / (non-negative weights) `DijkstraDist`
  returned.  The precondition "no negative circuit" is re-checked here with the oracle's
  negative-cycle flag from every vertex; when it fails the property does not apply
  (`neg-cycle-skipped`, model comparison only).
-/
namespace GraafVerif.Driver.H08
open GraafVerif GraafVerif.Driver GraafVerif.Fw

def entV : Option Int → V
  | none => .a "inf"
  | some x => .i x

def ent? : V → Option (Option Int)
  | .a "inf" => some none
  | .i x => some (some x)
  | _ => none

def rowV (r : List (Option Int)) : V := .l (r.map entV)

/-- What `AdjacencyListWeighted::empty` / `add_arc_weighted` accept without panicking. -/
def validDesc (d : GDesc) : Bool :=
  d.order > 0 && d.warcs.all (fun a => a.1 < d.order && a.2.1 < d.order && a.1 != a.2.1)

/-- Executable form of the theorems' hypotheses `WGraph.WF` and `WGraph.Functional` on the
vertices `< n` (the rows of the model digraph are built by the shared `GDesc.wgraph`). -/
def hypsB (g : WGraph) : Bool :=
  (List.range g.n).all (fun u =>
    let r := g.out u
    r.all (fun vw => vw.1 < g.n) && (r.map (·.1)).Pairwise (· ≠ ·))

def modelOut (g : WGraph) : List V :=
  match run g with
  | .panic => [.a "panic"]
  | .ok m => [.l ((List.range g.n).map (fun u => rowV (row g.n m u))), rowV m]

/-- First difference between two rows, for the report. -/
def firstDiff (s : Nat) (a b : List (Option Int)) : String :=
  match ((List.range (max a.length b.length)).filter (fun v => a[v]? != b[v]?)).head? with
  | some v => s!"({s},{v}) impl={entV ((a[v]?).getD none)} want={entV ((b[v]?).getD none)}"
  | none => s!"row {s}"

def oracle (g : WGraph) (rows : List (List (Option Int))) (bfm : List (Option (List (Option Int))))
    (dij : Option (List (List (Option Int)))) : Option String :=
  if rows.length != g.n then some s!"matrix has {rows.length} rows for order {g.n}" else
  let perRow := (List.range g.n).filterMap (fun s =>
    let r := (rows[s]?).getD []
    let want := (wdistB g [s]).1
    if r != want then some ("not-min-walk-weight " ++ firstDiff s r want)
    else if (r[s]?).getD none != some 0 then some s!"diagonal ({s},{s}) not 0"
    else match (bfm[s]?).getD none with
      | none => some s!"real BellmanFordMoore from {s} reports a negative circuit"
      | some b =>
        if b != r then some ("row-differs-from-real-BFM " ++ firstDiff s r b)
        else match dij with
          | none => none
          | some dj =>
            if (dj[s]?).getD [] != r then some ("row-differs-from-real-Dijkstra " ++ firstDiff s r ((dj[s]?).getD []))
            else none)
  perRow.head?

def hDist : Handler := fun _ args observed =>
  match args with
  | [dv] => do
    let d ← GDesc.parse dv
    if d.repr != "wi" then none
    if !validDesc d then
      -- construction of the digraph itself panics (C01's business): only the outcome is compared
      pure (classify observed [.a "panic"] none (nt := false) ["invalid-desc"])
    else
      let g := d.wgraph
      if !hypsB g then
        pure (bad "model digraph violates WF/Functional (driver bug)")
      else
      let model := modelOut g
      let negArcs := d.warcs.any (fun a => a.2.2 < 0)
      let baseTags := [sizeTag d.order, if negArcs then "neg-arcs" else "nonneg"]
      let negCycle := (List.range g.n).any (fun s => (wdistB g [s]).2)
      match observed with
      | [.a "panic"] =>
        pure (classify observed model (some "panicked on a valid digraph") true (baseTags ++ ["res-panic"]))
      | [rowsV, flatV, bfmV, dijV] =>
        let rows ← V.listOf? (V.listOf? ent?) rowsV
        let _flat ← V.listOf? ent? flatV
        let bfm ← V.listOf? (V.opt? (V.listOf? ent?)) bfmV
        let dij ← (match dijV with
          | .a "na" => some none
          | v => (V.listOf? (V.listOf? ent?) v).map some)
        let obs2 := [rowsV, flatV]
        if negCycle then
          pure (classify obs2 model none (nt := false) (baseTags ++ ["neg-cycle-skipped"]))
        else
          let hasInf := rows.any (fun r => r.any Option.isNone)
          let sym := (List.range g.n).all (fun u => (List.range g.n).all (fun v =>
            ((rows[u]?).getD [])[v]? == ((rows[v]?).getD [])[u]?))
          let tags := baseTags ++ [if hasInf then "has-inf" else "all-finite",
            if sym then "sym-matrix" else "asym-matrix",
            if dij.isSome then "dijkstra-compared" else "dijkstra-na"]
          pure (classify obs2 model (oracle g rows bfm dij) (nt := d.order ≥ 2 && !d.warcs.isEmpty) tags)
      | _ => none
  | _ => none

def handlers : List (String × Handler) := [("fw_dist", hDist)]

end GraafVerif.Driver.H08
