import GraafVerif.Driver.Common
import GraafVerif.Model.FwFast
/-!
Driver handlers for C08:  `fw_dist [wi n warcs] => panic | rows flat bfm dij`,
`fw_dist2 [wi n warcs] => panic | rows1 flat1 rows2 flat2` (two calls of `distances()` on one
object; see `harness/src/ops/c08.rs`).

* correspondence: `rows` (pair index) and `flat` (`dist.dist`) against `Fw.run`;
* property oracle (on the IMPLEMENTATION's `rows`): for every source `s`, the naive relaxation
  oracle `wdistB g [s]` must equal row `s` (`inf` ↔ `none`), the diagonal must be `0`, and the
  rows must equal what the real `BellmanFordMoore` / (non-negative weights) `DijkstraDist`
  returned.  The precondition "no negative circuit" is re-checked here with the oracle's
  negative-cycle flag from every vertex; when it fails the property does not apply
  (`neg-cycle-skipped`, model comparison only).
-/
namespace GraafVerif.Driver.H08
open GraafVerif GraafVerif.Driver GraafVerif.Fw

def entV : Option Int → V
  | none => .a "inf"
  | some x => .i x

def ent? : V → Option (Option Int)
  | .a "inf" => some none
  | .i x => some (some x)
  | _ => none

def rowV (r : List (Option Int)) : V := .l (r.map entV)

/-- What `AdjacencyListWeighted::empty` / `add_arc_weighted` accept without panicking. -/
def validDesc (d : GDesc) : Bool :=
  d.order > 0 && d.warcs.all (fun a => a.1 < d.order && a.2.1 < d.order && a.1 != a.2.1)

/-- Executable form of the theorems' hypotheses `WGraph.WF` and `WGraph.Functional` on the
vertices `< n` (the rows of the model digraph are built by the shared `GDesc.wgraph`). -/
def hypsB (g : WGraph) : Bool :=
  (List.range g.n).all (fun u =>
    let r := g.out u
    r.all (fun vw => vw.1 < g.n) && (r.map (·.1)).Pairwise (· ≠ ·))

/-- The matrix as the two observations of the protocol: rows through the pair index, flat vector.
The driver runs the `Array` twin of the model (`Proof/FwFast.lean`: same lists). -/
def matOut (n : Nat) (m : MatA) : List V :=
  [.l ((List.range n).map (fun u => .l ((List.range n).map (fun v => entV (getA n m u v))))),
   .l (m.toList.map entV)]

def modelOut (g : WGraph) : List V :=
  if g.n = 0 then [.a "panic"] else matOut g.n (distancesA g)

/-- Two calls of `distances()` on one object. -/
def modelOut2 (g : WGraph) : List V :=
  if g.n = 0 then [.a "panic"] else matOut g.n (distancesA g) ++ matOut g.n (distances2A g)

/-- Naive oracle for orders above 40 (where the shared `wdistB` on lists is too slow): plain
Bellman-Ford on an `Array`, all arcs per round, at most `n` rounds, early exit when a round
changes nothing; flag = the `n`-th round still improved something (negative circuit reachable). -/
def bfA (g : WGraph) (arcs : List (Nat × Nat × Int)) (s : Nat) : List (Option Int) × Bool :=
  let round (d : Array (Option Int)) : Array (Option Int) × Bool :=
    arcs.foldl (fun (acc : Array (Option Int) × Bool) a =>
      match (acc.1[a.1]?).getD none with
      | none => acc
      | some du =>
        match (acc.1[a.2.1]?).getD none with
        | none => (acc.1.setIfInBounds a.2.1 (some (du + a.2.2)), true)
        | some dv => if du + a.2.2 < dv then (acc.1.setIfInBounds a.2.1 (some (du + a.2.2)), true) else acc)
      (d, false)
  let rec go (fuel : Nat) (d : Array (Option Int)) : Array (Option Int) × Bool :=
    match fuel with
    | 0 => (d, (round d).2)
    | fuel+1 => let r := round d; if r.2 then go fuel r.1 else (d, false)
  let r := go g.n ((Array.replicate g.n none).setIfInBounds s (some 0))
  (r.1.toList, r.2)

/-- Single-source oracle: the shared (proved) `wdistB` up to order 40, `bfA` above. -/
def ssOracle (g : WGraph) : Nat → List (Option Int) × Bool :=
  if g.n ≤ 40 then fun s => wdistB g [s]
  else
    let arcs := arcsWeighted g
    fun s => bfA g arcs s

/-- First difference between two rows, for the report. -/
def firstDiff (s : Nat) (a b : List (Option Int)) : String :=
  match ((List.range (max a.length b.length)).filter (fun v => a[v]? != b[v]?)).head? with
  | some v => s!"({s},{v}) impl={entV ((a[v]?).getD none)} want={entV ((b[v]?).getD none)}"
  | none => s!"row {s}"

def oracle (g : WGraph) (wants : List (List (Option Int))) (rows : List (List (Option Int)))
    (bfm : Option (List (Option (List (Option Int))))) (dij : Option (List (List (Option Int)))) : Option String :=
  if rows.length != g.n then some s!"matrix has {rows.length} rows for order {g.n}" else
  let perRow := (List.range g.n).filterMap (fun s =>
    let r := (rows[s]?).getD []
    let want := (wants[s]?).getD []
    if r != want then some ("not-min-walk-weight " ++ firstDiff s r want)
    else if (r[s]?).getD none != some 0 then some s!"diagonal ({s},{s}) not 0"
    else match bfm with
    | none => none
    | some bfm =>
    match (bfm[s]?).getD none with
      | none => some s!"real BellmanFordMoore from {s} reports a negative circuit"
      | some b =>
        if b != r then some ("row-differs-from-real-BFM " ++ firstDiff s r b)
        else match dij with
          | none => none
          | some dj =>
            if (dj[s]?).getD [] != r then some ("row-differs-from-real-Dijkstra " ++ firstDiff s r ((dj[s]?).getD []))
            else none)
  perRow.head?

/-- Common part of both ops.  `twice = false`: `fw_dist` (observed `rows flat bfm dij`);
`twice = true`: `fw_dist2` (observed `rows1 flat1 rows2 flat2`). -/
def handle (twice : Bool) : Handler := fun _ args observed =>
  match args with
  | [dv] => do
    let d ← GDesc.parse dv
    if d.repr != "wi" then none
    if !validDesc d then
      -- construction of the digraph itself panics (C01's business): only the outcome is compared
      pure (classify observed [.a "panic"] none (nt := false) ["invalid-desc"])
    else
      let g := d.wgraph
      if !hypsB g then
        pure (bad "model digraph violates WF/Functional (driver bug)")
      else
      let model := if twice then modelOut2 g else modelOut g
      let negArcs := d.warcs.any (fun a => a.2.2 < 0)
      let bigW := d.warcs.any (fun a => a.2.2 > 1000000000 || a.2.2 < -1000000000)
      let baseTags := [sizeTag d.order, if negArcs then "neg-arcs" else "nonneg",
        if bigW then "weights-2^40+" else "weights-small", if twice then "two-calls" else "one-call"]
      let orc := ssOracle g
      let res := (List.range g.n).map orc
      let negCycle := res.any (·.2)
      let wants := res.map (·.1)
      let nt := d.order ≥ 2 && !d.warcs.isEmpty
      let finish (obs : List V) (rows : List (List (Option Int))) (pf : Option String) (extra : List String) : Verdict :=
        if negCycle then classify obs model none (nt := false) (baseTags ++ ["neg-cycle-skipped"])
        else
          let hasInf := rows.any (fun r => r.any Option.isNone)
          let sym := (List.range g.n).all (fun u => (List.range g.n).all (fun v =>
            ((rows[u]?).getD [])[v]? == ((rows[v]?).getD [])[u]?))
          classify obs model pf nt (baseTags ++ [if hasInf then "has-inf" else "all-finite",
            if sym then "sym-matrix" else "asym-matrix"] ++ extra)
      match twice, observed with
      | _, [.a "panic"] =>
        pure (classify observed model (some "panicked on a valid digraph") true (baseTags ++ ["res-panic"]))
      | false, [rowsV, flatV, bfmV, dijV] =>
        let rows ← V.listOf? (V.listOf? ent?) rowsV
        let _flat ← V.listOf? ent? flatV
        let bfm ← V.listOf? (V.opt? (V.listOf? ent?)) bfmV
        let dij ← (match dijV with
          | .a "na" => some none
          | v => (V.listOf? (V.listOf? ent?) v).map some)
        pure (finish [rowsV, flatV] rows (oracle g wants rows (some bfm) dij)
          [if dij.isSome then "dijkstra-compared" else "dijkstra-na"])
      | true, [rows1V, flat1V, rows2V, flat2V] =>
        let rows1 ← V.listOf? (V.listOf? ent?) rows1V
        let rows2 ← V.listOf? (V.listOf? ent?) rows2V
        let _f1 ← V.listOf? ent? flat1V
        let _f2 ← V.listOf? ent? flat2V
        -- the property holds of EVERY call of `distances()`
        let pf := match oracle g wants rows1 none none with
          | some why => some ("first-call " ++ why)
          | none => (oracle g wants rows2 none none).map ("second-call " ++ ·)
        pure (finish observed rows1 pf [])
      | _, _ => none
  | _ => none

/-- `fw_big` (orders above 1024, at most a few dozen arcs): ORACLE ONLY — the cubic model is not
run.  The expected matrix is assembled from the single-source oracle (`ssOracle`, i.e. `bfA` =
`wdistB` by `OraclesFast.h08_ssOracle_eq`) run from the vertices that HAVE out-arcs; the row of
a vertex without out-arcs is trivially `[inf … 0 … inf]` (no walk but the empty one leaves it), so
those rows contribute no finite off-diagonal cell.  A negative circuit contains a vertex with
out-arcs and is reachable from it, so the flags of these sources decide the precondition.
Observed: `ncells finite diag flatfinite bfm` (see `c08.rs`). -/
def handleBig : Handler := fun _ args observed =>
  match args with
  | [dv] => do
    let d ← GDesc.parse dv
    if d.repr != "wi" then none
    if !validDesc d then
      pure (classify observed [.a "panic"] none (nt := false) ["invalid-desc"])
    else
      let g := d.wgraph
      if !hypsB g then
        pure (bad "model digraph violates WF/Functional (driver bug)")
      else
      let n := g.n
      let negArcs := d.warcs.any (fun a => a.2.2 < 0)
      let tags := [if n > 1024 then "n>1024" else sizeTag n, if negArcs then "neg-arcs" else "nonneg",
        "oracle-only", "has-inf", "asym-matrix"]
      let sources := (List.range n).filter (fun u => !(g.out u).isEmpty)
      let orc := ssOracle g
      let res := sources.map (fun s => (s, orc s))
      let negCycle := res.any (·.2.2)
      match observed with
      | [.a "panic"] =>
        pure (classify observed [] (some "panicked on a valid digraph") true (tags ++ ["res-panic"]))
      | [ncellsV, finiteV, diagV, flatV, bfmV] =>
        if negCycle then
          pure (classify observed observed none (nt := false) (tags ++ ["neg-cycle-skipped"]))
        else
          let want : List V := res.flatMap (fun r =>
            (List.range n).filterMap (fun v =>
              if v == r.1 then none else
              match ((r.2.1)[v]?).getD none with
              | none => none
              | some x => some (V.l [V.ofNat r.1, V.ofNat v, V.i x])))
          let wantFlat : List V := want.filterMap (fun e =>
            match e with
            | .l [.i u, .i v, x] => some (V.l [V.i (u * n + v), x])
            | _ => none)
          let pf : Option String :=
            if ncellsV != V.ofNat (n * n) then some s!"matrix has {ncellsV} cells for order {n}"
            else if diagV != V.l [] then some s!"diagonal not 0: {diagV}"
            else if finiteV != V.l want then
              some ("not-min-walk-weight finite cells differ from the oracle; first difference " ++
                (match finiteV with
                 | .l fs =>
                   let i := ((List.range (max fs.length want.length)).filter (fun i => !(fs[i]? == want[i]?))).head?.getD 0
                   s!"impl={(fs[i]?).map toString} want={(want[i]?).map toString}"
                 | _ => "malformed"))
            else if bfmV != V.l want then some "finite cells differ from the rows of the real BFM"
            else none
          -- the flat vector is under correspondence (against the oracle-derived layout) only
          let model := [ncellsV, finiteV, diagV, V.l wantFlat, bfmV]
          let _ := flatV
          pure (classify observed model pf true tags)
      | _ => none
  | _ => none

def handlers : List (String × Handler) :=
  [("fw_dist", handle false), ("fw_dist2", handle true), ("fw_big", handleBig)]

end GraafVerif.Driver.H08
