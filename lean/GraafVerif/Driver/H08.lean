import GraafVerif.Driver.Common
/-! Driver handlers for property C08 (ops the harness module `ops/c08.rs` emits). -/
namespace GraafVerif.Driver.H08
open GraafVerif GraafVerif.Driver

def handlers : List (String × Handler) := []

end GraafVerif.Driver.H08
