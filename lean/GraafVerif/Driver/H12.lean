import GraafVerif.Driver.Common
/-! Driver handlers for property C12 (ops the harness module `ops/c12.rs` emits). -/
namespace GraafVerif.Driver.H12
open GraafVerif GraafVerif.Driver

def handlers : List (String × Handler) := []

end GraafVerif.Driver.H12
