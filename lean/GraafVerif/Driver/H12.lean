import GraafVerif.Driver.H02
import GraafVerif.Model.Pred
import GraafVerif.Model.PredFast
import GraafVerif.Spec.Pred
import GraafVerif.Spec.PredFamilies
/-!
Driver handlers for property C12 (ops of `harness/src/ops/c12.rs`): `pred_unary`, `pred_rel`.

Correspondence: the model of the named representation (`Model/Pred.lean`; the threaded
`AdjacencyList::is_semicomplete` with the observed thread count `t`, and additionally its
labelled-transition model under a round-robin and a reversed schedule).  Oracle: the
definitions of `Spec/Pred.lean` evaluated on the implementation's own `vertices()`/`arcs()`.
-/
namespace GraafVerif.Driver.H12
open GraafVerif GraafVerif.Driver GraafVerif.Repr GraafVerif.Query GraafVerif.Pred
open GraafVerif.Driver.H02 (panicV oBool parseObs Obs firstDiff short commonTags)

/-- Unary predicate outputs of the model, in protocol order (without obs / unchanged). -/
structure Inst where
  core : Core
  obs : V
  isComplete : Option Bool
  isSemicomplete : Option Bool
  isTournament : Option Bool
  isSimple : Option Bool

/-- Two fixed schedules for the LTS cross-check: round robin, and workers in reverse order one
after the other (each worker needs at most `(rows + 1) * (order + 2)` steps). -/
def schedRoundRobin (workers order : Nat) : List Nat :=
  (List.range ((order + 2) * (order + 2))).flatMap (fun _ => List.range workers)
def schedReverse (workers order : Nat) : List Nat :=
  (List.range workers).reverse.flatMap (fun k => List.replicate ((order + 2) * (order + 2)) k)

def mkInst (t : Nat) (d : GDesc) : Option Inst :=
  match d.repr with
  | "al" =>
    if d.order > 40 then
      -- large orders: the Array / bitset twins, each PROVED equal to the list model
      -- (`Proof/PredFast.lean`: buildRowsFast_eq, coreFast_eq, isSemicompleteFast_eq, isTournamentFast_eq)
      (Pred.AL.buildRowsFast d.order d.arcs).map fun g =>
        ⟨Pred.AL.coreFast g, obsAL g, some (Pred.AL.isComplete g), some (Pred.AL.isSemicompleteFast g t),
         some (Pred.AL.isTournamentFast g), some (Pred.AL.isSimple g)⟩
    else
    (buildAL d).map fun g =>
    let f := Pred.AL.isSemicomplete g t
    -- the labelled-transition model must agree under both schedules (small orders only: cost)
    let lts :=
      if g.order ≤ 12 then
        let k := (Par.ranges g.order t).length
        Pred.AL.isSemicompleteSched g t (schedRoundRobin k g.order) == some f &&
        Pred.AL.isSemicompleteSched g t (schedReverse k g.order) == some f
      else true
    ⟨Query.AL.core g, obsAL g, some (Pred.AL.isComplete g), if lts then some f else none,
     some (Pred.AL.isTournament g), some (Pred.AL.isSimple g)⟩
  | "am" => (buildAM d).map fun g =>
    ⟨Query.AM.core g, obsAM g, some (Pred.AM.isComplete g), some (Pred.AM.isSemicomplete g),
     some (Pred.AM.isTournament g), some (Pred.AM.isSimple g)⟩
  | "mx" => (buildMX d).map fun g =>
    ⟨Query.MX.core g, obsMX g, Pred.MX.isComplete g, some (Pred.MX.isSemicomplete g),
     some (Pred.MX.isTournament g), some (Pred.MX.isSimple g)⟩
  | "el" => (buildEL d).map fun g =>
    ⟨Query.EL.core g, obsEL g, Pred.EL.isComplete g, some (Pred.EL.isSemicomplete g),
     some (Pred.EL.isTournament g), some (Pred.EL.isSimple g)⟩
  | "wu" | "wi" => (buildW d).map fun g =>
    ⟨Query.WL.core g, obsWL g, some (Pred.WL.isComplete g), some (Pred.WL.isSemicomplete g),
     some (Pred.WL.isTournament g), some (Pred.WL.isSimple g)⟩
  | _ => none

def unaryNames : List String :=
  ["obs", "is_complete", "is_semicomplete", "is_tournament", "is_regular", "is_balanced", "is_symmetric",
   "is_oriented", "is_simple", "unchanged"]

def tf (name : String) (v : V) : String := s!"{name}={if v == V.ofBool true then "T" else if v == V.ofBool false then "F" else "P"}"

def hUnary : Handler := fun t args observed =>
  match args, observed with
  | [dv], obsV :: _ => do
    let d ← GDesc.parse dv
    let ob ← parseObs obsV
    let G := ob.G
    let want : List V :=
      [obsV, V.ofBool (DefB.isComplete G), V.ofBool (DefB.isSemicomplete G), V.ofBool (DefB.isTournament G),
       V.ofBool (DefB.isRegular G), V.ofBool (DefB.isBalanced G), V.ofBool (DefB.isSymmetric G),
       V.ofBool (DefB.isOriented G), V.ofBool true, V.ofBool true]
    let model : List V :=
      match mkInst t d with
      | none => [panicV]
      | some m =>
        [m.obs, oBool m.isComplete, oBool m.isSemicomplete, oBool m.isTournament, oBool (Blanket.isRegular m.core),
         oBool (Blanket.isBalanced m.core), V.ofBool (Blanket.isSymmetric m.core), V.ofBool (Blanket.isOriented m.core),
         oBool m.isSimple, V.ofBool true]
    let propFail : Option String :=
      match firstDiff observed want with
      | none => none
      | some (i, o, w) => some s!"{unaryNames[i]?.getD "?"}: implementation {short o} definition-on-own-arcs {short w}"
    let n := ob.nverts
    -- shortcut-relevant shapes: exactly n(n-1)/2 arcs but not a tournament, at least that many but not semicomplete
    let half := n * (n - 1) / 2
    let shape :=
      if ob.narcs == half && !DefB.isTournament G then ["size=half-not-tournament"]
      else if ob.narcs ≥ half && !DefB.isSemicomplete G then ["size>=half-not-semicomplete"] else []
    let tags := commonTags d ob ++ shape ++ [s!"threads={min t 17}"] ++
      ((unaryNames.zip observed).filter (fun p => p.1 != "obs" && p.1 != "unchanged" && p.1 != "is_simple")).map (fun p => tf p.1 p.2)
    pure (classify observed model propFail (nt := n ≥ 2 && ob.narcs ≥ 1) tags)
  | _, _ => none

def hRel : Handler := fun t args observed =>
  match args, observed with
  | [hv, dv], [obsH, obsD, _, _, _] => do
    let hd ← GDesc.parse hv
    let dd ← GDesc.parse dv
    let oh ← parseObs obsH
    let od ← parseObs obsD
    let want : List V :=
      [obsH, obsD, V.ofBool (DefB.isSubdigraph oh.G od.G), V.ofBool (DefB.isSubdigraph od.G oh.G),
       V.ofBool (DefB.isSpanningSubdigraph oh.G od.G)]
    let model : List V :=
      match mkInst t hd, mkInst t dd with
      | some h, some d =>
        [h.obs, d.obs, V.ofBool (Blanket.isSubdigraph h.core d.core), V.ofBool (Blanket.isSuperdigraph h.core d.core),
         V.ofBool (Blanket.isSpanningSubdigraph h.core d.core)]
      | _, _ => [panicV]
    let names := ["obsH", "obsD", "is_subdigraph", "is_superdigraph", "is_spanning_subdigraph"]
    let propFail : Option String :=
      match firstDiff observed want with
      | none => none
      | some (i, o, w) => some s!"{names[i]?.getD "?"}: implementation {short o} definition-on-own-arcs {short w}"
    let tags := [s!"repr={hd.repr}", sizeTag (max hd.order dd.order),
                 if oh.G.verts == od.G.verts then "same-V" else if oh.nverts == od.nverts then "same-order-diff-V" else "diff-order"] ++
      ((names.zip observed).drop 2).map (fun p => tf p.1 p.2)
    pure (classify observed model propFail (nt := oh.narcs + od.narcs ≥ 1) tags)
  | _, _ => none

/-- `pred_tour <repr> <n> [] | [a b]`: compact form of a dense `pred_unary` case — the rule tournament
on `0..n` (`u < v`: `u → v` when `u + v` is even, else `v → u`), optionally with the pair `{a, b}` not
joined and another pair doubled (size stays `n(n-1)/2`).  Same rule as `c12.rs: tour_arcs`. -/
def tourArcs (n : Nat) (missing : Option (Nat × Nat)) : List (Nat × Nat) :=
  let dbl := missing.map (fun p => if min p.1 p.2 ≥ 2 then (0, 1) else (n - 2, n - 1))
  -- pairs in descending order (v = n-1..1, u = v-1..0), as `c12.rs: tour_arcs`
  (List.range' 1 (n - 1)).reverse.flatMap (fun v => (List.range v).reverse.flatMap (fun u =>
    if missing == some (u, v) then []
    else if dbl == some (u, v) then [(u, v), (v, u)]
    else if (u + v) % 2 == 0 then [(u, v)] else [(v, u)]))

def hTour : Handler := fun t args observed =>
  match args with
  | [.a repr, nV, prV] => do
    let n ← V.nat? nV
    let pr ← V.listOf? V.nat? prV
    let missing ← match pr with
      | [] => some none
      | [a, b] => if a < b && b < n && n ≥ 4 then some (some (a, b)) else none
      | _ => none
    if n == 0 then none
    let head := if repr == "am" then V.ofNats (List.range n) else V.ofNat n
    let dv : V := .l [.a repr, head, V.ofPairs (tourArcs n missing)]
    let v ← hUnary t [dv] observed
    pure { v with tags := v.tags ++ [if n ≥ 192 then "order>=192" else "order<192"] }
  | _ => none

/-- `pred_minus_pair <repr> <n> <u> <v> <mode>` (`c12.rs: minus_pair_arcs`): `pair` = complete(n) minus both arcs
between `u` and `v`, `arc` = complete(n) minus `u → v`, `tour` = the rule tournament with `{u, v}` not joined.
No arc list in the output: the summary `[order size has_arc(u,v) has_arc(v,u) arcs()==rule]` ties the built
digraph to the description; the oracle evaluates the definitions on the rule's closed-form arc relation
(`Spec/PredFamilies.lean`; closed-form answers proved in `Proof/PredFamilies.lean`). -/
def minusPairArcs (n u v : Nat) (mode : String) : List (Nat × Nat) :=
  if mode == "tour" then tourArcs n (some (min u v, max u v))
  else
    (List.range n).reverse.flatMap (fun b => (List.range n).reverse.filterMap (fun a =>
      let removed := (a == u && b == v) || (mode == "pair" && a == v && b == u)
      if a != b && !removed then some (a, b) else none))

def hMinusPair : Handler := fun t args observed =>
  match args with
  | [.a repr, nV, uV, vV, .a mode] => do
    let n ← V.nat? nV
    let u ← V.nat? uV
    let v ← V.nat? vV
    if u == v || u ≥ n || v ≥ n then none
    if !(mode == "pair" || mode == "arc" || (mode == "tour" && n ≥ 4)) then none
    let Gd : Digraph :=
      if mode == "pair" then Fam.completeMinusPair n u v
      else if mode == "arc" then Fam.completeMinusArc n u v
      else Fam.tourMinusPair n (min u v) (max u v)
    let ruleSorted := Spec.arcs Gd
    let want : List V :=
      [.l [V.ofNat n, V.ofNat ruleSorted.length, V.ofBool (Gd.adj u v), V.ofBool (Gd.adj v u), V.ofBool true],
       V.ofBool (DefB.isComplete Gd), V.ofBool (DefB.isSemicomplete Gd), V.ofBool (DefB.isTournament Gd),
       V.ofBool (DefB.isRegular Gd), V.ofBool (DefB.isBalanced Gd), V.ofBool (DefB.isSymmetric Gd),
       V.ofBool (DefB.isOriented Gd), V.ofBool true, V.ofBool true]
    let arcs := minusPairArcs n u v mode
    let isW := repr == "wu" || repr == "wi"
    let head := if repr == "am" then V.ofNats (List.range n) else V.ofNat n
    let arcsV : V := if isW then .l (arcs.map (fun a => .l [V.ofNat a.1, V.ofNat a.2, V.ofNat 1])) else V.ofPairs arcs
    let d ← GDesc.parse (.l [.a repr, head, arcsV])
    let model : List V :=
      match mkInst t d with
      | none => [panicV]
      | some m =>
        [.l [V.ofNat m.core.order, V.ofNat m.core.size, V.ofBool (m.core.hasArc u v), V.ofBool (m.core.hasArc v u),
             V.ofBool (m.core.arcs == ruleSorted)],
         oBool m.isComplete, oBool m.isSemicomplete, oBool m.isTournament, oBool (Blanket.isRegular m.core),
         oBool (Blanket.isBalanced m.core), V.ofBool (Blanket.isSymmetric m.core), V.ofBool (Blanket.isOriented m.core),
         oBool m.isSimple, V.ofBool true]
    let names := ["summary [order size has_arc(u,v) has_arc(v,u) arcs()==rule]"] ++ (unaryNames.drop 1)
    let propFail : Option String :=
      match firstDiff observed want with
      | none => none
      | some (i, o, w) => some s!"{names[i]?.getD "?"}: implementation {short o} definition-on-the-described-digraph {short w}"
    let lo := min u v
    let rowTag := if lo == 0 then "row=first" else if lo + 2 == n then "row=last" else if lo == (n - 2) / 2 then "row=middle" else "row=inner"
    let tags := [s!"repr={repr}", sizeTag n, s!"mode={mode}", rowTag, if n % 2 == 0 then "order-even" else "order-odd",
                 if n ≥ 128 then "order>=128" else "order<128", s!"threads={min t 17}"]
    pure (classify observed model propFail (nt := n ≥ 3) tags)
  | _ => none

def handlers : List (String × Handler) := [("pred_minus_pair", hMinusPair), ("pred_unary", hUnary), ("pred_rel", hRel), ("pred_tour", hTour)]

end GraafVerif.Driver.H12
