import GraafVerif.Driver.Common
import GraafVerif.Driver.ReprDesc
import GraafVerif.Model.Gen
import GraafVerif.Spec.Gen
/-!
Driver handlers for property C14 (ops the harness module `ops/c14.rs` emits).

  gen_<name> <repr> <n>        name ∈ empty complete circuit cycle path star wheel
  gen_biclique <repr> <m> <n>
  gen_trivial|gen_claw|gen_utility <repr>
      => [order [vertices] [arcs]] | panic

Model output: the generator model of that representation (`Model/Gen.lean`; the threaded
`AdjacencyList::complete` gets the thread count `t` the harness observed).
Oracle: the defining arc predicate of the property text (`Spec/Gen.lean`) evaluated on the
implementation's observation: order, vertex list `0..n`, arc SET; inadmissible ⇒ `panic`.
-/
namespace GraafVerif.Driver.H14
open GraafVerif GraafVerif.Driver GraafVerif.Repr GraafVerif.Gen GraafVerif.GenSpec

def panicV : List V := [V.a "panic"]

def outOf {α : Type} (obs : α → V) : Option α → List V
  | none => panicV
  | some d => [obs d]

def pairLe (a b : Nat × Nat) : Bool := a.1 < b.1 || (a.1 == b.1 && a.2 ≤ b.2)

def dedupAdj : List (Nat × Nat) → List (Nat × Nat)
  | [] => []
  | [a] => [a]
  | a :: b :: rest => if a == b then dedupAdj (b :: rest) else a :: dedupAdj (b :: rest)

/-- the observed arcs as a canonical set -/
def canonArcs (arcs : List (Nat × Nat)) : List (Nat × Nat) := dedupAdj (arcs.mergeSort pairLe)

/-- What the property fixes for one call: `none` = must panic, `some (n, expected arcs)`. -/
abbrev Expect := Option (Nat × List (Nat × Nat))

def oracle (want : Expect) (observed : List V) : Option String :=
  match want, observed with
  | none, [V.a "panic"] => none
  | none, _ => some "inadmissible-parameters-did-not-panic"
  | some _, [V.a "panic"] => some "admissible-parameters-panicked"
  | some (n, arcs), [V.l [o, vs, as]] =>
    match V.nat? o, V.listOf? V.nat? vs, V.listOf? (V.pair? V.nat? V.nat?) as with
    | some o, some vs, some as =>
      if o ≠ n then some s!"order {o} but the definition has {n}"
      else if vs ≠ List.range n then some "vertex list is not 0..n"
      else
        let got := canonArcs as
        if got == arcs then none
        else
          let missing := arcs.filter (fun a => !got.contains a)
          let extra := got.filter (fun a => !arcs.contains a)
          some s!"arc set differs from the definition: missing {V.ofPairs (missing.take 3)} extra {V.ofPairs (extra.take 3)}"
    | _, _, _ => some "unreadable observation"
  | some _, _ => some "unreadable observation"

/-- Specification (order, arc list) per generator; `none` = inadmissible. -/
def expect1 (name : String) (n : Nat) : Option Expect :=
  match name with
  | "empty" => some (if n = 0 then none else some (n, arcsOf n (EmptyDef n)))
  | "complete" => some (if n = 0 then none else some (n, arcsOf n (CompleteDef n)))
  | "circuit" => some (if n = 0 then none else some (n, arcsOf n (CircuitDef n)))
  | "cycle" => some (if n = 0 then none else some (n, arcsOf n (CycleDef n)))
  | "path" => some (if n = 0 then none else some (n, arcsOf n (PathDef n)))
  | "star" => some (if n = 0 then none else some (n, arcsOf n (StarDef n)))
  | "wheel" => some (if n < 4 then none else some (n, arcsOf n (WheelDef n)))
  | _ => none

def expectBiclique (m n : Nat) : Expect :=
  if m = 0 ∨ n = 0 then none else some (m + n, arcsOf (m + n) (BicliqueDef m n))

/-- The model's output for a one-parameter generator. -/
def model1 (t : Nat) (name repr : String) (n : Nat) : Option (List V) :=
  match repr, name with
  | "al", "empty" => some (outOf obsAL (AL.empty n))
  | "al", "complete" => some (outOf obsAL (AL.complete n t))
  | "al", "circuit" => some (outOf obsAL (AL.circuit n))
  | "al", "cycle" => some (outOf obsAL (AL.cycle n))
  | "al", "path" => some (outOf obsAL (AL.path n))
  | "al", "star" => some (outOf obsAL (AL.star n))
  | "al", "wheel" => some (outOf obsAL (AL.wheel n))
  | "am", "empty" => some (outOf obsAM (AM.empty n))
  | "am", "complete" => some (outOf obsAM (AM.complete n))
  | "am", "circuit" => some (outOf obsAM (AM.circuit n))
  | "am", "cycle" => some (outOf obsAM (AM.cycle n))
  | "am", "path" => some (outOf obsAM (AM.path n))
  | "am", "star" => some (outOf obsAM (AM.star n))
  | "am", "wheel" => some (outOf obsAM (AM.wheel n))
  | "mx", "empty" => some (outOf obsMX (MX.empty n))
  | "mx", "complete" => some (outOf obsMX (MX.complete n))
  | "mx", "circuit" => some (outOf obsMX (MX.circuit n))
  | "mx", "cycle" => some (outOf obsMX (MX.cycle n))
  | "mx", "path" => some (outOf obsMX (MX.path n))
  | "mx", "star" => some (outOf obsMX (MX.star n))
  | "mx", "wheel" => some (outOf obsMX (MX.wheel n))
  | "el", "empty" => some (outOf obsEL (EL.empty n))
  | "el", "complete" => some (outOf obsEL (EL.complete n))
  | "el", "circuit" => some (outOf obsEL (EL.circuit n))
  | "el", "cycle" => some (outOf obsEL (EL.cycle n))
  | "el", "path" => some (outOf obsEL (EL.path n))
  | "el", "star" => some (outOf obsEL (EL.star n))
  | "el", "wheel" => some (outOf obsEL (EL.wheel n))
  | "wu", "empty" | "wi", "empty" =>
    some (outOf (fun g => obs g.order g.vertices g.arcs) (WL.empty n))
  | _, _ => none

def modelBiclique (repr : String) (m n : Nat) : Option (List V) :=
  match repr with
  | "al" => some (outOf obsAL (AL.biclique m n))
  | "am" => some (outOf obsAM (AM.biclique m n))
  | "mx" => some (outOf obsMX (MX.biclique m n))
  | "el" => some (outOf obsEL (EL.biclique m n))
  | _ => none

def model0 (name repr : String) : Option (List V) :=
  match repr, name with
  | "al", "trivial" => some (outOf obsAL AL.trivial)
  | "al", "claw" => some (outOf obsAL AL.claw)
  | "al", "utility" => some (outOf obsAL AL.utility)
  | "am", "trivial" => some (outOf obsAM AM.trivial)
  | "am", "claw" => some (outOf obsAM AM.claw)
  | "am", "utility" => some (outOf obsAM AM.utility)
  | "mx", "trivial" => some (outOf obsMX MX.trivial)
  | "mx", "claw" => some (outOf obsMX MX.claw)
  | "mx", "utility" => some (outOf obsMX MX.utility)
  | "el", "trivial" => some (outOf obsEL EL.trivial)
  | "el", "claw" => some (outOf obsEL EL.claw)
  | "el", "utility" => some (outOf obsEL EL.utility)
  | "wu", "trivial" | "wi", "trivial" =>
    some (outOf (fun g => obs g.order g.vertices g.arcs) WL.trivial)
  | _, _ => none

def expect0 (name : String) : Option Expect :=
  match name with
  | "trivial" => some (some (1, []))
  | "claw" => some (expectBiclique 1 3)
  | "utility" => some (expectBiclique 3 3)
  | _ => none

/-- size / word-boundary class of an order -/
def orderTag (n : Nat) : String :=
  if n = 0 then "n=0" else if n ≤ 8 then "n1-8" else if n ≤ 64 then "n9-64" else "n>64"

/-- thread-chunking class of `AdjacencyList::complete` -/
def chunkTag (n t : Nat) : String :=
  if n ≤ 1 then "chunk:none"
  else if n < t then "chunk:n<t" else if n = t then "chunk:n=t"
  else if n % t = 0 then "chunk:multiple" else "chunk:ragged"

def h1 (name : String) : Handler := fun t args observed =>
  match args with
  | [repr, n] => do
    let repr ← V.atom? repr
    let n ← V.nat? n
    let model ← model1 t name repr n
    let want ← expect1 name n
    let tags := [name, repr, orderTag n, if want.isNone then "inadmissible" else "admissible"] ++
      (if name == "complete" && repr == "al" then [chunkTag n t] else [])
    pure (classify observed model (oracle want observed) (nt := want.isSome && n ≥ 2) tags)
  | _ => none

def hBiclique : Handler := fun _ args observed =>
  match args with
  | [repr, m, n] => do
    let repr ← V.atom? repr
    let m ← V.nat? m
    let n ← V.nat? n
    let model ← modelBiclique repr m n
    let want := expectBiclique m n
    let tags := ["biclique", repr, orderTag (m + n), if want.isNone then "inadmissible" else "admissible"]
    pure (classify observed model (oracle want observed) (nt := want.isSome) tags)
  | _ => none

def h0 (name : String) : Handler := fun _ args observed =>
  match args with
  | [repr] => do
    let repr ← V.atom? repr
    let model ← model0 name repr
    let want ← expect0 name
    pure (classify observed model (oracle want observed) (nt := name != "trivial") [name, repr, "admissible"])
  | _ => none

/-! ### `gen_complete_big`: `complete(n)` at a large order, observed in complement form -/

/-- `0..n` minus the members of an ascending row, minus `u` itself -/
def missingIn (n u : Nat) : Nat → Nat → List Nat → List Nat
  | 0, _, _ => []
  | fuel + 1, v, row =>
    if v ≥ n then [] else
    match row with
    | [] => if v = u then missingIn n u fuel (v + 1) [] else v :: missingIn n u fuel (v + 1) []
    | r :: rs =>
      if r < v then missingIn n u fuel v rs
      else if r = v then missingIn n u fuel (v + 1) rs
      else if v = u then missingIn n u fuel (v + 1) (r :: rs)
      else v :: missingIn n u fuel (v + 1) (r :: rs)

/-- the compact observation of a model adjacency list (what `compact` in `c14.rs` computes) -/
def compactAL (d : AdjList) : V :=
  let n := d.order
  let missing := d.rows.zipIdx.flatMap (fun p => (missingIn n p.2 (n + p.1.length + 1) 0 p.1).map (fun v => (p.2, v)))
  let bad := d.arcs.filter (fun a => a.1 == a.2 || a.2 ≥ n)
  .l [V.ofNat n, V.ofBool true, V.ofNat d.size, V.ofNat missing.length, V.ofPairs (missing.take 20),
      V.ofNat bad.length, V.ofPairs (bad.take 20)]

def hCompleteBig : Handler := fun t args observed =>
  match args with
  | [repr, n, tmin] => do
    let repr ← V.atom? repr
    let n ← V.nat? n
    let tmin ← V.nat? tmin
    if !(repr == "al" || repr == "am" || repr == "mx" || repr == "el") then none
    let want : List V := if n = 0 then panicV else
      [.l [V.ofNat n, V.ofBool true, V.ofNat (n * (n - 1)), V.ofNat 0, .l [], V.ofNat 0, .l []]]
    if t < tmin then
      pure (classify observed [V.a "skip"] none (nt := false) ["complete-big", repr, "skipped"])
    else
      -- the threaded list model is replayed up to order 2100 (memory); beyond that, and for the other
      -- representations (whose list models are quadratic at this size), `C14.statement_holds` is used:
      -- the model's output is the compact form of complete(n)
      let model : List V :=
        if repr == "al" && n ≤ 2100 then (match AL.complete n t with | none => panicV | some d => [compactAL d]) else want
      let propFail := if observed == want then none else
        some s!"complete({n}) in complement form should be {want}"
      pure (classify observed model propFail (nt := true)
        ["complete-big", repr, if repr == "al" then chunkTag n t else "sequential", if n ≤ 2100 && repr == "al" then "model-replayed" else "model-by-theorem"])
  | _ => none

def handlers : List (String × Handler) :=
  [("gen_complete_big", hCompleteBig)] ++
  (["empty", "complete", "circuit", "cycle", "path", "star", "wheel"].map (fun nm => ("gen_" ++ nm, h1 nm))) ++
  [("gen_biclique", hBiclique)] ++
  (["trivial", "claw", "utility"].map (fun nm => ("gen_" ++ nm, h0 nm)))

end GraafVerif.Driver.H14
