import GraafVerif.Driver.Common
/-! Driver handlers for property C14 (ops the harness module `ops/c14.rs` emits). -/
namespace GraafVerif.Driver.H14
open GraafVerif GraafVerif.Driver

def handlers : List (String × Handler) := []

end GraafVerif.Driver.H14
