import GraafVerif.Driver.Common
/-! Driver handlers for property C11 (ops the harness module `ops/c11.rs` emits). -/
namespace GraafVerif.Driver.H11
open GraafVerif GraafVerif.Driver

def handlers : List (String × Handler) := []

end GraafVerif.Driver.H11
