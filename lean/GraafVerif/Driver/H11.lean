import GraafVerif.Driver.Common
import GraafVerif.Driver.ReprDesc
import GraafVerif.Model.Ops
import Std.Data.HashSet
/-!
Driver handlers for property C11 (ops the harness module `ops/c11.rs` emits).

    ops_complement D        => obs(D) obs(R) unchanged invol
    ops_converse   D        => obs(D) obs(R) unchanged invol
    ops_union      A B      => obs(A) obs(B) obs(R) unchanged comm idemA idemB
    ops_union3     A B C    => obs(A) obs(B) obs(C) obs((A∪B)∪C) assoc
    ops_filter     D pred   => obs(D) obs(R) unchanged
    ops_complement_dg D     => obs(D) order nverts size digest loops maxend unchanged invol   (large `al` only)

`obs` = `[order [vertices] [arcs]]` as the REAL code shows it.  The model recomputes the whole
output (correspondence); the oracle evaluates the set definitions of C11 on the observed
operands / result only (it never looks at the model).
-/
namespace GraafVerif.Driver.H11
open GraafVerif GraafVerif.Driver GraafVerif.Repr GraafVerif.Ops

/-! ## Model side: one sum type over the five representations -/

inductive G where
  | al (g : AdjList) | am (g : AdjMap) | mx (g : AdjMatrix) | el (g : EdgeList) | w (g : AdjListW)
  deriving DecidableEq

def G.obs : G → V
  | .al g => obsAL g | .am g => obsAM g | .mx g => obsMX g | .el g => obsEL g | .w g => obsWL g

def build (d : GDesc) : Option G :=
  match d.repr with
  | "al" => (buildAL d).map .al
  | "am" => (buildAM d).map .am
  | "mx" => (buildMX d).map .mx
  | "el" => (buildEL d).map .el
  | "wu" | "wi" => (buildW d).map .w
  | _ => none

/-- `some none` = the model says the code panics; outer `none` = the representation does not
implement the operation (malformed case). -/
def complementG (ap : Nat) : G → Option (Option G)
  | .al g => some ((complementAL g ap).map .al)
  | .am g => some (some (.am (complementAM g)))
  | .mx g => some ((complementMX g).map .mx)
  | .el g => some (some (.el (complementEL g)))
  | .w _ => none

def converseG : G → Option (Option G)
  | .al g => some ((converseAL g).map .al)
  | .am g => some (some (.am (converseAM g)))
  | .mx g => some ((converseMX g).map .mx)
  | .el g => some (some (.el (converseEL g)))
  | .w g => some ((converseW g).map .w)

def unionG (ap : Nat) : G → G → Option (Option G)
  | .al a, .al b => some ((unionAL a b ap).map .al)
  | .am a, .am b => some ((unionAM a b ap).map .am)
  | .mx a, .mx b => some ((unionMX a b).map .mx)
  | .el a, .el b => some ((unionEL a b).map .el)
  | _, _ => none

def parsePred : V → Option (Nat → Bool)
  | .l [.a "ge", k] => do let k ← V.nat? k; pure (fun v => v ≥ k)
  | .l [.a "lt", k] => do let k ← V.nat? k; pure (fun v => v < k)
  | .l [.a "mod", m, r] => do
    let m ← V.nat? m; let r ← V.nat? r
    if m = 0 then none else pure (fun v => v % m == r)
  | .l [.a "in", xs] => do let xs ← V.listOf? V.nat? xs; pure (fun v => xs.contains v)
  | .a "none" => some (fun _ => false)
  | .a "all" => some (fun _ => true)
  | _ => none

/-! ## Oracle side: set definitions on observations -/

structure Obs where
  order : Nat
  verts : List Nat
  arcs : List (Nat × Nat)
  /-- weights, parallel to `arcs` (empty for unweighted) -/
  ws : List Int

def parseArc : V → Option ((Nat × Nat) × Option Int)
  | .l [u, v] => do pure ((← V.nat? u, ← V.nat? v), none)
  | .l [u, v, w] => do pure ((← V.nat? u, ← V.nat? v), some (← V.int? w))
  | _ => none

def Obs.parse : V → Option Obs
  | .l [n, vs, as] => do
    let n ← V.nat? n
    let vs ← V.listOf? V.nat? vs
    let as ← V.listOf? parseArc as
    pure ⟨n, vs, as.map (·.1), as.filterMap (·.2)⟩
  | _ => none

abbrev NSet := Std.HashSet Nat
abbrev PSet := Std.HashSet (Nat × Nat)

def nset (l : List Nat) : NSet := Std.HashSet.ofList l
def pset (l : List (Nat × Nat)) : PSet := Std.HashSet.ofList l

def check (c : Bool) (msg : String) : Option String := if c then none else some msg

def firstFail (l : List (Option String)) : Option String := l.findSome? id

/-- "valid digraph": order = |V|, no self-loop, no endpoint outside the vertex set. -/
def validity (r : Obs) : Option String :=
  let vs := nset r.verts
  firstFail [
    check (r.order == vs.size) "result: order differs from the number of vertices",
    check (r.arcs.all (fun a => a.1 != a.2)) "result has a self-loop",
    check (r.arcs.all (fun a => vs.contains a.1 && vs.contains a.2)) "result has an arc endpoint outside its vertex set" ]

def sameSet (a b : List Nat) : Bool :=
  let sa := nset a; let sb := nset b
  a.all sb.contains && b.all sa.contains

def samePSet (a b : List (Nat × Nat)) : Bool :=
  let sa := pset a; let sb := pset b
  a.all sb.contains && b.all sa.contains

def oracleComplement (d r : Obs) : Option String :=
  let A := pset d.arcs; let R := pset r.arcs
  firstFail [ validity r,
    check (sameSet d.verts r.verts) "complement: vertex set changed",
    check (d.verts.all (fun u => d.verts.all (fun v =>
      (u != v && !A.contains (u, v)) == R.contains (u, v))))
      "complement: some pair u,v of V has u->v in the result although u = v or u->v in A, or lacks it although u != v and u->v not in A" ]

def oracleConverse (d r : Obs) : Option String :=
  firstFail [ validity r,
    check (sameSet d.verts r.verts) "converse: vertex set changed",
    check (samePSet (d.arcs.map (fun a => (a.2, a.1))) r.arcs) "converse: arc set is not the set of reversed arcs",
    -- weights carried over (weighted representation only)
    check (d.ws.isEmpty && r.ws.isEmpty ||
      (let W : Std.HashSet (Nat × Nat × Int) := Std.HashSet.ofList ((d.arcs.zip d.ws).map (fun x => (x.1.2, x.1.1, x.2)))
       let rw := (r.arcs.zip r.ws).map (fun x => (x.1.1, x.1.2, x.2))
       rw.all W.contains && rw.length == d.arcs.length && r.ws.length == r.arcs.length))
      "converse: a weight was not carried over" ]

def oracleUnion (a b r : Obs) : Option String :=
  firstFail [ validity r,
    check (sameSet (a.verts ++ b.verts) r.verts) "union: vertex set is not V(D) u V(E)",
    check (samePSet (a.arcs ++ b.arcs) r.arcs) "union: arc set is not A(D) u A(E)" ]

def oracleFilter (p : Nat → Bool) (d r : Obs) : Option String :=
  firstFail [ validity r,
    check (sameSet (d.verts.filter p) r.verts) "filter_vertices: vertex set is not {v in V : p(v)}",
    check (samePSet (d.arcs.filter (fun a => p a.1 && p a.2)) r.arcs) "filter_vertices: arc set is not the induced one" ]

def flagTrue (name : String) (v : V) : Option String :=
  check (v == V.ofBool true) s!"{name} is false on the real code"

/-! ## Handlers -/

def panicOut : List V := [.a "panic"]

def descTags (d : GDesc) : List String :=
  [d.repr, sizeTag d.order] ++
    (if d.repr == "am" && d.verts != List.range d.order then ["sparse-ids"] else []) ++
    (if d.verts.any (fun v => v ≥ 2 ^ 62) then ["xid"] else [])

/-- Structured coincidences between two key sets that are NOT the same set. -/
def coincideTags (a b : GDesc) : List String :=
  if a.repr != "am" || a.verts == b.verts then [] else
  let sameSize := a.verts.length == b.verts.length
  let sameMin := a.verts.head? == b.verts.head?
  let sameMax := a.verts.getLast? == b.verts.getLast?
  if sameSize && sameMin && sameMax then ["same-size-min-max"]
  else if (sameSize && (sameMin || sameMax)) || (sameMin && sameMax) ||
      a.verts.all b.verts.contains || b.verts.all a.verts.contains then ["partial-coincidence"]
  else []

def tTag (d : GDesc) (t : Nat) : List String :=
  if d.repr == "al" || d.repr == "am" then [if d.order > t then "rows>t" else "rows<=t"] else []

/-- C11 speaks about digraphs: every operand description must denote one (order ≥ 1, every arc a
non-loop between vertices — i.e. the build through `add_arc` does not panic).  Anything else (a
shrinking artefact, a hand-written line) is compared with the model only. -/
def applicable (ds : List GDesc) : Bool := ds.all (fun d => d.order ≥ 1 && (build d).isSome)

def inapp (ds : List GDesc) : List String := if applicable ds then [] else ["not-a-digraph"]

def hUnary (opname : String) (f : Nat → G → Option (Option G)) (orc : Obs → Obs → Option String) : Handler :=
  fun t args obs =>
  match args with
  | [dv] => do
    let d ← GDesc.parse dv
    let tags := opname :: descTags d ++ tTag d t
    let nt := d.order ≥ 2 && !d.arcs.isEmpty
    let model : List V :=
      match build d with
      | none => panicOut
      | some g =>
        match f t g with
        | none => [.a "unsupported"]
        | some none => panicOut
        | some (some r) =>
          let invol := match f t r with
            | some (some rr) => decide (rr = g)
            | _ => false
          [g.obs, r.obs, V.ofBool true, V.ofBool invol]
    let propFail : Option String :=
      if !applicable [d] then none else
      match obs with
      | [od, or, unch, invol] =>
        match Obs.parse od, Obs.parse or with
        | some od, some or =>
          firstFail [orc od or, flagTrue "operand unchanged" unch, flagTrue s!"{opname} o {opname} == id" invol]
        | _, _ => some "unparsable observation"
      | _ => some s!"{opname} did not return (panic) on a valid digraph"
    pure (classify obs model propFail (nt && applicable [d]) (tags ++ inapp [d]))
  | _ => none

def hUnion : Handler := fun t args obs =>
  match args with
  | [av, bv] => do
    let a ← GDesc.parse av
    let b ← GDesc.parse bv
    if a.repr != b.repr then none
    let tags := "union" :: descTags a ++ tTag (if a.order ≥ b.order then a else b) t ++
      [if a.order == b.order then "eq-order" else "diff-order"] ++
      (if a.repr == "am" then [if a.verts == b.verts then "same-keys" else "other-keys"] else []) ++
      coincideTags a b
    let nt := (a.order ≥ 2 || b.order ≥ 2) && !(a.arcs.isEmpty && b.arcs.isEmpty)
    let model : List V :=
      match build a, build b with
      | some ga, some gb =>
        match unionG t ga gb, unionG t gb ga, unionG t ga ga, unionG t gb gb with
        | some (some r), some (some r'), some (some raa), some (some rbb) =>
          [ga.obs, gb.obs, r.obs, V.ofBool true, V.ofBool (decide (r = r')),
           V.ofBool (decide (raa = ga)), V.ofBool (decide (rbb = gb))]
        | none, _, _, _ => [.a "unsupported"]
        | _, _, _, _ => panicOut
      | _, _ => panicOut
    let propFail : Option String :=
      if !applicable [a, b] then none else
      match obs with
      | [oa, ob, or, unch, comm, ia, ib] =>
        match Obs.parse oa, Obs.parse ob, Obs.parse or with
        | some oa, some ob, some or =>
          firstFail [oracleUnion oa ob or, flagTrue "operands unchanged" unch, flagTrue "A u B == B u A" comm,
            flagTrue "A u A == A" ia, flagTrue "B u B == B" ib]
        | _, _, _ => some "unparsable observation"
      | _ => some "union did not return (panic) on valid digraphs"
    pure (classify obs model propFail (nt && applicable [a, b]) (tags ++ inapp [a, b]))
  | _ => none

def hUnion3 : Handler := fun t args obs =>
  match args with
  | [av, bv, cv] => do
    let a ← GDesc.parse av
    let b ← GDesc.parse bv
    let c ← GDesc.parse cv
    if a.repr != b.repr || b.repr != c.repr then none
    let tags := "union3" :: descTags a
    let nt := !(a.arcs.isEmpty && b.arcs.isEmpty && c.arcs.isEmpty)
    let model : List V :=
      match build a, build b, build c with
      | some ga, some gb, some gc =>
        let l := do
          let ab ← (← unionG t ga gb)
          let abc ← (← unionG t ab gc)
          pure abc
        let r := do
          let bc ← (← unionG t gb gc)
          let abc ← (← unionG t ga bc)
          pure abc
        match l, r with
        | some l, some r => [ga.obs, gb.obs, gc.obs, l.obs, V.ofBool (decide (l = r))]
        | _, _ => panicOut
      | _, _, _ => panicOut
    let propFail : Option String :=
      if !applicable [a, b, c] then none else
      match obs with
      | [oa, ob, oc, or, assoc] =>
        match Obs.parse oa, Obs.parse ob, Obs.parse oc, Obs.parse or with
        | some oa, some ob, some oc, some or =>
          firstFail [oracleUnion ⟨0, oa.verts ++ ob.verts, oa.arcs ++ ob.arcs, []⟩ oc or,
            flagTrue "(A u B) u C == A u (B u C)" assoc]
        | _, _, _, _ => some "unparsable observation"
      | _ => some "union did not return (panic) on valid digraphs"
    pure (classify obs model propFail (nt && applicable [a, b, c]) (tags ++ inapp [a, b, c]))
  | _ => none

def predTag : V → String
  | .l (.a "ge" :: _) | .l (.a "lt" :: _) => "pred-range"
  | .l (.a k :: _) => "pred-" ++ k
  | .a _ => "pred-const"
  | _ => "pred-?"

def hFilter : Handler := fun _ args obs =>
  match args with
  | [dv, pv] => do
    let d ← GDesc.parse dv
    let p ← parsePred pv
    if d.repr != "am" then none
    let kept := (d.verts.filter p).length
    let tags := ["filter", predTag pv] ++ descTags d ++
      [if kept == 0 then "keeps-none" else if kept == d.order then "keeps-all" else "keeps-some"]
    let nt := d.order ≥ 2 && !d.arcs.isEmpty && 0 < kept && kept < d.order
    let model : List V :=
      match buildAM d with
      | none => panicOut
      | some g => [obsAM g, obsAM (filterAM g p), V.ofBool true]
    let propFail : Option String :=
      if !applicable [d] then none else
      match obs with
      | [od, or, unch] =>
        match Obs.parse od, Obs.parse or with
        | some od, some or =>
          -- an empty selection is not a digraph: only the set definition is demanded of it
          firstFail [oracleFilter p od or, flagTrue "operand unchanged" unch]
        | _, _ => some "unparsable observation"
      | _ => some "filter_vertices did not return (panic) on a valid digraph"
    pure (classify obs model propFail (nt && applicable [d]) (tags ++ inapp [d]))
  | _ => none

/-! ## Large `AdjacencyList::complement`: summary instead of the dense result -/

def digestK : Nat := 1000003

/-- `(size, digest, loops, maxend)` of the complement rows `complementRowSeq g u`, `u = 0..order`,
streamed row by row (row `u` of the operand is looked up once, not once per candidate `v`). -/
def summarizeComplement (g : AdjList) : Nat × Nat × Nat × Option Nat :=
  let all := List.range g.order
  (g.rows.zipIdx).foldl (fun (acc : Nat × Nat × Nat × Option Nat) (x : List Nat × Nat) =>
    let u := x.2
    let row := all.filter (fun v => v != u && !x.1.contains v)   -- = complementRowSeq g u
    row.foldl (fun (acc : Nat × Nat × Nat × Option Nat) v =>
      (acc.1 + 1, acc.2.1 + u * digestK + v, acc.2.2.1 + (if u == v then 1 else 0),
        some (match acc.2.2.2 with | none => max u v | some m => max m (max u v)))) acc) (0, 0, 0, none)

def hComplementDg : Handler := fun t args obs =>
  match args with
  | [dv] => do
    let d ← GDesc.parse dv
    if d.repr != "al" then none
    let n := d.order
    let tags := ["complement", "al", sizeTag n] ++ tTag d t ++ (if n ≥ 256 * t then ["n>=256t"] else [])
    let ok := applicable [d]
    -- model: by `complementAL_threads_def` (Thm/C11) the result of `complementAL g t` is, for every
    -- `t ≥ 1`, the row-wise set expression `complementRowSeq`; the involution flag is `true` by
    -- `statementStructural`.  (Evaluating `complementAL` itself on the dense result is quadratic per row.)
    let model : List V :=
      match buildAL d with
      | none => panicOut
      | some g =>
        if t = 0 then panicOut else
        let (size, dig, loops, maxend) := summarizeComplement g
        [obsAL g, V.ofNat g.order, V.ofNat g.order, V.ofNat size, V.ofNat dig, V.ofNat loops,
          V.ofOptNat maxend, V.ofBool true, V.ofBool true]
    -- oracle: closed forms over the OBSERVED operand, independent of the model
    let propFail : Option String :=
      if !ok then none else
      match obs with
      | [od, ro, rnv, rsize, rdig, rloops, rmax, unch, invol] =>
        match Obs.parse od, V.nat? ro, V.nat? rnv, V.nat? rsize, V.nat? rdig, V.nat? rloops, V.opt? V.nat? rmax with
        | some od, some ro, some rnv, some rsize, some rdig, some rloops, some rmax =>
          let n := od.order
          let A := (pset od.arcs).toList
          let allSum := n * (n - 1) / 2 * (n - 1) * (digestK + 1)
          let aSum := A.foldl (fun s a => s + a.1 * digestK + a.2) 0
          firstFail [
            check (ro == n && rnv == n) s!"complement: vertex set changed (order {ro}, {rnv} vertices, operand order {n})",
            check (rloops == 0) "result has a self-loop",
            check (match rmax with | none => true | some m => m < ro) "result has an arc endpoint outside its vertex set",
            check (rsize + A.length == n * (n - 1)) s!"complement: {rsize} arcs, but |V|(|V|-1) - |A| = {n * (n - 1) - A.length}",
            check (rdig + aSum == allSum) "complement: the arc set is not the set of non-arcs (digest differs)",
            flagTrue "operand unchanged" unch, flagTrue "complement o complement == id" invol ]
        | _, _, _, _, _, _, _ => some "unparsable observation"
      | _ => some "complement did not return (panic) on a valid digraph"
    pure (classify obs model propFail (ok && n ≥ 2) (tags ++ inapp [d]))
  | _ => none

def handlers : List (String × Handler) := [
  ("ops_complement_dg", hComplementDg),
  ("ops_complement", hUnary "complement" complementG oracleComplement),
  ("ops_converse", hUnary "converse" (fun _ => converseG) oracleConverse),
  ("ops_union", hUnion),
  ("ops_union3", hUnion3),
  ("ops_filter", hFilter) ]

end GraafVerif.Driver.H11
