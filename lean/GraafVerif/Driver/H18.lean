import GraafVerif.Driver.Common
/-! Driver handlers for property C18 (ops the harness module `ops/c18.rs` emits). -/
namespace GraafVerif.Driver.H18
open GraafVerif GraafVerif.Driver

def handlers : List (String × Handler) := []

end GraafVerif.Driver.H18
