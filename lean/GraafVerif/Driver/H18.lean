import GraafVerif.Driver.Common
import GraafVerif.Model.DistMatrix
/-!
Driver handlers for C18 (`DistanceMatrix`).

  dm_i  order inf [[u v w]…] [[u v]…]   (W = isize)      dm_u … (W = usize)
      the harness calls `DistanceMatrix::new(order, inf)`, performs the `IndexMut<(u,v)>`
      writes in order, then observes
        =>  [ecc…] diam [center…] [periphery…] true|false [read…] [raw…]
      (`read` = value or `panic` per requested `(u, v)`; `raw` = `dist[..]`), or
        =>  panic-new            `new` panicked
        =>  [panic-set k]        the k-th write panicked
  dm_fw [wi n warcs]
      `FloydWarshall::new(&digraph).distances()`; the matrix is read back through
      `Index<(u, v)>` in row-major order
        =>  inf [entry…] [ecc…] diam [center…] [periphery…] true|false

  dm_si order inf default [[u w]…] [[u v w]…]   (W = isize)      dm_su … (W = usize)
      sparse description for LARGE orders (round 2): after `new`, every cell is written with
      `default` (skipped when `default = inf`), then every cell of row `u` with `w` for each
      row fill `[u w]`, then the cell exceptions `[u v w]`, all through `IndexMut<(u, v)>`
        =>  [ecc…] diam [center…] [periphery…] true|false
  dm_fw2 / dm_fw3 [wi n warcs]   as `dm_fw`, but `distances()` is called 2 / 3 times on the SAME object

The PROPFAIL oracle evaluates the textbook definitions on the entries that were SENT
(association lookup over the write list, `List.max?` / `List.min?`, `filter` over the vertex
range); it shares nothing with the model's `chunks` / running-minimum loop.
-/
namespace GraafVerif.Driver.H18
open GraafVerif GraafVerif.Driver GraafVerif.DistMatrix

/-! ## textbook oracle -/

structure Tab where
  n : Nat
  inf : Int
  rows : List (List Int)          -- rows[u][v]

/-- Table of the entries after the writes (last write to a cell wins). -/
def Tab.ofWrites (n : Nat) (inf : Int) (ws : List (Nat × Nat × Int)) : Tab :=
  let rev := ws.reverse
  { n := n, inf := inf,
    rows := (List.range n).map (fun u => (List.range n).map (fun v =>
      match rev.find? (fun w => w.1 == u && w.2.1 == v) with
      | some w => w.2.2
      | none => inf)) }

def Tab.ofRaw (n : Nat) (inf : Int) (raw : List Int) : Tab :=
  let arr := raw.toArray
  { n := n, inf := inf,
    rows := (List.range n).map (fun u => (List.range n).map (fun v => (arr[u * n + v]?).getD inf)) }

/-- Table of a sparse description: default, then whole-row fills, then cell exceptions
(later entries win). -/
def Tab.ofSparse (n : Nat) (inf dflt : Int) (fills : List (Nat × Int)) (cells : List (Nat × Nat × Int)) : Tab :=
  let rfills := fills.reverse
  let rcells := cells.reverse
  { n := n, inf := inf,
    rows := (List.range n).map (fun u =>
      let base := match rfills.find? (fun f => f.1 == u) with
        | some f => f.2
        | none => dflt
      let mine := rcells.filter (fun c => c.1 == u)
      if mine.isEmpty then List.replicate n base
      else (List.range n).map (fun v =>
        match mine.find? (fun c => c.2.1 == v) with
        | some c => c.2.2
        | none => base)) }

def Tab.entry (t : Tab) (u v : Nat) : Int := ((t.rows[u]?).getD [])[v]?.getD t.inf
def Tab.ecc (t : Tab) : List Int := t.rows.map (fun r => (r.max?).getD t.inf)
def Tab.diam (t : Tab) : Int := (t.ecc.max?).getD t.inf
def Tab.center (t : Tab) : List Nat :=
  let e := t.ecc
  let mn := (e.min?).getD t.inf
  (List.range t.n).filter (fun u => (e[u]?).getD t.inf == mn)
def Tab.periphery (t : Tab) : List Nat :=
  let e := t.ecc
  let d := t.diam
  (List.range t.n).filter (fun u => (e[u]?).getD t.inf == d)
def Tab.connected (t : Tab) : Bool := !(t.ecc.contains t.inf)
def Tab.raw (t : Tab) : List Int := t.rows.flatten
def Tab.bounded (t : Tab) : Bool := t.rows.all (fun r => r.all (fun x => x ≤ t.inf))

def Tab.metrics (t : Tab) : List V :=
  [V.ofInts t.ecc, V.i t.diam, V.ofNats t.center, V.ofNats t.periphery, V.ofBool t.connected]

/-- First differing component between what the code returned and what the definitions say. -/
def firstDiff (names : List String) (obs want : List V) : Option String :=
  if obs.length != want.length then some s!"shape: {obs.length} outputs, expected {want.length}"
  else
    let bad := (names.zip (obs.zip want)).filter (fun x => !(x.2.1 == x.2.2))
    match bad with
    | [] => none
    | (nm, _, w) :: _ => some s!"{nm}: definition gives {w}"

/-! ## model side -/

def modelMetrics (m : DM) : List V :=
  [V.ofInts (ecc m), V.i (diameter m), V.ofNats (center m), V.ofNats (periphery m), V.ofBool (isConnected m)]

def readV (m : DM) (uv : Nat × Nat) : V :=
  match get m uv.1 uv.2 with
  | .panic => .a "panic"
  | .ok x => .i x

/-- index of the first panicking write (model). -/
def firstBadWrite (m : DM) : List (Nat × Nat × Int) → Nat → Option Nat
  | [], _ => none
  | (u, v, w) :: ws, k =>
    match set m u v w with
    | .panic => some k
    | .ok m' => firstBadWrite m' ws (k+1)

def modelBuild (order : Nat) (inf : Int) (ws : List (Nat × Nat × Int)) (reads : List (Nat × Nat)) : List V :=
  match new order inf with
  | .panic => [.a "panic-new"]
  | .ok m0 =>
    match setAll m0 ws with
    | .panic => [.l [.a "panic-set", V.ofNat ((firstBadWrite m0 ws 0).getD 0)]]
    | .ok m => modelMetrics m ++ [.l (reads.map (readV m)), V.ofInts m.dist]

def distinctCount (l : List Int) : Nat := l.eraseDups.length

def shapeTags (t : Tab) : List String :=
  let e := t.ecc
  let allInf := e.all (· == t.inf)
  let asym := t.n ≤ 64 && (List.range t.n).any (fun u => (List.range t.n).any (fun v => t.entry u v != t.entry v u))
  [ if t.n ≥ 500 then "n>=500" else if t.n ≥ 255 then "n255-499" else sizeTag t.n,
    if allInf then "all-inf" else if t.connected then "connected" else "some-inf",
    if t.center.length > 1 then "tie-min" else "single-min",
    if t.periphery.length > 1 then "tie-max" else "single-max",
    if t.n > 64 then "large" else if asym then "asym" else "sym" ]

def hBuild (ty : String) : Handler := fun _ args obs =>
  match args with
  | [order, inf, ws, reads] => do
    let order ← V.nat? order
    let inf ← V.int? inf
    let ws ← V.listOf? (V.triple? V.nat? V.nat? V.int?) ws
    let reads ← V.listOf? (V.pair? V.nat? V.nat?) reads
    let model := modelBuild order inf ws reads
    -- the property speaks about: order ≥ 1 (representable square), in-range cells, entries ≤ infinity
    let sane := order ≥ 1 && order ≤ 4096 && ws.all (fun w => w.1 < order && w.2.1 < order)
    if !sane then
      let why := if order == 0 then "order0" else if order > 4096 then "order-huge" else "write-out-of-range"
      -- order 0 must panic (assert in `new`): that much the API documents
      let pf : Option String :=
        if order == 0 && !(obs == [V.a "panic-new"]) then some "new(0, _) must panic" else none
      pure (classify obs model pf (nt := false) [ty, "outside", why])
    else
      let t := Tab.ofWrites order inf ws
      let bounded := t.bounded
      let inReads := reads.filter (fun r => r.1 < order && r.2 < order)
      let pf : Option String :=
        if !bounded then none
        else
          match obs with
          | [e, d, c, p, k, .l rs, rawV] =>
            -- the property fixes which CELL (u, v) names, not the layout of the public `dist`
            -- vector: only its multiset of entries is demanded here (the exact row-major
            -- layout is part of the model correspondence, i.e. a MISMATCH if it changes)
            let sortV := fun (xs : List Int) => V.ofInts (xs.mergeSort (fun a b => decide (a ≤ b)))
            let raw := match V.listOf? V.int? rawV with
              | some xs => sortV xs
              | none => rawV
            let obsIn := (reads.zip rs).filter (fun x => x.1.1 < order && x.1.2 < order) |>.map (·.2)
            firstDiff ["eccentricities", "diameter", "center", "periphery", "is_connected", "index", "entries (new + index_mut, as a multiset)"]
              [e, d, c, p, k, .l obsIn, raw]
              (t.metrics ++ [.l (inReads.map (fun r => V.i (t.entry r.1 r.2))), sortV t.raw])
          | _ => some "a call panicked on an in-range matrix"
      let tags := [ty, if bounded then "bounded" else "above-inf"] ++ shapeTags t ++
        [if ws.isEmpty then "fresh" else "written"]
      pure (classify obs model pf (nt := order ≥ 2) tags)
  | _ => none

def hFw : Handler := fun _ args obs =>
  match args, obs with
  | [g], [inf, raw, e, d, c, p, k] => do
    let g ← GDesc.parse g
    let inf ← V.int? inf
    let raw ← V.listOf? V.int? raw
    let n := g.order
    let m : DM := ⟨raw, inf, n⟩
    let model := [V.i inf, V.ofInts raw] ++ modelMetrics m
    let t := Tab.ofRaw n inf raw
    let pf : Option String :=
      if raw.length != n * n then some s!"matrix has {raw.length} entries for order {n}"
      else if !t.bounded then some "an entry exceeds infinity"
      else firstDiff ["eccentricities", "diameter", "center", "periphery", "is_connected"] [e, d, c, p, k] t.metrics
    pure (classify obs model pf (nt := n ≥ 2) (["fw"] ++ shapeTags t))
  | [_], _ =>
    -- anything else (a panic) on a digraph of order ≥ 1 refutes the property outright
    some (classify obs [] (some "FloydWarshall / DistanceMatrix call did not return a matrix") (nt := true) ["fw", "no-matrix"])
  | _, _ => none

/-- Where the row maxima sit (round-2 seeds: a half-split that forgets the last column of an odd
row, block-wise scans): tags for the evidence. -/
def maxPosTags (t : Tab) : List String :=
  let lastOnly := t.rows.any (fun r =>
    match r.max? with
    | some mx => r.getLast? == some mx && !(r.dropLast.contains mx)
    | none => false)
  [ if lastOnly then "max-only-in-last-col" else "max-elsewhere",
    if t.n % 2 == 1 then "odd" else "even" ]

def hSparse (ty : String) : Handler := fun _ args obs =>
  match args with
  | [order, inf, dflt, fills, cells] => do
    let n ← V.nat? order
    let inf ← V.int? inf
    let dflt ← V.int? dflt
    let fills ← V.listOf? (V.pair? V.nat? V.int?) fills
    let cells ← V.listOf? (V.triple? V.nat? V.nat? V.int?) cells
    -- generated only inside the property's scope; anything else is a protocol error
    if n == 0 || n > 4096 || fills.any (fun f => f.1 ≥ n) || cells.any (fun c => c.1 ≥ n || c.2.1 ≥ n) then none
    else
      let t := Tab.ofSparse n inf dflt fills cells
      let m : DM := ⟨t.raw, inf, n⟩
      let model := modelMetrics m
      let pf : Option String :=
        if !t.bounded then none
        else firstDiff ["eccentricities", "diameter", "center", "periphery", "is_connected"] obs t.metrics
      let tags := [ty, "sparse", if t.bounded then "bounded" else "above-inf"] ++ shapeTags t ++ maxPosTags t
      pure (classify obs model pf (nt := true) tags)
  | _ => none

def handlers : List (String × Handler) :=
  [("dm_i", hBuild "isize"), ("dm_u", hBuild "usize"), ("dm_fw", hFw), ("dm_fw2", hFw), ("dm_fw3", hFw),
   ("dm_si", hSparse "isize"), ("dm_su", hSparse "usize")]

end GraafVerif.Driver.H18
