import GraafVerif.Driver.Common
import GraafVerif.Driver.ReprDesc
import GraafVerif.Driver.H14
import GraafVerif.Model.ConvChain
import GraafVerif.Model.ConvEq
import GraafVerif.Model.Gen
/-!
Driver handlers for property C16 (ops the harness module `ops/c16.rs` emits).

  conv_chain <desc> [tag …]      build `desc`, then `T::from(previous)` along the tags
                                 (al am mx el; wu wi only last)
      => obs_0 obs_1 … obs_k     one observation per digraph; `panic` ends the list
  conv_from_rows <repr> <rows>   repr ∈ al am (rows of ids) | wu wi (rows of `[v w]`)
  conv_from_arcs <repr> <arcs>   repr ∈ mx el
      => obs | panic

Oracle (on the implementation's observations only): along a chain that starts from a digraph
with vertex set `0..order`, nothing panics and every digraph has the order, vertex list and arc
set of the first one, weights all 1; rows / arcs: exactly the given rows resp. `max id + 1` and
the given arc set, and `panic` for a self-loop, an out-of-range head, or no vertex (where the
documentation says so: everything except `EdgeList::from(arcs)`).
-/
namespace GraafVerif.Driver.H16
open GraafVerif GraafVerif.Driver GraafVerif.Repr GraafVerif.Conv

def obsAny : Any → V
  | .al d => obsAL d | .am d => obsAM d | .mx d => obsMX d | .el d => obsEL d | .wl d => obsWL d

def build (d : GDesc) : Option Any :=
  match d.repr with
  | "al" => (buildAL d).map .al
  | "am" => (buildAM d).map .am
  | "mx" => (buildMX d).map .mx
  | "el" => (buildEL d).map .el
  | _ => none

/-- rendering of the model's chain (`Model/ConvChain.lean`): one observation per digraph,
`panic` for the step that panicked -/
def renderChain (rs : List (Option Any)) : List V :=
  rs.map (fun r => match r with | none => V.a "panic" | some d => obsAny d)

/-- one observed digraph: order, vertices, arcs (with weight when weighted) -/
structure Seen where
  order : Nat
  verts : List Nat
  arcs : List (Nat × Nat)
  weights : List Int

def seen? : V → Option Seen
  | .l [o, vs, as] => do
    let o ← V.nat? o
    let vs ← V.listOf? V.nat? vs
    match V.listOf? (V.pair? V.nat? V.nat?) as with
    | some ps => pure ⟨o, vs, ps, []⟩
    | none =>
      let ts ← V.listOf? (V.triple? V.nat? V.nat? V.int?) as
      pure ⟨o, vs, ts.map (fun t => (t.1, t.2.1)), ts.map (fun t => t.2.2)⟩
  | _ => none

def chainOracle (observed : List V) : Option String :=
  match observed with
  | [] => some "no observation"
  | first :: rest =>
    match seen? first with
    | none => some "source observation unreadable"
    | some s0 =>
      let want := H14.canonArcs s0.arcs
      let rec go (i : Nat) : List V → Option String
        | [] => none
        | V.a "panic" :: _ => some s!"conversion {i} panicked on a valid contiguous digraph"
        | v :: vs =>
          match seen? v with
          | none => some s!"observation {i} unreadable"
          | some s =>
            if s.order ≠ s0.order then some s!"conversion {i}: order {s.order} ≠ {s0.order}"
            else if s.verts ≠ s0.verts then some s!"conversion {i}: vertex list differs"
            else if H14.canonArcs s.arcs != want then some s!"conversion {i}: arc set differs"
            else if s.weights.any (· ≠ 1) then some s!"conversion {i}: a weight is not 1"
            else go (i + 1) vs
      go 1 rest

/-! ### `==` checks (round 4): trailing output value `[eq [b …] …]`, one sublist per digraph -/

/-- split the trailing `[eq …]` value off an observation -/
def splitEq (observed : List V) : List V × Option (List V) :=
  match observed.getLast? with
  | some (.l (.a "eq" :: subs)) => (observed.dropLast, some subs)
  | _ => (observed, none)

/-- The model's prediction of the `==` checks of one digraph: `Conv.eqChecks` replayed literally up
to order 10, beyond that `true` by `C16.eqChecks_true` (the model representation is canonical). -/
def eqModel (x : Any) : V :=
  let k := match x with | .wl _ => 1 | _ => 4
  .l ((if x.order ≤ 10 then eqChecks x else List.replicate k true).map V.ofBool)

def eqValue (xs : List Any) : V := .l (V.a "eq" :: xs.map eqModel)

/-- every `==` check must be `true` (`count` digraphs were observed) -/
def eqOracle (subs : Option (List V)) (count : Nat) : Option String :=
  match subs with
  | none => some "the == checks are missing from the observation"
  | some subs =>
    if subs.length ≠ count then some s!"{subs.length} == check lists for {count} digraphs"
    else
      let bad := subs.zipIdx.filterMap (fun p =>
        match p.1 with
        | .l bs => (bs.zipIdx.find? (fun q => !(q.1 == V.a "true"))).map (fun q => (p.2, q.2, q.1))
        | _ => some (p.2, 0, V.a "unreadable"))
      match bad with
      | [] => none
      | (i, j, v) :: _ =>
        some (if j = 0 then s!"digraph {i} != the same digraph rebuilt by empty + add_arc over its arcs ({v})"
              else s!"digraph {i} != its round trip through another representation (check {j}: {v})")

def outOfAny : Option Any → List V
  | none => [V.a "panic"]
  | some x => [obsAny x, eqValue [x]]

def hChain : Handler := fun _ args observed =>
  match args with
  | [desc, tags] => do
    let d ← GDesc.parse desc
    let tags ← V.listOf? V.atom? tags
    let src := build d
    let (obsMain, obsEq) := splitEq observed
    let contiguous := d.verts == List.range d.order && d.order > 0
    let valid := d.arcs.all (fun a => a.1 != a.2 && a.1 < d.order && a.2 < d.order)
    let applicable := contiguous && valid
    -- outside the property (non-contiguous map) nothing is claimed about `==`: echo the observation
    let eqOf (xs : List Any) : List V :=
      if applicable then [eqValue xs] else (match obsEq with | some subs => [.l (V.a "eq" :: subs)] | none => [])
    let model ← match src with
      | none => some [V.a "panic"]
      | some s => (runChain s tags).map (fun rs => obsAny s :: renderChain rs ++ eqOf (s :: rs.filterMap id))
    let propFail := if applicable then
        (match chainOracle obsMain with
         | some why => some why
         | none => eqOracle obsEq obsMain.length)
      else none
    let panicked := observed.contains (V.a "panic")
    let tl := [d.repr, (if tags.length ≥ 2 then "chain" else "single"), sizeTag d.order,
               if applicable then "contiguous" else "outside-property",
               if panicked then "panic" else "no-panic",
               if tags.any (fun t => t == "wu" || t == "wi") then "to-weighted" else "unweighted"] ++
              (match tags.getLast? with | some t => [s!"to:{t}"] | none => [])
    pure (classify observed model propFail (nt := applicable && !d.arcs.isEmpty && !tags.isEmpty) tl)
  | _ => none

/-- `BTreeMap<usize, W>::from_iter`: key-ascending, of equal keys the last wins. -/
def wmapOf (l : List (Nat × Int)) : List (Nat × Int) := l.foldr (fun e m => mupsert e.1 e.2 id m) []

def outOf {α : Type} (obs : α → V) : Option α → List V
  | none => [V.a "panic"]
  | some d => [obs d]

def tripleLe (a b : Nat × Nat × Int) : Bool := a.1 < b.1 || (a.1 == b.1 && a.2.1 ≤ b.2.1)

/-- the expected digraph: order + arc set (+ weight per arc when `weights` is given) -/
def expectObs (want : Option (Nat × List (Nat × Nat × Int))) (weighted : Bool) (observed : List V) : Option String :=
  match want, observed with
  | none, [V.a "panic"] => none
  | none, _ => some "invalid input did not panic"
  | some _, [V.a "panic"] => some "valid input panicked"
  | some (n, arcs), [o] =>
    match seen? o with
    | none => some "unreadable observation"
    | some s =>
      if s.order ≠ n then some s!"order {s.order}, expected {n}"
      else if s.verts ≠ List.range n then some "vertex list is not 0..order"
      else if weighted then
        let got := (s.arcs.zip s.weights).map (fun p => (p.1.1, p.1.2, p.2))
        if s.weights.length == s.arcs.length && got.mergeSort tripleLe == arcs.mergeSort tripleLe then none
        else some "weighted arcs differ from the given rows"
      else if H14.canonArcs s.arcs == H14.canonArcs (arcs.map (fun a => (a.1, a.2.1))) then none
      else some "arc set differs from the given input"
  | some _, _ => some "unreadable observation"

def runFromRows (repr : String) (rows : V) (extra : List String) (observed : List V) : Option Verdict := do
    if repr == "al" || repr == "am" then
      let rows0 ← V.listOf? (V.listOf? V.nat?) rows
      let rows := rows0.map Gen.ssetOf
      let model := if repr == "al" then outOfAny ((AL.fromRows rows).map .al) else outOfAny ((AM.fromRows rows).map .am)
      let (obsMain, obsEq) := splitEq observed
      let n := rows.length
      let arcs := rows.zipIdx.flatMap (fun p => p.1.map (fun v => (p.2, v)))
      let selfLoop := arcs.any (fun a => a.1 == a.2)
      let oob := arcs.any (fun a => a.2 ≥ n)
      let want := if n = 0 || selfLoop || oob then none else some (n, arcs.map (fun a => (a.1, a.2, (1 : Int))))
      let mixed := rows.zipIdx.any (fun p => p.1.any (· ≥ n) && p.1.any (fun v => v < n && v != p.2))
      let tags := extra ++ [repr, sizeTag n, if n = 0 then "empty" else if selfLoop then "self-loop" else if oob then (if mixed then "head-out-of-range-mixed" else "head-out-of-range") else "valid"]
      let pf := match expectObs want false obsMain with | some why => some why | none => if want.isSome then eqOracle obsEq 1 else none
      pure (classify observed model pf (nt := want.isSome && !arcs.isEmpty) tags)
    else if repr == "wu" || repr == "wi" then
      let rows0 ← V.listOf? (V.listOf? (V.pair? V.nat? V.int?)) rows
      let rows := rows0.map wmapOf
      let model := outOfAny ((WL.fromRows rows).map .wl)
      let (obsMain, obsEq) := splitEq observed
      let n := rows.length
      let arcs := rows.zipIdx.flatMap (fun p => p.1.map (fun e => (p.2, e.1, e.2)))
      let selfLoop := arcs.any (fun a => a.1 == a.2.1)
      let oob := arcs.any (fun a => a.2.1 ≥ n)
      let want := if n = 0 || selfLoop || oob then none else some (n, arcs)
      let mixed := rows.zipIdx.any (fun p => p.1.any (fun e => e.1 ≥ n) && p.1.any (fun e => e.1 < n && e.1 != p.2))
      let tags := extra ++ [repr, sizeTag n, if n = 0 then "empty" else if selfLoop then "self-loop" else if oob then (if mixed then "head-out-of-range-mixed" else "head-out-of-range") else "valid"]
      let pf := match expectObs want true obsMain with | some why => some why | none => if want.isSome then eqOracle obsEq 1 else none
      pure (classify observed model pf (nt := want.isSome && !arcs.isEmpty) tags)
    else none

def hFromRows : Handler := fun _ args observed =>
  match args with
  | [repr, rows] => do runFromRows (← V.atom? repr) rows [] observed
  | _ => none

/-- the entries a lazy iterator over `Vec<Option<_>>` really yields -/
def effective (shape : String) (entries : List V) : Option (List V) :=
  match shape with
  | "mapwhile" | "takewhile" => some (entries.takeWhile (fun e => !(e == V.a "none")))
  | "flatten" | "filter" => some (entries.filter (fun e => !(e == V.a "none")))
  | _ => none

def hFromRowsLazy : Handler := fun _ args observed =>
  match args with
  | [repr, shape, .l entries] => do
    let shape ← V.atom? shape
    let eff ← effective shape entries
    let window := if eff.length < entries.length then "hint>len" else "hint=len"
    runFromRows (← V.atom? repr) (.l eff) ["lazy", shape, window] observed
  | _ => none

def runFromArcs (repr : String) (arcs : V) (extra : List String) (observed : List V) : Option Verdict := do
    let arcs ← V.listOf? (V.pair? V.nat? V.nat?) arcs
    let model ← match repr with
      | "mx" => some (outOfAny ((MX.fromArcs arcs).map .mx))
      | "el" => some (outOfAny ((EL.fromArcs arcs).map .el))
      | _ => none
    let (obsMain, obsEq) := splitEq observed
    let selfLoop := arcs.any (fun a => a.1 == a.2)
    let n := maxId arcs + 1
    let canon := H14.canonArcs arcs
    let dup := canon.length < arcs.length
    let propFail :=
      if selfLoop then expectObs none false obsMain
      else if arcs.isEmpty then (if repr == "mx" then expectObs none false obsMain else if obsMain == [V.a "panic"] then none else eqOracle obsEq 1)
      else match expectObs (some (n, canon.map (fun a => (a.1, a.2, (1 : Int))))) false obsMain with
        | some why => some why
        | none => eqOracle obsEq 1
    let tags := extra ++ [repr, sizeTag n, (if n % 64 = 0 then "order%64=0" else if n % 8 = 0 then "order%8=0" else "order%8!=0"), if selfLoop then "self-loop" else if arcs.isEmpty then "empty" else if dup then "valid-dups" else "valid"]
    pure (classify observed model propFail (nt := !selfLoop && !arcs.isEmpty) tags)

def hFromArcs : Handler := fun _ args observed =>
  match args with
  | [repr, arcs] => do runFromArcs (← V.atom? repr) arcs [] observed
  | _ => none

def hFromArcsLazy : Handler := fun _ args observed =>
  match args with
  | [repr, shape, .l entries] => do
    let shape ← V.atom? shape
    let eff ← effective shape entries
    runFromArcs (← V.atom? repr) (.l eff) ["lazy", shape] observed
  | _ => none

/-- Stress only: a matrix of order ≥ 65 536 (cell indices ≥ 2^32) cannot be replayed by the list
model of the blocks.  By `C16.converts_from_mx` (and C01 for the `add_arc` build) both the source's
and the target's arcs are the canonical list of the given arcs; that is used as model output AND
as oracle. -/
def hMxBig : Handler := fun _ args observed =>
  match args with
  | [order, arcs, _tgt] => do
    let n ← V.nat? order
    let arcs ← V.listOf? (V.pair? V.nat? V.nat?) arcs
    if arcs.any (fun a => a.1 == a.2 || a.1 ≥ n || a.2 ≥ n) then none
    let canonL := H14.canonArcs arcs
    let canon := V.ofPairs canonL
    let want := [V.l [V.ofNat n, canon, canon]]
    let propFail : Option String :=
      match observed with
      | [V.a "panic"] => some "valid matrix / conversion panicked"
      | [V.l [o, src, out]] =>
        match V.nat? o, V.listOf? (V.pair? V.nat? V.nat?) src, V.listOf? (V.pair? V.nat? V.nat?) out with
        | some o, some src, some out =>
          if o ≠ n then some "order differs"
          else if H14.canonArcs src != canonL then some s!"arcs() of the matrix differ from the arcs that were added: expected {canon}"
          else if H14.canonArcs out != canonL then some s!"arcs of the converted digraph differ from the source's: expected {canon}"
          else none
        | _, _, _ => some "unreadable observation"
      | _ => some "unreadable observation"
    pure (classify observed want propFail (nt := true) ["mx-big", if arcs.any (fun a => a.1 * n + a.2 ≥ 2^32) then "cell>=2^32" else "cell<2^32"])
  | _ => none

def handlers : List (String × Handler) :=
  [("conv_chain", hChain), ("conv_from_rows", hFromRows), ("conv_from_arcs", hFromArcs),
   ("conv_from_rows_lazy", hFromRowsLazy), ("conv_from_arcs_lazy", hFromArcsLazy), ("conv_mx_big", hMxBig)]

end GraafVerif.Driver.H16
