import GraafVerif.Driver.Common
/-! Driver handlers for property C16 (ops the harness module `ops/c16.rs` emits). -/
namespace GraafVerif.Driver.H16
open GraafVerif GraafVerif.Driver

def handlers : List (String × Handler) := []

end GraafVerif.Driver.H16
