import GraafVerif.Model.AlgoGen5
/-!
# Runtime of the translator, sixth part (`Model/AlgoGen6.lean`)

Set 6 needs no new combinator.  The only addition is the receiver type of a trait DEFAULT method
(`ContiguousOrder::contiguous_order`, `src/op/contiguous_order.rs`): `self` is any implementor of the supertrait
`Order`, and the default body can only call `self.order()` — so the receiver is abstracted to the value of that call.
-/
namespace GraafVerif.AlgoGen

/-- any `Self: Order`, abstracted to the value of `self.order()` -/
structure HasOrder where
  order : Nat
  deriving DecidableEq, Repr

end GraafVerif.AlgoGen
