import GraafVerif.Model.AlgoGenRt
import GraafVerif.Model.Tarjan
import GraafVerif.Model.Johnson
import GraafVerif.Model.Repr
/-!
# Runtime of the translator, second part (`Model/AlgoGen2.lean`): maps, sets, digraphs by vertex list

* `BTreeMap<usize, usize>` is `NatMap` = the association list of `Model/Tarjan.lean` (`mget` /
  `mset`, replace in place); only `insert`, `get`, `contains_key`, `m[&k]` are in the subset, so
  any representation with `get (insert m k v) x = if x = k then some v else get m x` would do.
* `BTreeSet<usize>` is a `List Nat` in one of three representations, fixed per struct field by the
  typed field model of the translator (a local set inherits the one of the field it ends in):
  `L` a list used as a set (`insert` = cons), `N` the same without duplicates (`insert` only when
  absent), `A` the strictly ascending list (`insert` = `insertAsc`: the iteration order of the
  BTreeSet, needed when the set is iterated, popped from the front or returned).  For `L`/`N`
  only `insert` / `remove` / `contains` are in the subset (anything else is exit 2), so the
  representation is unobservable; `remove` is `filter (· != x)` in all three.
* `Johnson.AM` (`Model/JohnsonMap.lean`: key list + row function) is the digraph of `Johnson75`:
  `order()` = `a.order`, `vertices()` = `a.verts`, `out_neighbors(u)` = `a.out u` behind the
  `assert!` that `u` is a key, `filter_vertices(p)` = the hand-written closed form `AM.filter`;
  `Tarjan::new(&x).components()` inside `Johnson75` is the hand-written `Johnson.tarjan x`;
  `.min_by_key(|scc| scc.iter().min())` is the hand-written `Johnson.minByKey`.
* The five representations are the structures of `Model/Repr.lean`; `order()`, `arcs()`,
  `Self::empty(n)`, `add_arc(u, v)`, `add_arc_weighted(u, v, w)` are its functions (`optP`: their
  `none` is the panic of the Rust method); `BTreeSet<(usize, usize)>` is the ascending pair list
  with `Repr.pinsert`; `BTreeMap<usize, X>` as a struct field is the key-ascending pair list with
  `Repr.mget` for `contains_key`.
* `VGraph` (`OutNeighbors + Vertices` as `Tarjan` sees a digraph): `vertices()` = `g.verts`,
  `out_neighbors(u)` = `g.out u` behind the `assert!` that `u` is a vertex.
-/
namespace GraafVerif.AlgoGen

abbrev VGraph := GraafVerif.Tarjan.VGraph
abbrev NatMap := GraafVerif.Tarjan.Map

variable {β ρ : Type}

abbrev mapGet (m : NatMap) (k : Nat) : Option Nat := GraafVerif.Tarjan.mget m k
abbrev mapSet (m : NatMap) (k v : Nat) : NatMap := GraafVerif.Tarjan.mset m k v
/-- `m[&k]`: panics when the key is missing. -/
def mapIdx (m : NatMap) (k : Nat) : Blk β ρ Nat :=
  match mapGet m k with
  | some v => .ok v
  | none => panic

abbrev setInsertL (x : Nat) (s : List Nat) : List Nat := x :: s
def setInsertN (x : Nat) (s : List Nat) : List Nat := if s.contains x then s else x :: s
abbrev setInsertA (x : Nat) (s : List Nat) : List Nat := GraafVerif.insertAsc x s
def setRemove (x : Nat) (s : List Nat) : List Nat := s.filter (· != x)

/-- `o.unwrap()` -/
def unwrapO {α : Type} : Option α → Blk β ρ α
  | some a => .ok a
  | none => panic

/-- a function of the hand-written representation models (`Model/Repr.lean`: `empty`, `addArc`,
`addArcWeighted`) inside a block: `none` = the Rust code panics -/
def optP {α : Type} : Option α → Blk β ρ α
  | some a => .ok a
  | none => panic

/-- `.min_by_key(|x| x.iter().min())` on a list of ascending sets -/
abbrev minByKeyMin (l : List (List Nat)) : Option (List Nat) := GraafVerif.Johnson.minByKey l

end GraafVerif.AlgoGen
