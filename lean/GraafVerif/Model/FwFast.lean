import GraafVerif.Model.Fw
/-!
# Array twin of `Model/Fw.lean` for the compiled driver

Same functions, same structure, `Array` instead of `List` (O(1) cell access, so that orders around
64/128 are affordable in the correspondence run).  `Proof/FwFast.lean` proves
`(distancesA g).toList = distances g` and `(distances2A g).toList = distances2 g`: the driver
runs these, the theorems are about the `List` model.
-/
namespace GraafVerif.Fw
open GraafVerif

abbrev MatA := Array (Option Int)

def getA (n : Nat) (m : MatA) (u v : Nat) : Option Int := (m[u * n + v]?).getD none
def putA (n : Nat) (m : MatA) (u v : Nat) (x : Option Int) : MatA := m.setIfInBounds (u * n + v) x

def setArcsA (n : Nat) (m : MatA) (arcs : List (Nat × Nat × Int)) : MatA :=
  arcs.foldl (fun m a => putA n m a.1 a.2.1 (some a.2.2)) m

def zeroDiagA (n : Nat) (m : MatA) : MatA :=
  (List.range n).foldl (fun m i => putA n m i i (some 0)) m

def cellA (n i j : Nat) (a : Int) (m : MatA) (k : Nat) : MatA :=
  match getA n m i k with
  | none => m
  | some b =>
    let s := a + b
    match getA n m j k with
    | none => putA n m j k (some s)
    | some c => if s < c then putA n m j k (some s) else m

def rowJA (n i : Nat) (m : MatA) (j : Nat) : MatA :=
  match getA n m j i with
  | none => m
  | some a => (List.range n).foldl (cellA n i j a) m

def iterIA (n : Nat) (m : MatA) (i : Nat) : MatA := (List.range n).foldl (rowJA n i) m
def loopToA (n : Nat) (m : MatA) (K : Nat) : MatA := (List.range K).foldl (iterIA n) m

/-- One call of `distances()` on a `FloydWarshall` whose matrix currently is `m`. -/
def callA (g : WGraph) (m : MatA) : MatA :=
  loopToA g.n (zeroDiagA g.n (setArcsA g.n m (arcsWeighted g))) g.n

def distancesA (g : WGraph) : MatA := callA g (Array.replicate (g.n * g.n) none)
def distances2A (g : WGraph) : MatA := callA g (distancesA g)

end GraafVerif.Fw
