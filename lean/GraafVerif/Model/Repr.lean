import GraafVerif.Spec.Graph
/-!
# Models of the five digraph representations (fields, constructors, mutation, core reads)

| Rust (src/repr/…)                                                   | model                                   |
|---------------------------------------------------------------------|-----------------------------------------|
| `AdjacencyList { arcs: Vec<BTreeSet<usize>> }`                      | `AdjList { rows : List (List Nat) }`    |
| `AdjacencyMap { arcs: BTreeMap<usize, BTreeSet<usize>> }`           | `AdjMap { rows : List (Nat × List Nat) }` |
| `AdjacencyMatrix { blocks: Vec<usize>, order: usize }`              | `AdjMatrix { blocks : List (BitVec 64), order }` |
| `EdgeList { arcs: BTreeSet<(usize, usize)>, order: usize }`         | `EdgeList { arcs : List (Nat × Nat), order }` |
| `AdjacencyListWeighted<W> { arcs: Vec<BTreeMap<usize, W>> }`        | `AdjListW { rows : List (List (Nat × Int)) }` |

`BTreeSet<usize>` = strictly ascending `List Nat` (`sinsert`/`serase`/`List.contains`);
`BTreeMap<usize, X>` = `List (Nat × X)` strictly ascending in the key; `BTreeSet<(usize,usize)>`
= lexicographically strictly ascending list of pairs.  The std containers themselves are
trusted (DESIGN.md §9).  A mutating call returns `Option`: `none` = the Rust code panics (all
asserts precede the mutation, so the digraph is unchanged).  Field order follows the Rust
structs (it matters for the derived `Ord`).
-/
namespace GraafVerif.Repr

/-! ## Ordered containers -/

/-- `BTreeSet<usize>::insert`. -/
def sinsert (x : Nat) : List Nat → List Nat
  | [] => [x]
  | y :: ys => if x < y then x :: y :: ys else if x = y then y :: ys else y :: sinsert x ys

/-- `BTreeSet<usize>::remove` (the set after removal). -/
def serase (x : Nat) : List Nat → List Nat
  | [] => []
  | y :: ys => if x = y then ys else if x < y then y :: ys else y :: serase x ys

/-- Strictly ascending. -/
def SortedS (l : List Nat) : Prop := l.Pairwise (· < ·)

/-- Lexicographic `<` on pairs (the derived `Ord` of `(usize, usize)`). -/
def pairLt (a b : Nat × Nat) : Bool := a.1 < b.1 || (a.1 == b.1 && a.2 < b.2)

/-- `BTreeSet<(usize,usize)>::insert`. -/
def pinsert (x : Nat × Nat) : List (Nat × Nat) → List (Nat × Nat)
  | [] => [x]
  | y :: ys => if pairLt x y then x :: y :: ys else if x = y then y :: ys else y :: pinsert x ys

def perase (x : Nat × Nat) : List (Nat × Nat) → List (Nat × Nat)
  | [] => []
  | y :: ys => if x = y then ys else if pairLt x y then y :: ys else y :: perase x ys

/-- `BTreeMap<usize, X>`: lookup. -/
def mget {X : Type} (k : Nat) : List (Nat × X) → Option X
  | [] => none
  | (k', x) :: rest => if k = k' then some x else if k < k' then none else mget k rest

/-- `map.entry(k).or_insert(dflt)` followed by `f` on the value (insert-or-update). -/
def mupsert {X : Type} (k : Nat) (dflt : X) (f : X → X) : List (Nat × X) → List (Nat × X)
  | [] => [(k, f dflt)]
  | (k', x) :: rest =>
    if k < k' then (k, f dflt) :: (k', x) :: rest
    else if k = k' then (k', f x) :: rest
    else (k', x) :: mupsert k dflt f rest

def SortedK {X : Type} (l : List (Nat × X)) : Prop := l.Pairwise (fun a b => a.1 < b.1)

/-! ## AdjacencyList -/

structure AdjList where
  rows : List (List Nat)
  deriving DecidableEq, Repr

namespace AdjList
def order (d : AdjList) : Nat := d.rows.length
/-- `Empty::empty` (`none` = panic on order 0). -/
def empty (n : Nat) : Option AdjList := if n = 0 then none else some ⟨List.replicate n []⟩
/-- `AddArc::add_arc`: asserts `u ≠ v`, `u < order`, `v < order` in that order. -/
def addArc (d : AdjList) (u v : Nat) : Option AdjList :=
  if u = v then none else if ¬ u < d.order then none else if ¬ v < d.order then none
  else some ⟨d.rows.set u (sinsert v (d.rows[u]?.getD []))⟩
/-- `RemoveArc::remove_arc`: total; returns the new digraph and whether the arc was present. -/
def removeArc (d : AdjList) (u v : Nat) : AdjList × Bool :=
  match d.rows[u]? with
  | none => (d, false)
  | some row => (⟨d.rows.set u (serase v row)⟩, row.contains v)
def hasArc (d : AdjList) (u v : Nat) : Bool :=
  match d.rows[u]? with
  | none => false
  | some row => row.contains v
def vertices (d : AdjList) : List Nat := List.range d.order
/-- `Arcs::arcs` in iteration order. -/
def arcs (d : AdjList) : List (Nat × Nat) :=
  (d.rows.zipIdx).flatMap (fun (row, u) => row.map (fun v => (u, v)))
def size (d : AdjList) : Nat := (d.rows.map List.length).sum
/-- `OutNeighbors::out_neighbors` (`none` = panic for `u ≥ order`). -/
def outNeighbors (d : AdjList) (u : Nat) : Option (List Nat) := d.rows[u]?
def WF (d : AdjList) : Prop :=
  0 < d.order ∧ ∀ u row, d.rows[u]? = some row → SortedS row ∧ ∀ v ∈ row, v < d.order ∧ v ≠ u
def toGraph (d : AdjList) : Graph := ⟨d.order, fun u => d.rows[u]?.getD []⟩
end AdjList

/-! ## AdjacencyMap -/

structure AdjMap where
  rows : List (Nat × List Nat)
  deriving DecidableEq, Repr

namespace AdjMap
def order (d : AdjMap) : Nat := d.rows.length
/-- `Empty::empty`: `From<Vec<BTreeSet>>` of `order` empty sets → keys `0..order`. -/
def empty (n : Nat) : Option AdjMap := if n = 0 then none else some ⟨(List.range n).map (fun u => (u, []))⟩
/-- `add_arc`: only `u ≠ v` is asserted; `entry(u).or_default().insert(v)`, `entry(v).or_default()`. -/
def addArc (d : AdjMap) (u v : Nat) : Option AdjMap :=
  if u = v then none
  else some ⟨mupsert v [] id (mupsert u [] (sinsert v) d.rows)⟩
def removeArc (d : AdjMap) (u v : Nat) : AdjMap × Bool :=
  match mget u d.rows with
  | none => (d, false)
  | some row => (⟨mupsert u [] (serase v) d.rows⟩, row.contains v)
def hasArc (d : AdjMap) (u v : Nat) : Bool :=
  match mget u d.rows with
  | none => false
  | some row => row.contains v
def vertices (d : AdjMap) : List Nat := d.rows.map (·.1)
def arcs (d : AdjMap) : List (Nat × Nat) := d.rows.flatMap (fun (u, row) => row.map (fun v => (u, v)))
def size (d : AdjMap) : Nat := (d.rows.map (fun r => r.2.length)).sum
def WF (d : AdjMap) : Prop :=
  SortedK d.rows ∧ ∀ u row, (u, row) ∈ d.rows → SortedS row ∧ ∀ v ∈ row, v ≠ u ∧ (mget v d.rows).isSome
end AdjMap

/-! ## AdjacencyMatrix: `order × order` bit matrix in 64-bit blocks, row major -/

structure AdjMatrix where
  blocks : List (BitVec 64)
  order : Nat
  deriving DecidableEq, Repr

namespace AdjMatrix
/-- `mask(i) = 1 << (i & 63)`. -/
def mask (i : Nat) : BitVec 64 := 1#64 <<< (i % 64)
/-- `index(u, v) = u * order + v`. -/
def index (d : AdjMatrix) (u v : Nat) : Nat := u * d.order + v
/-- `Empty::empty` (after the `fix:` the product is overflow-checked: `none` = panic). -/
def empty (n : Nat) : Option AdjMatrix :=
  if n = 0 then none else if n * n ≥ 2^64 then none
  else some ⟨List.replicate ((n * n + 63) / 64) 0#64, n⟩
def setBlock (d : AdjMatrix) (i : Nat) (f : BitVec 64 → BitVec 64) : AdjMatrix :=
  ⟨d.blocks.set (i / 64) (f (d.blocks[i / 64]?.getD 0#64)), d.order⟩
def addArc (d : AdjMatrix) (u v : Nat) : Option AdjMatrix :=
  if u = v then none else if ¬ u < d.order then none else if ¬ v < d.order then none
  else some (d.setBlock (d.index u v) (· ||| mask (d.index u v)))
def toggle (d : AdjMatrix) (u v : Nat) : Option AdjMatrix :=
  if u = v then none else if ¬ u < d.order then none else if ¬ v < d.order then none
  else some (d.setBlock (d.index u v) (· ^^^ mask (d.index u v)))
def hasArc (d : AdjMatrix) (u v : Nat) : Bool :=
  if u ≥ d.order || v ≥ d.order then false
  else (d.blocks[d.index u v / 64]?.getD 0#64) &&& mask (d.index u v) != 0#64
def removeArc (d : AdjMatrix) (u v : Nat) : AdjMatrix × Bool :=
  if u ≥ d.order || v ≥ d.order then (d, false)
  else (d.setBlock (d.index u v) (· &&& ~~~ mask (d.index u v)), d.hasArc u v)
def vertices (d : AdjMatrix) : List Nat := List.range d.order
/-- Bit `c` of the flat cell space. -/
def cell (d : AdjMatrix) (c : Nat) : Bool := (d.blocks[c / 64]?.getD 0#64).getLsbD (c % 64)
/-- `ArcsIterator`: set cells in ascending order, kept when `< order²`, as `(cell / order, cell % order)`.
(The `trailing_zeros` / `bits &= bits - 1` inner loop is modelled as this filter, DESIGN.md §6 C01.) -/
def arcs (d : AdjMatrix) : List (Nat × Nat) :=
  ((List.range (64 * d.blocks.length)).filter (fun c => d.cell c && c < d.order * d.order)).map
    (fun c => (c / d.order, c % d.order))
/-- `size` = sum of `count_ones` over the blocks = number of set cells. -/
def size (d : AdjMatrix) : Nat := ((List.range (64 * d.blocks.length)).filter d.cell).length
def WF (d : AdjMatrix) : Prop :=
  0 < d.order ∧ d.blocks.length = (d.order * d.order + 63) / 64 ∧
  (∀ c, d.order * d.order ≤ c → d.cell c = false) ∧ ∀ u, u < d.order → d.cell (d.index u u) = false
end AdjMatrix

/-! ## EdgeList -/

structure EdgeList where
  arcs : List (Nat × Nat)
  order : Nat
  deriving DecidableEq, Repr

namespace EdgeList
def empty (n : Nat) : Option EdgeList := if n = 0 then none else some ⟨[], n⟩
def addArc (d : EdgeList) (u v : Nat) : Option EdgeList :=
  if u = v then none else if ¬ u < d.order then none else if ¬ v < d.order then none
  else some ⟨pinsert (u, v) d.arcs, d.order⟩
def removeArc (d : EdgeList) (u v : Nat) : EdgeList × Bool :=
  (⟨perase (u, v) d.arcs, d.order⟩, d.arcs.contains (u, v))
def hasArc (d : EdgeList) (u v : Nat) : Bool := d.arcs.contains (u, v)
def vertices (d : EdgeList) : List Nat := List.range d.order
def size (d : EdgeList) : Nat := d.arcs.length
def WF (d : EdgeList) : Prop :=
  0 < d.order ∧ d.arcs.Pairwise (fun a b => pairLt a b = true) ∧
  ∀ a ∈ d.arcs, a.1 < d.order ∧ a.2 < d.order ∧ a.1 ≠ a.2
end EdgeList

/-! ## AdjacencyListWeighted<W> (weights as `Int`; `usize` weights embed) -/

structure AdjListW where
  rows : List (List (Nat × Int))
  deriving DecidableEq, Repr

namespace AdjListW
def order (d : AdjListW) : Nat := d.rows.length
def empty (n : Nat) : Option AdjListW := if n = 0 then none else some ⟨List.replicate n []⟩
/-- `BTreeMap::insert(v, w)`: replaces the weight of an existing key. -/
def addArcWeighted (d : AdjListW) (u v : Nat) (w : Int) : Option AdjListW :=
  if u = v then none else if ¬ u < d.order then none else if ¬ v < d.order then none
  else some ⟨d.rows.set u (mupsert v w (fun _ => w) (d.rows[u]?.getD []))⟩
def merase {X : Type} (k : Nat) : List (Nat × X) → List (Nat × X)
  | [] => []
  | (k', x) :: rest => if k = k' then rest else if k < k' then (k', x) :: rest else (k', x) :: merase k rest
def removeArc (d : AdjListW) (u v : Nat) : AdjListW × Bool :=
  match d.rows[u]? with
  | none => (d, false)
  | some row => (⟨d.rows.set u (merase v row)⟩, (mget v row).isSome)
def hasArc (d : AdjListW) (u v : Nat) : Bool :=
  match d.rows[u]? with
  | none => false
  | some row => (mget v row).isSome
def arcWeight (d : AdjListW) (u v : Nat) : Option Int :=
  match d.rows[u]? with
  | none => none
  | some row => mget v row
def vertices (d : AdjListW) : List Nat := List.range d.order
def arcsWeighted (d : AdjListW) : List (Nat × Nat × Int) :=
  (d.rows.zipIdx).flatMap (fun (row, u) => row.map (fun (v, w) => (u, v, w)))
def arcs (d : AdjListW) : List (Nat × Nat) := d.arcsWeighted.map (fun a => (a.1, a.2.1))
def size (d : AdjListW) : Nat := (d.rows.map List.length).sum
def WF (d : AdjListW) : Prop :=
  0 < d.order ∧ ∀ u row, d.rows[u]? = some row → SortedK row ∧ ∀ p ∈ row, p.1 < d.order ∧ p.1 ≠ u
def toWGraph (d : AdjListW) : WGraph := ⟨d.order, fun u => d.rows[u]?.getD []⟩
end AdjListW

end GraafVerif.Repr
