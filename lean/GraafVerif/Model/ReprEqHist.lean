import GraafVerif.Model.Repr
import GraafVerif.Spec.Repr
/-!
# Mutation histories and derived comparison on the five representation models (C01, C20)

* `X.step` wraps the mutating calls of `Model/Repr.lean` into one transition function
  `state → call → state × Out` (`Out.panic` = the Rust call panics; the state is the one
  *before* the call, which is what `catch_unwind` + re-observation sees).
* `X.abs` is the abstraction to the mathematical digraph `(V, A, w)` of `Spec/Repr.lean`, read
  off through the model's own membership queries (`hasArc` / `arcWeight` / key lookup).
* `X.cmp` is the derived `Ord` (lexicographic over the fields in declaration order; `Vec`,
  `BTreeSet`, `BTreeMap` compare as their iteration sequences), `==` is structural equality
  (`DecidableEq` on the model structures), `clone` is the identity on values.
-/
namespace GraafVerif.Repr
open GraafVerif.ReprSpec

/-! ## step -/

def outOfOpt {σ : Type} (old : σ) : Option σ → σ × Out
  | none => (old, .panic)
  | some d => (d, .unit)

def outOfRem {σ : Type} (r : σ × Bool) : σ × Out := (r.1, .bool r.2)

def AdjList.step (d : AdjList) : Op Unit → AdjList × Out
  | .add u v _ => outOfOpt d (d.addArc u v)
  | .rem u v => outOfRem (d.removeArc u v)

def AdjMap.step (d : AdjMap) : Op Unit → AdjMap × Out
  | .add u v _ => outOfOpt d (d.addArc u v)
  | .rem u v => outOfRem (d.removeArc u v)

def EdgeList.step (d : EdgeList) : Op Unit → EdgeList × Out
  | .add u v _ => outOfOpt d (d.addArc u v)
  | .rem u v => outOfRem (d.removeArc u v)

def AdjListW.step (d : AdjListW) : Op Int → AdjListW × Out
  | .add u v w => outOfOpt d (d.addArcWeighted u v w)
  | .rem u v => outOfRem (d.removeArc u v)

def AdjMatrix.step (d : AdjMatrix) : MxOp → AdjMatrix × Out
  | .add u v => outOfOpt d (d.addArc u v)
  | .rem u v => outOfRem (d.removeArc u v)
  | .tog u v => outOfOpt d (d.toggle u v)

/-! ## abs -/

def unitOf (b : Bool) : Option Unit := if b then some () else none

def AdjList.abs (d : AdjList) : SpecState Unit :=
  ⟨fun x => decide (x < d.order), fun u v => unitOf (d.hasArc u v)⟩

def AdjMap.abs (d : AdjMap) : SpecState Unit :=
  ⟨fun x => (mget x d.rows).isSome, fun u v => unitOf (d.hasArc u v)⟩

def AdjMatrix.abs (d : AdjMatrix) : SpecState Unit :=
  ⟨fun x => decide (x < d.order), fun u v => unitOf (d.hasArc u v)⟩

def EdgeList.abs (d : EdgeList) : SpecState Unit :=
  ⟨fun x => decide (x < d.order), fun u v => unitOf (d.hasArc u v)⟩

def AdjListW.abs (d : AdjListW) : SpecState Int :=
  ⟨fun x => decide (x < d.order), fun u v => d.arcWeight u v⟩

/-- `EdgeList::arcs()` (the field, in set order). -/
def EdgeList.arcsList (d : EdgeList) : List (Nat × Nat) := d.arcs

/-! ## derived `Ord` -/

/-- `Iterator::cmp`: lexicographic, a proper prefix is smaller. -/
def cmpList {α : Type} (c : α → α → Ordering) : List α → List α → Ordering
  | [], [] => .eq
  | [], _ :: _ => .lt
  | _ :: _, [] => .gt
  | a :: as, b :: bs =>
    match c a b with
    | .eq => cmpList c as bs
    | o => o

def cmpPair {α β : Type} (ca : α → α → Ordering) (cb : β → β → Ordering) (x y : α × β) : Ordering :=
  match ca x.1 y.1 with
  | .eq => cb x.2 y.2
  | o => o

def cmpNat (a b : Nat) : Ordering := compare a b
def cmpInt (a b : Int) : Ordering := compare a b

def AdjList.cmp (a b : AdjList) : Ordering := cmpList (cmpList cmpNat) a.rows b.rows
def AdjMap.cmp (a b : AdjMap) : Ordering := cmpList (cmpPair cmpNat (cmpList cmpNat)) a.rows b.rows
def AdjMatrix.cmp (a b : AdjMatrix) : Ordering :=
  match cmpList (fun x y => cmpNat x.toNat y.toNat) a.blocks b.blocks with
  | .eq => cmpNat a.order b.order
  | o => o
def EdgeList.cmp (a b : EdgeList) : Ordering :=
  match cmpList (cmpPair cmpNat cmpNat) a.arcs b.arcs with
  | .eq => cmpNat a.order b.order
  | o => o
def AdjListW.cmp (a b : AdjListW) : Ordering := cmpList (cmpList (cmpPair cmpNat cmpInt)) a.rows b.rows

end GraafVerif.Repr
