import GraafVerif.Model.Chk
import GraafVerif.Model.ChkRepr
import GraafVerif.Model.ChkMatrix
/-!
# `Chk` models of `DistanceMatrix::new`, `BellmanFordMoore`, `FloydWarshall`, `Xoshiro256StarStar::next`
(src/algo/{distance_matrix,bellman_ford_moore,floyd_warshall}.rs, src/gen/prng/xoshiro256_star_star.rs) — C13, P1

Weighted arcs are triples `(u, v, w)`; `ArcsWF order arcs`: both endpoints below the order — the
representation invariant of `AdjacencyListWeighted` (`add_arc_weighted` and `From` assert it).
-/
namespace GraafVerif.Chk

/-! ## `DistanceMatrix::new` -/

/-- `Vec::with_capacity(size)`, `set_len(size)`, then `write(dist_ptr.add(i), infinity)` for
`i in 0..size`.  A slot is `none` while uninitialised. -/
def dmNew (order inf : Nat) : Chk (List (Option Nat)) := do
  assert (decide (0 < order))
  if order * order ≥ W64 then throw .panic                       -- `checked_mul(order).expect(…)`
  else do
    let size := order * order
    if size * 8 ≥ 2 ^ 63 then throw .panic                       -- `with_capacity`: capacity overflow
    else do
      let buf : List (Option Nat) := List.replicate size none      -- capacity `size`, length 0
      chkOff "distance_matrix.rs:new:set_len(size)" size buf.length -- `set_len(n)`: `n ≤ capacity`
      (forRange 0 size).foldlM (fun (buf : List (Option Nat)) i =>
        wr "distance_matrix.rs:new:write(dist_ptr.add(i))" buf i (some inf)) buf

/-! ## `BellmanFordMoore` -/

def IMAX : Int := 2 ^ 63 - 1

def ArcsWF (order : Nat) (arcs : List (Nat × Nat × Int)) : Prop := ∀ a ∈ arcs, a.1 < order ∧ a.2.1 < order

/-- `new`: `assert!(s < order)`, `*dist_ptr.add(s) = 0`. -/
def bfmNew (order s : Nat) : Chk (List Int) := do
  assert (decide (s < order))
  wr "bellman_ford_moore.rs:new:*dist_ptr.add(s)" (List.replicate order IMAX) s 0

/-- one relaxation: `*arcs_ptr.add(i)`, `*dist_ptr.add(u)`, `dist_ptr.add(v)` -/
def bfmRelax (arcs : List (Nat × Nat × Int)) (dist : List Int) (i : Nat) : Chk (List Int × Bool) := do
  let a ← rd "bellman_ford_moore.rs:distances:*arcs_ptr.add(i)" arcs i
  let du ← rd "bellman_ford_moore.rs:distances:*dist_ptr.add(u)" dist a.1
  if du != IMAX then do
    let w := du + a.2.2
    let dv ← rd "bellman_ford_moore.rs:distances:dist_ptr.add(v)" dist a.2.1
    if dv > w then do
      let d ← wr "bellman_ford_moore.rs:distances:dist_ptr.add(v)" dist a.2.1 w
      pure (d, true)
    else pure (dist, false)
  else pure (dist, false)

def bfmRelaxIf (arcs : List (Nat × Nat × Int)) (dist : List Int) (i : Nat) : Chk (List Int × Bool) :=
  if i < arcs.length then bfmRelax arcs dist i else pure (dist, false)

/-- the four-fold unrolled `while i < arcs_len` of one round -/
def bfmPass (arcs : List (Nat × Nat × Int)) : Nat → Nat → List Int → Bool → Chk (List Int × Bool)
  | 0, _, dist, upd => pure (dist, upd)
  | fuel + 1, i, dist, upd =>
    if i < arcs.length then do
      let r1 ← bfmRelax arcs dist i
      let r2 ← bfmRelaxIf arcs r1.1 (i + 1)
      let r3 ← bfmRelaxIf arcs r2.1 (i + 2)
      let r4 ← bfmRelaxIf arcs r3.1 (i + 3)
      bfmPass arcs fuel (i + 4) r4.1 (upd || r1.2 || r2.2 || r3.2 || r4.2)
    else pure (dist, upd)

/-- `for _ in 1..order { pass; if !updated { break } }` -/
def bfmRounds (arcs : List (Nat × Nat × Int)) : Nat → List Int → Chk (List Int)
  | 0, dist => pure dist
  | n + 1, dist => do
    let r ← bfmPass arcs (arcs.length + 1) 0 dist false
    if r.2 then bfmRounds arcs n r.1 else pure r.1

/-- the final negative-circuit scan -/
def bfmCheck (arcs : List (Nat × Nat × Int)) (dist : List Int) : Chk Bool :=
  (forRange 0 arcs.length).foldlM (fun (neg : Bool) i => do
    let a ← rd "bellman_ford_moore.rs:distances:*arcs_ptr.add(i) (check)" arcs i
    let du ← rd "bellman_ford_moore.rs:distances:*dist_ptr.add(u) (check)" dist a.1
    let dv ← rd "bellman_ford_moore.rs:distances:*dist_ptr.add(v) (check)" dist a.2.1
    pure (neg || (du != IMAX && dv > du + a.2.2))) false

def bfmDistances (order : Nat) (arcs : List (Nat × Nat × Int)) (dist : List Int) : Chk (Option (List Int)) := do
  let d ← bfmRounds arcs (order - 1) dist
  let neg ← bfmCheck arcs d
  pure (if neg then none else some d)

/-! ## `FloydWarshall::distances` -/

def fwDistances (order : Nat) (arcs : List (Nat × Nat × Int)) (dist : List Int) : Chk (List Int) := do
  let d1 ← arcs.foldlM (fun (d : List Int) a =>
    wr "floyd_warshall.rs:distances:*dist_ptr.add(u * order + v)" d (a.1 * order + a.2.1) a.2.2) dist
  let d2 ← (forRange 0 order).foldlM (fun (d : List Int) i =>
    wr "floyd_warshall.rs:distances:*dist_ptr.add(i * order + i)" d (i * order + i) 0) d1
  (forRange 0 order).foldlM (fun (d : List Int) i =>
    (forRange 0 order).foldlM (fun (d : List Int) j => do
      let a ← rd "floyd_warshall.rs:distances:*dist_ptr.add(j * order + i)" d (j * order + i)
      if a == IMAX then pure d
      else (forRange 0 order).foldlM (fun (d : List Int) k => do
        let b ← rd "floyd_warshall.rs:distances:*dist_ptr.add(i * order + k)" d (i * order + k)
        if b == IMAX then pure d
        else do
          let s := a + b
          let c ← rd "floyd_warshall.rs:distances:*dist_ptr.add(j * order + k)" d (j * order + k)
          if s < c then wr "floyd_warshall.rs:distances:*dist_ptr.add(j * order + k)" d (j * order + k) s
          else pure d) d) d) d2

/-! ## `Xoshiro256StarStar::next`: `state_ptr.add(1)`, `.add(2)`, `.add(3)` on `[u64; 4]` -/

def xoshiroTouch (state : List Nat) : Chk Unit := do
  chkIdx "xoshiro256_star_star.rs:next:*state_ptr" 0 state.length
  chkIdx "xoshiro256_star_star.rs:next:state_ptr.add(1)" 1 state.length
  chkIdx "xoshiro256_star_star.rs:next:state_ptr.add(2)" 2 state.length
  chkIdx "xoshiro256_star_star.rs:next:state_ptr.add(3)" 3 state.length

end GraafVerif.Chk
