import GraafVerif.Model.JohnsonMap
/-!
# Compact model of `Tarjan::components` exactly as Johnson75 uses it

`src/algo/tarjan.rs` (as of /repo commit e601b92): `components` (l.174-185:
`for u in vertices() { if !index.contains_key(u) { connect(u) } }`) and `connect` (l.187-229, recursive; here structural recursion on fuel, adequacy in `Proof/JohnsonTarjan.lean`).
`index` / `low_link` (`BTreeMap`) are association lists (newest binding first: only
`get`/`insert` are used, so iteration order is irrelevant), `on_stack` (`BTreeSet`, only
`insert`/`remove`/`contains`) a list, `stack` a list with the top at the head, each component
(`BTreeSet`) an ascending list, `components` in emission order.
-/
namespace GraafVerif.Johnson

structure TState where
  i : Nat
  stack : List Nat
  onStack : List Nat
  index : List (Nat × Nat)
  low : List (Nat × Nat)
  comps : List (List Nat)

def TState.init : TState := ⟨0, [], [], [], [], []⟩

/-- `self.low_link[&u]` (the key is always present when the code indexes it). -/
def TState.lowOf (st : TState) (u : Nat) : Nat := (st.low.lookup u).getD 0

/-- `while let Some(v) = stack.pop() { on_stack.remove(v); component.insert(v); if u == v { break } }` -/
def popUntil (u : Nat) : List Nat → List Nat → List Nat → List Nat × List Nat × List Nat
  | [], on, comp => (comp, [], on)
  | v :: rest, on, comp =>
    let on := on.filter (· != v)
    let comp := insertAsc v comp
    if u = v then (comp, rest, on) else popUntil u rest on comp

/-- One iteration of `for v in out_neighbors(u)` inside `connect(u)`; `rec` = the recursive call. -/
def connectStep (rec : TState → Nat → TState) (u : Nat) (st : TState) (v : Nat) : TState :=
  match st.index.lookup v with
  | some w =>
    if st.onStack.contains v then { st with low := (u, min (st.lowOf u) w) :: st.low } else st
  | none =>
    let st := rec st v
    { st with low := (u, min (st.lowOf u) (st.lowOf v)) :: st.low }

/-- The tail of `connect(u)`: pop a component when `index[u] == low_link[u]`. -/
def connectFinish (u : Nat) (st : TState) : TState :=
  if st.index.lookup u = st.low.lookup u then
    let r := popUntil u st.stack st.onStack []
    { st with stack := r.2.1, onStack := r.2.2, comps := st.comps ++ [r.1] }
  else st

def connect (a : AM) : Nat → TState → Nat → TState
  | 0, st, _ => st
  | fuel+1, st, u =>
    let st : TState :=
      { st with index := (u, st.i) :: st.index, low := (u, st.i) :: st.low,
                onStack := u :: st.onStack, stack := u :: st.stack, i := st.i + 1 }
    let st := (a.out u).foldl (connectStep (connect a fuel) u) st
    connectFinish u st

/-- `Tarjan::components` with explicit fuel for the recursion depth. -/
def tarjanFuel (a : AM) (fuel : Nat) : TState :=
  a.verts.foldl (fun st u => if (st.index.lookup u).isSome then st else connect a fuel st u) TState.init

/-- Recursion depth of `connect` is at most the number of vertices. -/
def tarjan (a : AM) : List (List Nat) := (tarjanFuel a (a.order + 1)).comps

end GraafVerif.Johnson
