import GraafVerif.Model.Chk
import GraafVerif.Model.ChkPar
/-!
# `Chk` models of the unchecked accesses in `AdjacencyList` / `AdjacencyMap`
(src/repr/adjacency_list/mod.rs, src/repr/adjacency_map/mod.rs) — C13, P1

`AdjacencyList.arcs : Vec<BTreeSet<usize>>` is `Rows = List (List Nat)` (the order inside a row is
irrelevant for safety).  `RowsWF`: every successor is below the number of rows — the
representation invariant every constructor of `AdjacencyList` establishes (`From` asserts it,
`add_arc` asserts it, the generators produce ids below the order); functions that index a
vector by a *successor* (`converse`, `indegree_sequence`, `degree_sequence`) are safe exactly
under it.  Functions that index by a loop variable are safe for arbitrary rows.

Only the statements that touch raw memory are modelled; `BTreeSet` operations are safe code.
Early exits that merely skip accesses (`break` on the atomic flag in `is_semicomplete`) are left
out, so the model performs a superset of the real accesses.
-/
namespace GraafVerif.Chk

abbrev Rows := List (List Nat)

def RowsWF (rows : Rows) : Prop := ∀ row ∈ rows, ∀ v ∈ row, v < rows.length

/-- `for i in a..b` -/
def forRange (a b : Nat) : List Nat := List.range' a (b - a)

def setInsert (v : Nat) (row : List Nat) : List Nat := if row.contains v then row else v :: row

/-- `ptr.add(k)` on a pointer to `len` elements: in bounds or one past the end. -/
def chkOff (site : String) (k len : Nat) : Chk Unit := if k ≤ len then .ok () else .error (.ub site)

/-! ## AdjacencyList -/

/-- `add_arc`: three asserts, then `self.arcs.get_unchecked_mut(u)`. -/
def alAddArc (rows : Rows) (u v : Nat) : Chk Rows := do
  assert (decide (u ≠ v))
  assert (decide (u < rows.length))
  assert (decide (v < rows.length))
  let row ← rd "adjacency_list/mod.rs:add_arc:get_unchecked_mut(u)" rows u
  wr "adjacency_list/mod.rs:add_arc:get_unchecked_mut(u)" rows u (setInsert v row)

/-- `out_neighbors`: assert, then `self.arcs.get_unchecked(u)`. -/
def alOutNeighbors (rows : Rows) (u : Nat) : Chk (List Nat) := do
  assert (decide (u < rows.length))
  rd "adjacency_list/mod.rs:out_neighbors:get_unchecked(u)" rows u

structure AlArcsIt where
  u : Nat
  inner : Option (List Nat)

/-- `ArcsIterator::next` (the `loop` on fuel): `self.arcs.get_unchecked(self.u)` after `if self.u >= len { return None }`. -/
def alArcsNext (rows : Rows) : Nat → AlArcsIt → Chk (Option (Nat × Nat) × AlArcsIt)
  | 0, it => pure (none, it)
  | fuel + 1, it =>
    match it.inner with
    | some (v :: rest) => pure (some (it.u - 1, v), ⟨it.u, some rest⟩)
    | _ =>
      if it.u ≥ rows.length then pure (none, it)
      else do
        let row ← rd "adjacency_list/mod.rs:ArcsIterator::next:get_unchecked(self.u)" rows it.u
        alArcsNext rows fuel ⟨it.u + 1, some row⟩

/-- `InNeighborsIterator::next`: `&*self.ptr.add(idx)` while `self.i < self.len`. -/
def alInNeighborsNext (rows : Rows) (v : Nat) : Nat → Nat → Chk (Option Nat × Nat)
  | 0, i => pure (none, i)
  | fuel + 1, i =>
    if i < rows.length then do
      let set ← rd "adjacency_list/mod.rs:InNeighborsIterator::next:ptr.add(idx)" rows i
      if set.contains v then pure (some i, i + 1) else alInNeighborsNext rows v fuel (i + 1)
    else pure (none, i)

/-- `converse`: `(*conv_ptr.add(v)).insert(u)` for every arc `(u, v)`. -/
def alConverse (rows : Rows) : Chk Rows := do
  assert (decide (0 < rows.length))
  (List.zip (List.range rows.length) rows).foldlM (fun (conv : Rows) (p : Nat × List Nat) =>
    p.2.foldlM (fun (conv : Rows) v => do
      let r ← rd "adjacency_list/mod.rs:converse:conv_ptr.add(v)" conv v
      wr "adjacency_list/mod.rs:converse:conv_ptr.add(v)" conv v (setInsert p.1 r)) conv)
    (List.replicate rows.length [])

/-- one successor counted: `*ptr.add(v) += 1` / `*v.get_unchecked_mut(v) += 1` -/
def bump (site : String) (cnt : List Nat) (v : Nat) : Chk (List Nat) := do
  let c ← rd site cnt v
  wr site cnt v (c + 1)

/-- `indegree_sequence`: `*ptr.add(v) += 1` for every arc. -/
def alIndegreeSequence (rows : Rows) : Chk (List Nat) :=
  rows.foldlM (fun (cnt : List Nat) row => row.foldlM (bump "adjacency_list/mod.rs:indegree_sequence:ptr.add(v)") cnt)
    (List.replicate rows.length 0)

/-- `slice.chunks(k)` (fuel = the slice's length) -/
def chunksOf {α : Type} (k : Nat) : Nat → List α → List (List α)
  | 0, _ => []
  | fuel + 1, l => if l.isEmpty then [] else l.take k :: chunksOf k fuel (l.drop k)

/-- `degree_sequence`: per worker `local_indegrees.get_unchecked_mut(v)`, then
`indegrees.get_unchecked_mut(vertex) += local_count`, then `indegrees.get_unchecked(u) + arcs.get_unchecked(u).len()`. -/
def alDegreeSequence (rows : Rows) (t : Nat) : Chk (List Nat) := do
  let order := rows.length
  let chunk := divCeil order t
  assert (decide (0 < chunk))                                   -- `chunks(0)` panics
  let locals ← (List.zip (chunksOf chunk rows.length rows) (List.replicate t (List.replicate order 0))).mapM
    (fun (p : List (List Nat) × List Nat) =>
      p.1.foldlM (fun (loc : List Nat) row =>
        row.foldlM (bump "adjacency_list/mod.rs:degree_sequence:local_indegrees.get_unchecked_mut(v)") loc) p.2)
  let indeg ← locals.foldlM (fun (ind : List Nat) loc =>
    (List.zip (List.range loc.length) loc).foldlM (fun (ind : List Nat) (q : Nat × Nat) => do
      let x ← rd "adjacency_list/mod.rs:degree_sequence:indegrees.get_unchecked_mut(vertex)" ind q.1
      wr "adjacency_list/mod.rs:degree_sequence:indegrees.get_unchecked_mut(vertex)" ind q.1 (x + q.2)) ind)
    (List.replicate order 0)
  (List.range order).mapM (fun u => do
    let a ← rd "adjacency_list/mod.rs:degree_sequence:indegrees.get_unchecked(u)" indeg u
    let r ← rd "adjacency_list/mod.rs:degree_sequence:arcs.get_unchecked(u)" rows u
    pure (a + r.length))

/-- `has_walk` of `AdjacencyList` and `AdjacencyMap`: the raw-pointer walk over the slice
(`end = ptr.add(len - 1)`, `*ptr`, `*ptr.add(1)`, `ptr = ptr.add(1)`); `has_arc` is safe code. -/
def hasWalkPtr (site : String) (hasArc : Nat → Nat → Bool) (walk : List Nat) : Chk Bool :=
  if walk.length ≤ 1 then pure false
  else do
    chkOff site (walk.length - 1) walk.length
    let rec go : Nat → Nat → Chk Bool
      | 0, _ => pure true
      | fuel + 1, i =>
        if i < walk.length - 1 then do
          let u ← rd site walk i
          let v ← rd site walk (i + 1)
          if !hasArc u v then pure false
          else do
            chkOff site (i + 1) walk.length
            go fuel (i + 1)
        else pure true
    go walk.length 0

/-- `is_tournament`: `(*ptr.add(u)).contains(&v) == (*ptr.add(v)).contains(&u)` for `u < v < order`. -/
def alIsTournament (rows : Rows) : Chk Bool :=
  let order := rows.length
  (forRange 0 order).foldlM (fun (ok : Bool) u =>
    (forRange (u + 1) order).foldlM (fun (ok : Bool) v => do
      let su ← rd "adjacency_list/mod.rs:is_tournament:ptr.add(u)" rows u
      let sv ← rd "adjacency_list/mod.rs:is_tournament:ptr.add(v)" rows v
      pure (ok && (su.contains v != sv.contains u))) ok) true

/-- `is_semicomplete`: workers over `(0..order).step_by(chunk)`; `&*ptr.add(u)`, `&*ptr.add(v)`. -/
def alIsSemicomplete (rows : Rows) (t : Nat) : Chk Bool := do
  let order := rows.length
  let chunk := divCeil order t
  assert (decide (0 < chunk))                                   -- `step_by(0)` panics
  let oks ← (stepRanges order chunk).mapM (fun (r : Nat × Nat) =>
    (forRange r.1 r.2).foldlM (fun (ok : Bool) u =>
      (forRange (u + 1) order).foldlM (fun (ok : Bool) v => do
        let su ← rd "adjacency_list/mod.rs:is_semicomplete:ptr.add(u)" rows u
        let sv ← rd "adjacency_list/mod.rs:is_semicomplete:ptr.add(v)" rows v
        pure (ok && (su.contains v || sv.contains u))) ok) true)
  pure (oks.all id)

/-- `random_tournament` (`AdjacencyList`: `arcs.get_unchecked_mut(u|v)`; `AdjacencyMap`:
`shared_arcs.get_unchecked(u|v)`, rows `start..end` of a worker): `coin u v` is the PRNG's bit. -/
def randomTournamentRows (site : String) (order : Nat) (us : List Nat) (coin : Nat → Nat → Bool) (arcs : Rows) : Chk Rows :=
  us.foldlM (fun (arcs : Rows) u =>
    (forRange (u + 1) order).foldlM (fun (arcs : Rows) v =>
      if coin u v then do
        let r ← rd site arcs u
        wr site arcs u (setInsert v r)
      else do
        let r ← rd site arcs v
        wr site arcs v (setInsert u r)) arcs) arcs

def alRandomTournament (order : Nat) (coin : Nat → Nat → Bool) : Chk Rows :=
  randomTournamentRows "adjacency_list/mod.rs:random_tournament:get_unchecked_mut" order (forRange 0 order) coin
    (List.replicate order [])

/-- `AdjacencyMap::random_tournament`: workers over `threadRanges`, then `shared_arcs.get_unchecked(u)` for `u in 0..order`. -/
def amRandomTournament (order t : Nat) (coin : Nat → Nat → Bool) : Chk Rows := do
  let arcs ← randomTournamentRows "adjacency_map/mod.rs:random_tournament:shared_arcs.get_unchecked" order
    (expandRanges (threadRanges order (min order t))) coin (List.replicate order [])
  (List.range order).mapM (fun u => rd "adjacency_map/mod.rs:random_tournament:shared_arcs.get_unchecked(u)" arcs u)

/-- `merge_two_sorted` (identical in both files): the three `while` loops, `get_unchecked(i)` / `(j)`. -/
def mergeMain (site : String) (lhs rhs : List Nat) : Nat → Nat → Nat → List Nat → Chk (List Nat × Nat × Nat)
  | 0, i, j, out => pure (out, i, j)
  | fuel + 1, i, j, out =>
    if i < lhs.length && j < rhs.length then do
      let a ← rd site lhs i
      let b ← rd site rhs j
      if a < b then mergeMain site lhs rhs fuel (i + 1) j (out ++ [a])
      else if b < a then mergeMain site lhs rhs fuel i (j + 1) (out ++ [b])
      else mergeMain site lhs rhs fuel (i + 1) (j + 1) (out ++ [a])
    else pure (out, i, j)

def mergeTail (site : String) (l : List Nat) : Nat → Nat → List Nat → Chk (List Nat)
  | 0, _, out => pure out
  | fuel + 1, i, out =>
    if i < l.length then do
      let a ← rd site l i
      mergeTail site l fuel (i + 1) (out ++ [a])
    else pure out

def mergeTwoSorted (site : String) (lhs rhs : List Nat) : Chk (List Nat) := do
  let (out, i, j) ← mergeMain site lhs rhs (lhs.length + rhs.length + 1) 0 0 []
  let out ← mergeTail site lhs (lhs.length + 1) i out
  mergeTail site rhs (rhs.length + 1) j out

/-- `AdjacencyList::union`: every worker `u`: `(*self_ptr.add(u))` if `u < self.order()`,
`(*other_ptr.add(u))` if `u < other.order()`, then `write(arcs_ptr.add(u), merged)`.
The fold runs over the indices the workers touch, in worker order. -/
def alUnion (a b : Rows) (t : Nat) : Chk Rows := do
  let order := max a.length b.length
  let chunk := divCeil order t
  assert (decide (0 < chunk))                                   -- `step_by(0)` panics
  (expandRanges (stepRanges order chunk)).foldlM (fun (arcs : Rows) u => do
    let sa ← (if u < a.length then rd "adjacency_list/mod.rs:union:self_ptr.add(u)" a u else pure [])
    let sb ← (if u < b.length then rd "adjacency_list/mod.rs:union:other_ptr.add(u)" b u else pure [])
    let merged ← mergeTwoSorted "adjacency_list/mod.rs:merge_two_sorted:get_unchecked" sa sb
    wr "adjacency_list/mod.rs:union:write(arcs_ptr.add(u))" arcs u merged) (List.replicate order [])

/-- The two-pointer difference loop of `complement`: `*full_ptr.add(i)`, `*out_ptr.add(j)`. -/
def complementRow (full out : List Nat) (u : Nat) : Nat → Nat → Nat → List Nat → Chk (List Nat)
  | 0, _, _, diff => pure diff
  | fuel + 1, i, j, diff =>
    if i < full.length && j < out.length then do
      let a ← rd "adjacency_list/mod.rs:complement:full_ptr.add(i)" full i
      if a == u then complementRow full out u fuel (i + 1) j diff
      else do
        let b ← rd "adjacency_list/mod.rs:complement:out_ptr.add(j)" out j
        if a == b then complementRow full out u fuel (i + 1) (j + 1) diff
        else complementRow full out u fuel (i + 1) j (diff ++ [a])
    else if i < full.length then do
      let a ← rd "adjacency_list/mod.rs:complement:full_ptr.add(i) (tail)" full i
      complementRow full out u fuel (i + 1) j (if a != u then diff ++ [a] else diff)
    else pure diff

/-- `complement`: workers over `threadRanges order (order.min(available_parallelism()))`,
`arcs_arc.get_unchecked(u)` for `u in start..end`. -/
def alComplement (rows : Rows) (t : Nat) : Chk Rows :=
  let order := rows.length
  let full := List.range order
  (expandRanges (threadRanges order (min order t))).mapM (fun u => do
    let out ← rd "adjacency_list/mod.rs:complement:arcs_arc.get_unchecked(u)" rows u
    complementRow full out u (full.length + 1) 0 0 [])

/-! ## AdjacencyMap -/

/-- `out_neighbors`: `assert!(contains_key(&u))`, then `self.arcs.get(&u).unwrap_unchecked()`. -/
def amOutNeighbors (m : List (Nat × List Nat)) (u : Nat) : Chk (List Nat) := do
  assert ((m.lookup u).isSome)
  chkSome "adjacency_map/mod.rs:out_neighbors:get(&u).unwrap_unchecked()" (m.lookup u)

/-- The probe of `find_partition`: `j < rhs_len && lhs.get_unchecked(mid).0 > rhs.get_unchecked(j).0` (keys only). -/
def fpProbe (r : Nat) (lhs rhs : List Nat) (mid : Nat) : Chk Bool :=
  if r - mid < rhs.length then do
    let a ← rd "adjacency_map/mod.rs:find_partition:lhs.get_unchecked(mid)" lhs mid
    let b ← rd "adjacency_map/mod.rs:find_partition:rhs.get_unchecked(j)" rhs (r - mid)
    pure (decide (b < a))
  else pure false

/-- `find_partition`: the binary search on fuel. -/
def findPartitionLoop (r : Nat) (lhs rhs : List Nat) : Nat → Nat → Nat → Chk (Nat × Nat)
  | 0, lo, _ => pure (lo, r - lo)
  | fuel + 1, lo, hi =>
    if lo < hi then do
      let mid := (lo + hi) >>> 1
      let gt ← fpProbe r lhs rhs mid
      if gt then findPartitionLoop r lhs rhs fuel lo mid else findPartitionLoop r lhs rhs fuel (mid + 1) hi
    else pure (lo, r - lo)

def findPartition (r : Nat) (lhs rhs : List Nat) : Chk (Nat × Nat) :=
  findPartitionLoop r lhs rhs (lhs.length + 1) (r - rhs.length) (if r < lhs.length then r else lhs.length)

/-- One worker of `AdjacencyMap::union`: which indices of `lhs` / `rhs` it `ptr::read`s.
(`&*lhs_ptr.add(i)` to compare, `read(lhs_ptr.add(i))` to move out.) -/
def unionChunk (lhs rhs : List Nat) (iEnd jEnd : Nat) : Nat → Nat → Nat → List Nat → List Nat → Chk (List Nat × List Nat)
  | 0, _, _, rl, rr => pure (rl, rr)
  | fuel + 1, i, j, rl, rr =>
    if i < iEnd || j < jEnd then
      if i < iEnd && j < jEnd then do
        let a ← rd "adjacency_map/mod.rs:union:lhs_ptr.add(i)" lhs i
        let b ← rd "adjacency_map/mod.rs:union:rhs_ptr.add(j)" rhs j
        if a < b then unionChunk lhs rhs iEnd jEnd fuel (i + 1) j (rl ++ [i]) rr
        else if b < a then unionChunk lhs rhs iEnd jEnd fuel i (j + 1) rl (rr ++ [j])
        else unionChunk lhs rhs iEnd jEnd fuel (i + 1) (j + 1) (rl ++ [i]) (rr ++ [j])
      else if i < iEnd then do
        let _ ← rd "adjacency_map/mod.rs:union:read(lhs_ptr.add(i))" lhs i
        unionChunk lhs rhs iEnd jEnd fuel (i + 1) j (rl ++ [i]) rr
      else do
        let _ ← rd "adjacency_map/mod.rs:union:read(rhs_ptr.add(j))" rhs j
        unionChunk lhs rhs iEnd jEnd fuel i (j + 1) rl (rr ++ [j])
    else pure (rl, rr)

/-- `partitions` and `boundaries` of `AdjacencyMap::union`: `find_partition(k * order / t)` for `k in 0..=t`. -/
def amBoundaries (lhs rhs : List Nat) (t : Nat) : Chk (List (Nat × Nat)) :=
  (List.range (t + 1)).mapM (fun k => findPartition (k * (lhs.length + rhs.length) / t) lhs rhs)

/-- The workers: `boundaries.get_unchecked(k)`, `(k + 1)`, then the merge of the chunk; result =
the indices moved out of `lhs_vec` and of `rhs_vec` (in worker order). -/
def amUnionWorkers (lhs rhs : List Nat) (boundaries : List (Nat × Nat)) (t : Nat) : Chk (List Nat × List Nat) :=
  (List.range t).foldlM (fun (acc : List Nat × List Nat) k => do
    let s ← rd "adjacency_map/mod.rs:union:boundaries.get_unchecked(k)" boundaries k
    let e ← rd "adjacency_map/mod.rs:union:boundaries.get_unchecked(k + 1)" boundaries (k + 1)
    unionChunk lhs rhs e.1 e.2 (lhs.length + rhs.length + 1) s.1 s.2 acc.1 acc.2) ([], [])

/-- `AdjacencyMap::union` up to the `set_len(0)` that frees the two `ManuallyDrop` buffers without
dropping their elements: sound iff every element was `ptr::read` exactly once. -/
def amUnionReads (lhs rhs : List Nat) (t0 : Nat) : Chk (List Nat × List Nat) :=
  let order := lhs.length + rhs.length
  if order == 0 then pure ([], [])
  else do
    let t := min order t0
    assert (decide (0 < t))                                       -- `k * order / t`
    let boundaries ← amBoundaries lhs rhs t
    amUnionWorkers lhs rhs boundaries t

end GraafVerif.Chk
