import GraafVerif.Model.Chk
import GraafVerif.Spec.Graph
import GraafVerif.Model.Dijkstra
/-!
# Runtime of the imperative-Rust → Lean translator (`tools/translate_algo.py`)

Hand-written, small, import-only.  The GENERATED file `Model/AlgoGen.lean` is written against
these combinators; `docs/AlgoGen.md` gives the reading of every Rust construct.

* A function body / loop body is a computation in `Blk β ρ α = Except (Exit β ρ) α`:
  `Exit.err` is the end of the whole call (`Fault.panic`, `Fault.ub site` — the convention of
  `Model/Chk.lean` — or `div`: a `loop` without normal exit used up its fuel),
  `Exit.brk b` leaves the innermost loop with loop state `b`, `Exit.ret r` leaves the function
  with result `r` (Rust `return e`, the `None` case of `e?`).
* A function as a whole is a `Res α = Except Err α` (`fnBody` closes the `ret` exits).
* `for x in list` is `forLoop` (= `List.foldlM` + the `brk` exit closed); `for x in self` over the
  struct's own `next` is `iterLoop`; `while`/`while let` is `whileLoop`; `loop` is `loopLoop`.
  The last three recurse structurally on fuel: a bound on the number of iterations.  When the
  fuel is used up, `whileLoop`/`iterLoop` leave the loop normally (the convention of the
  hand-written models: the fuel-adequacy theorems say that this never happens from the bound
  on); `loopLoop`, which has no normal exit, yields `div`.
* `*p.add(i)` / `get_unchecked(i)` on a pointer obtained from a vector is `rd`/`wr` (`ub site`
  when `i` is not below the length); `v[i]` is `idx` (`panic`); `assert!` is `assert`.
-/
namespace GraafVerif.AlgoGen
open GraafVerif.Chk (Fault)

/-- How a whole call can fail. -/
inductive Err where
  | fault (f : Fault)
  | div
  deriving DecidableEq, Repr

abbrev Res (α : Type) := Except Err α

instance instDecEqRes {α : Type} [DecidableEq α] : DecidableEq (Except Err α) := fun a b =>
  match a, b with
  | .ok x, .ok y => if h : x = y then isTrue (by rw [h]) else isFalse (by intro e; cases e; exact h rfl)
  | .error x, .error y => if h : x = y then isTrue (by rw [h]) else isFalse (by intro e; cases e; exact h rfl)
  | .ok _, .error _ => isFalse (by intro e; cases e)
  | .error _, .ok _ => isFalse (by intro e; cases e)

/-- Early exits of a block. -/
inductive Exit (β ρ : Type) where
  | err (e : Err)
  | brk (b : β)
  | ret (r : ρ)

abbrev Blk (β ρ α : Type) := Except (Exit β ρ) α

variable {α β γ ρ σ ι : Type}

/-- `Chk` computations (`Model/Chk.lean`) inside a block. -/
def liftChk : Chk.Chk α → Blk β ρ α
  | .ok a => .ok a
  | .error f => .error (.err (.fault f))

/-- `assert!(b)`. -/
def assert (b : Bool) : Blk β ρ Unit := liftChk (Chk.assert b)
/-- `panic!(…)`. -/
def panic : Blk β ρ α := .error (.err (.fault .panic))
/-- `*p.add(i)` read, `p` the buffer pointer of the vector `l`. -/
def rd (site : String) (l : List α) (i : Nat) : Blk β ρ α := liftChk (Chk.rd site l i)
/-- `*p.add(i) = v`. -/
def wr (site : String) (l : List α) (i : Nat) (v : α) : Blk β ρ (List α) := liftChk (Chk.wr site l i v)
/-- `l[i]` (checked indexing). -/
def idx (l : List α) (i : Nat) : Blk β ρ α := liftChk (Chk.rdChecked l i)
/-- `break`. -/
def brk (b : β) : Blk β ρ α := .error (.brk b)
/-- `return r`. -/
def ret (r : ρ) : Blk β ρ α := .error (.ret r)
/-- Call of another generated function. -/
def call : Res α → Blk β ρ α
  | .ok a => .ok a
  | .error e => .error (.err e)

/-- The body of a function: `return` exits are closed (there is no enclosing loop: `β = Empty`). -/
def fnBody : Blk Empty ρ ρ → Res ρ
  | .ok r => .ok r
  | .error (.ret r) => .ok r
  | .error (.err e) => .error e

/-- Close the `brk` exit of a loop. -/
def catchBrk : Blk σ ρ σ → Blk β ρ σ
  | .ok s => .ok s
  | .error (.brk s) => .ok s
  | .error (.ret r) => .error (.ret r)
  | .error (.err e) => .error (.err e)

/-- `for x in l { body }` with loop state `σ`. -/
def forLoop (body : σ → α → Blk σ ρ σ) (l : List α) (s : σ) : Blk β ρ σ :=
  catchBrk (l.foldlM body s)

/-- `while c { body }` / `while let p = e { body }`: `step s` is `brk s` when the loop condition
fails in state `s`, else the state after one round. -/
def whileLoop (step : σ → Blk σ ρ σ) : Nat → σ → Blk β ρ σ
  | 0, s => .ok s
  | fuel + 1, s =>
    match step s with
    | .ok s' => whileLoop step fuel s'
    | .error (.brk s') => .ok s'
    | .error (.ret r) => .error (.ret r)
    | .error (.err e) => .error (.err e)

/-- `loop { body }`: left only through `break v` (loop state and value), `return`, `?`. -/
def loopLoop (step : σ → Blk (γ × σ) ρ σ) : Nat → σ → Blk β ρ (γ × σ)
  | 0, _ => .error (.err .div)
  | fuel + 1, s =>
    match step s with
    | .ok s' => loopLoop step fuel s'
    | .error (.brk b) => .ok b
    | .error (.ret r) => .error (.ret r)
    | .error (.err e) => .error (.err e)

/-- `for x in self { body }` (also `self.by_ref()`): `next` is the struct's own `Iterator::next`,
`τ` the struct, `σ` the other loop-carried variables. -/
def iterLoop {τ : Type} (next : τ → Res (Option ι × τ)) (body : σ → ι → Blk σ ρ σ) :
    Nat → τ → σ → Blk β ρ (σ × τ)
  | 0, self, s => .ok (s, self)
  | fuel + 1, self, s =>
    match next self with
    | .error e => .error (.err e)
    | .ok (none, self') => .ok (s, self')
    | .ok (some x, self') =>
      match body s x with
      | .ok s' => iterLoop next body fuel self' s'
      | .error (.brk s') => .ok (s', self')
      | .error (.ret r) => .error (.ret r)
      | .error (.err e) => .error (.err e)

/-- As `iterLoop`, for a body that hands the iterator back through `return`: the body also gets the
iterator state after the `next` that yielded the item. -/
def iterLoopS {τ : Type} (next : τ → Res (Option ι × τ)) (body : τ → σ → ι → Blk σ ρ σ) :
    Nat → τ → σ → Blk β ρ (σ × τ)
  | 0, self, s => .ok (s, self)
  | fuel + 1, self, s =>
    match next self with
    | .error e => .error (.err e)
    | .ok (none, self') => .ok (s, self')
    | .ok (some x, self') =>
      match body self' s x with
      | .ok s' => iterLoopS next body fuel self' s'
      | .error (.brk s') => .ok (s', self')
      | .error (.ret r) => .error (.ret r)
      | .error (.err e) => .error (.err e)

/-! ## std containers -/

/-- `VecDeque::pop_front`. -/
def popFront : List α → Option (α × List α)
  | [] => none
  | a :: l => some (a, l)

/-- `Vec::pop` (the vector is the list in index order: the LAST element is popped). -/
def vecPop (l : List α) : Option (α × List α) :=
  match l.getLast? with
  | none => none
  | some a => some (a, l.dropLast)

/-- `a..b`. -/
def range (a b : Nat) : List Nat := List.range' a (b - a)

/-- `digraph.arcs_weighted()` as the list it yields (rows ascending by tail, a row ascending by head). -/
def arcsWeighted (g : WGraph) : List (Nat × Nat × Int) :=
  (List.range g.n).flatMap (fun u => (g.out u).map (fun vw => (u, vw.1, vw.2)))

/-- `BinaryHeap<(Reverse<usize>, usize)>` / `BinaryHeap<(Reverse<usize>, (Option<usize>, usize))>`:
the list of entries, `pop` = `Dijkstra.popMax` (maximum of the derived lexicographic order). -/
abbrev Entry := GraafVerif.Dijkstra.Entry
abbrev Heap := List Entry
/-- `BinaryHeap::pop`. -/
abbrev heapPop (h : Heap) : Option (Entry × Heap) := GraafVerif.Dijkstra.popMax h

end GraafVerif.AlgoGen
