import GraafVerif.Model.Repr
/-!
# Models of the conversions between representations (C16), as coded

* the macro-generated `impl From<$type> for T` (`impl_from_arcs_empty_order!` /
  `impl_from_arcs_order!`: adjacency_list 714–745, adjacency_map 576–607, adjacency_matrix
  586–617, edge_list 441–472, adjacency_list_weighted 168–204) all have the same body

      let order = digraph.order();  assert!(order > 0);
      let mut h = Self::empty(order);
      for (u, v) in digraph.arcs() { assert_ne!(u, v); assert!(v < order); h.add_arc(u, v); }

  (`add_arc_weighted(u, v, 1)` for the weighted list) — `fromDigraph`, generic in the target's
  `empty` / `add_arc` and in what the source shows through `order()` / `arcs()`;
* `impl<I: IntoIterator<Item = BTreeSet<usize>>> From<I>` for `AdjacencyList` (747–772) and
  `AdjacencyMap` (609–633), `…Item = BTreeMap<usize, W>` for `AdjacencyListWeighted` (206–228):
  collect, then validate every arc — `AL.fromRows`, `AM.fromRows`, `WL.fromRows`;
* `impl<I: IntoIterator<Item = (usize, usize)>> From<I>` for `AdjacencyMatrix` (619–647:
  self-loop assert while collecting, `order = max id + 1`, panics on no arc, `empty` +
  `add_arc`) and `EdgeList` (474–493: same, but no emptiness assert ⇒ order 1) — `MX.fromArcs`,
  `EL.fromArcs`.

`none` = the Rust code panics.
-/
namespace GraafVerif.Conv
open GraafVerif.Repr

/-- One loop iteration of the macro body: two asserts, then `add_arc`. -/
def step {T : Type} (addArc : T → Nat → Nat → Option T) (order : Nat) (h : T) (a : Nat × Nat) : Option T :=
  if a.1 = a.2 then none else if ¬ a.2 < order then none else addArc h a.1 a.2

/-- The macro body, given `digraph.order()` and `digraph.arcs()` (in iteration order). -/
def fromDigraph {T : Type} (empty : Nat → Option T) (addArc : T → Nat → Nat → Option T)
    (order : Nat) (arcs : List (Nat × Nat)) : Option T :=
  if order = 0 then none else do
    let e ← empty order
    arcs.foldlM (step addArc order) e

def toAL := fromDigraph AdjList.empty AdjList.addArc
def toAM := fromDigraph AdjMap.empty AdjMap.addArc
def toMX := fromDigraph AdjMatrix.empty AdjMatrix.addArc
def toEL := fromDigraph EdgeList.empty EdgeList.addArc
def toWL := fromDigraph AdjListW.empty (fun h u v => h.addArcWeighted u v 1)

/-! The twenty `From` impls (12 unweighted pairs + 4 sources × weighted target; `isize` and
`usize` weights share one model, the weight is the literal `1`). -/
def alToAM (d : AdjList) := toAM d.order d.arcs
def alToMX (d : AdjList) := toMX d.order d.arcs
def alToEL (d : AdjList) := toEL d.order d.arcs
def alToWL (d : AdjList) := toWL d.order d.arcs
def amToAL (d : AdjMap) := toAL d.order d.arcs
def amToMX (d : AdjMap) := toMX d.order d.arcs
def amToEL (d : AdjMap) := toEL d.order d.arcs
def amToWL (d : AdjMap) := toWL d.order d.arcs
def mxToAL (d : AdjMatrix) := toAL d.order d.arcs
def mxToAM (d : AdjMatrix) := toAM d.order d.arcs
def mxToEL (d : AdjMatrix) := toEL d.order d.arcs
def mxToWL (d : AdjMatrix) := toWL d.order d.arcs
def elToAL (d : EdgeList) := toAL d.order d.arcs
def elToAM (d : EdgeList) := toAM d.order d.arcs
def elToMX (d : EdgeList) := toMX d.order d.arcs
def elToWL (d : EdgeList) := toWL d.order d.arcs

/-- validation loop of the `From<rows>` impls -/
def arcsValid (order : Nat) (arcs : List (Nat × Nat)) : Bool :=
  arcs.all (fun a => a.1 != a.2 && decide (a.2 < order))

namespace AL
/-- `From<IntoIterator<Item = BTreeSet<usize>>>`; `rows` = the sets as ascending lists. -/
def fromRows (rows : List (List Nat)) : Option AdjList :=
  let d : AdjList := ⟨rows⟩
  if d.order = 0 then none else if arcsValid d.order d.arcs then some d else none
end AL

namespace WL
/-- `From<IntoIterator<Item = BTreeMap<usize, W>>>`; `rows` = the maps as key-ascending lists. -/
def fromRows (rows : List (List (Nat × Int))) : Option AdjListW :=
  let d : AdjListW := ⟨rows⟩
  if d.order = 0 then none else if arcsValid d.order d.arcs then some d else none
end WL

namespace AM
/-- `From<IntoIterator<Item = BTreeSet<usize>>>`: `enumerate().collect()` gives keys `0..len`;
heads are validated with `contains_key`. -/
def fromRows (rows : List (List Nat)) : Option AdjMap :=
  let d : AdjMap := ⟨rows.zipIdx.map (fun p => (p.2, p.1))⟩
  if d.order = 0 then none
  else if d.arcs.all (fun a => a.1 != a.2 && (mget a.2 d.rows).isSome) then some d else none
end AM

/-- `order = order.max(u).max(v)` over the arcs, starting at 0. -/
def maxId (arcs : List (Nat × Nat)) : Nat := arcs.foldl (fun o a => max (max o a.1) a.2) 0

namespace MX
/-- `From<IntoIterator<Item = (usize, usize)>>` for `AdjacencyMatrix`. -/
def fromArcs (arcs : List (Nat × Nat)) : Option AdjMatrix :=
  if arcs.any (fun a => a.1 == a.2) then none          -- `assert_ne!` while collecting
  else if arcs.isEmpty then none                        -- `assert!(!arcs.is_empty())`
  else do
    let e ← AdjMatrix.empty (maxId arcs + 1)
    arcs.foldlM (fun g a => g.addArc a.1 a.2) e
end MX

namespace EL
/-- `From<IntoIterator<Item = (usize, usize)>>` for `EdgeList`: inserts while collecting. -/
def fromArcs (arcs : List (Nat × Nat)) : Option EdgeList :=
  if arcs.any (fun a => a.1 == a.2) then none
  else some ⟨arcs.foldl (fun s a => pinsert a s) [], maxId arcs + 1⟩
end EL

end GraafVerif.Conv
