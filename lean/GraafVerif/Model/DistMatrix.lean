/-!
# Model of `DistanceMatrix<W>`  (src/algo/distance_matrix.rs)

Weights are modelled at `Int`: `isize` and `usize` embed into `Int` order-preservingly and the
code only *compares* and *copies* weights (`Ord::cmp`, `Iterator::max`, `==`), it never does
arithmetic on them, so nothing wraps.  The flat `Vec<W>` is a `List Int`.

Source map (file:lines are those of the pinned tree):
* `new`            :168-193  assert `order > 0`, `checked_mul(order, order)`, fill with `infinity`
* `Index<(u,v)>`   :469-475  `self.dist[u * order + v]` (panics when that index is out of bounds)
* `IndexMut<(u,v)>`:477-481
* `eccentricities` :354-362  `dist.chunks(order).map(|row| row.iter().max().unwrap_or(&infinity))`
* `diameter`       :307-313  `eccentricities().max().unwrap_or(&infinity)`
* `center`         :244-267  running minimum from `infinity`, `Less` / `Equal` / `Greater`
* `periphery`      :443-453  `enumerate().filter_map(|(i, e)| (e == diameter).then_some(i))`
* `is_connected`   :400-405  `eccentricities().all(|e| e != &infinity)`
-/
namespace GraafVerif.DistMatrix

/-- `usize::MAX` on the 64-bit target the harness runs on. -/
def usizeMax : Nat := 2 ^ 64 - 1

structure DM where
  dist : List Int
  infinity : Int
  order : Nat
  deriving DecidableEq, Repr

/-- Outcome of a call that can panic. -/
inductive Res (α : Type) where
  | panic
  | ok (a : α)
  deriving DecidableEq, Repr

/-- `DistanceMatrix::new(order, infinity)`. -/
def new (order : Nat) (infinity : Int) : Res DM :=
  if order = 0 then .panic                                   -- `assert!(order > 0, …)`
  else if order * order > usizeMax then .panic               -- `checked_mul(..).expect(..)`
  else .ok ⟨List.replicate (order * order) infinity, infinity, order⟩

/-- `self[(u, v)]`. -/
def get (m : DM) (u v : Nat) : Res Int :=
  match m.dist[u * m.order + v]? with
  | none => .panic
  | some x => .ok x

/-- `self[(u, v)] = w`. -/
def set (m : DM) (u v : Nat) (w : Int) : Res DM :=
  if u * m.order + v < m.dist.length then .ok { m with dist := m.dist.set (u * m.order + v) w }
  else .panic

/-- `slice::chunks(k)` for `k > 0` (fuel = an upper bound on the number of chunks). -/
def chunksFuel {α : Type} (k : Nat) : Nat → List α → List (List α)
  | 0, _ => []
  | _, [] => []
  | fuel+1, x :: xs => (x :: xs).take k :: chunksFuel k fuel ((x :: xs).drop k)

def chunks {α : Type} (k : Nat) (l : List α) : List (List α) := chunksFuel k l.length l

/-- `it.max().unwrap_or(&d)` on values (which of several equal maxima is returned is not
observable on integers). -/
def maxOr (d : Int) : List Int → Int
  | [] => d
  | x :: xs => xs.foldl max x

def ecc (m : DM) : List Int := (chunks m.order m.dist).map (maxOr m.infinity)

def diameter (m : DM) : Int := maxOr m.infinity (ecc m)

/-- The `for (i, &e) in ecc.enumerate()` loop of `center`; state = (`center`, `min`). -/
def centerLoop : List Int → Nat → List Nat → Int → List Nat
  | [], _, c, _ => c
  | e :: es, i, c, mn =>
    match compare e mn with
    | .lt => centerLoop es (i+1) [i] e            -- clear; push i; min = e
    | .eq => centerLoop es (i+1) (c ++ [i]) mn    -- push i
    | .gt => centerLoop es (i+1) c mn

def center (m : DM) : List Nat := centerLoop (ecc m) 0 [] m.infinity

/-- `enumerate().filter_map(|(i, e)| (e == d).then_some(i))` starting at index `i`. -/
def idxEq (d : Int) : List Int → Nat → List Nat
  | [], _ => []
  | e :: es, i => if e == d then i :: idxEq d es (i+1) else idxEq d es (i+1)

def periphery (m : DM) : List Nat := idxEq (diameter m) (ecc m) 0

def isConnected (m : DM) : Bool := (ecc m).all (fun e => e != m.infinity)

/-- Apply a list of `IndexMut` writes in order; the first panicking write ends the run. -/
def setAll (m : DM) : List (Nat × Nat × Int) → Res DM
  | [] => .ok m
  | (u, v, w) :: ws =>
    match set m u v w with
    | .panic => .panic
    | .ok m' => setAll m' ws

example : (chunks 2 [1, 2, 3, 4, 5, 6] : List (List Int)) = [[1, 2], [3, 4], [5, 6]] := by decide
example : ecc ⟨[0, 5, 2, 3, 0, 1, 9, 9, 0], 9, 3⟩ = [5, 3, 9] := by decide
example : center ⟨[0, 5, 2, 3, 0, 1, 9, 9, 0], 9, 3⟩ = [1] := by decide
example : center ⟨[9, 9, 9, 9], 9, 2⟩ = [0, 1] := by decide
example : periphery ⟨[0, 5, 2, 3, 0, 1, 9, 9, 0], 9, 3⟩ = [2] := by decide
example : isConnected ⟨[0, 5, 2, 3, 0, 1, 9, 9, 0], 9, 3⟩ = false := by decide
example : new 0 7 = .panic := by decide
example : new 2 7 = .ok ⟨[7, 7, 7, 7], 7, 2⟩ := by decide

end GraafVerif.DistMatrix
