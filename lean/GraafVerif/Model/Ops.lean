import GraafVerif.Model.Repr
import GraafVerif.Model.Par
/-!
# Models of `complement`, `converse`, `union`, `filter_vertices` (property C11, C17 pieces)

Every `impl Complement / Converse / Union / FilterVertices for …` of `/repo/src/repr/*/mod.rs`,
as coded (after the `fix:` commits):

| Rust                                             | model            | threads                       |
|--------------------------------------------------|------------------|-------------------------------|
| `AdjacencyList::complement`                      | `complementAL`   | `t = min order ap`, `Par.ranges` |
| `AdjacencyList::converse`                        | `converseAL`     | –                             |
| `AdjacencyList::union` + `merge_two_sorted`      | `unionAL`        | `t = ap`, `step_by(chunk)`    |
| `AdjacencyMap::complement / converse / filter_vertices` | `complementAM / converseAM / filterAM` | – |
| `AdjacencyMap::union` + `find_partition`         | `unionAM`        | `t = min (n1+n2) ap`          |
| `AdjacencyMatrix::{complement, converse, union}` | `…MX`            | –                             |
| `EdgeList::{complement, converse, union}`        | `…EL`            | –                             |
| `AdjacencyListWeighted::converse`                | `converseW`      | –                             |

`ap` = `available_parallelism()` (an input of the model, DESIGN.md §4.2).  `Option` results:
`none` = the Rust code panics.  `while` loops over two cursors are recursion on the remaining
slices; where neither slice is structurally decreasing the recursion is on fuel, with the fuel
fixed by the wrapper and a fuel-adequacy theorem in `Proof/Ops*.lean`.
-/
namespace GraafVerif.Ops
open GraafVerif.Repr

/-! ## std collection builders (`Iterator::collect`) and `BTreeMap::insert` -/

/-- `iter.collect::<BTreeSet<usize>>()`. -/
def toSet (l : List Nat) : List Nat := l.foldl (fun s x => sinsert x s) []

/-- `iter.collect::<BTreeSet<(usize, usize)>>()`. -/
def toPSet (l : List (Nat × Nat)) : List (Nat × Nat) := l.foldl (fun s x => pinsert x s) []

/-- `BTreeMap::insert(k, x)` (replaces the value of an existing key). -/
def minsert {X : Type} (k : Nat) (x : X) (m : List (Nat × X)) : List (Nat × X) :=
  mupsert k x (fun _ => x) m

/-- `iter.collect::<BTreeMap<usize, X>>()`. -/
def toMap {X : Type} (l : List (Nat × X)) : List (Nat × X) := l.foldl (fun m e => minsert e.1 e.2 m) []

/-! ## `merge_two_sorted` (adjacency_list/mod.rs and adjacency_map/mod.rs, identical) -/

/-- The three `while` loops of `merge_two_sorted` on the remaining slices `lhs[i..]`, `rhs[j..]`. -/
def mergeFuel : Nat → List Nat → List Nat → List Nat
  | 0, _, _ => []
  | _+1, [], r => r
  | _+1, l, [] => l
  | f+1, a :: l, b :: r =>
    if a < b then a :: mergeFuel f l (b :: r)
    else if b < a then b :: mergeFuel f (a :: l) r
    else a :: mergeFuel f l r

def mergeTwoSorted (l r : List Nat) : List Nat := mergeFuel (l.length + r.length) l r

/-- `union_sets_unsafe`: `merge_two_sorted` of the two sets, collected into a `BTreeSet`. -/
def unionSets (a b : List Nat) : List Nat := toSet (mergeTwoSorted a b)

/-! ## AdjacencyList -/

/-- The two `while` loops of `AdjacencyList::complement` for row `u`: `full[i..]` against
`out[j..]`; `a == u` is skipped, `a == b` advances both cursors, anything else pushes `a`. -/
def diffLoop (u : Nat) : List Nat → List Nat → List Nat
  | [], _ => []
  | a :: full, [] => if a = u then diffLoop u full [] else a :: diffLoop u full []
  | a :: full, b :: out =>
    if a = u then diffLoop u full (b :: out)
    else if a = b then diffLoop u full out
    else a :: diffLoop u full (b :: out)

/-- What one worker computes for row `u` (`diff.into_iter().collect()`). -/
def complementRowAL (d : AdjList) (u : Nat) : List Nat :=
  toSet (diffLoop u (List.range d.order) (d.rows[u]?.getD []))

/-- `AdjacencyList::complement`: `t = order.min(ap)`, `chunk = order.div_ceil(t)` (division by
zero = panic when `t = 0`), thread `id` handles `id*chunk .. min order (id*chunk+chunk)` and
the partial results are concatenated in join order. -/
def complementAL (d : AdjList) (ap : Nat) : Option AdjList :=
  let order := d.order
  let t := min order ap
  if t = 0 then none
  else some ⟨(Par.ranges order t).flatMap
    (fun r => (List.range' r.1 (r.2 - r.1)).map (complementRowAL d))⟩

/-- `AdjacencyList::converse`: asserts `order > 0`; `converse[v].insert(u)` for every arc in
iteration order.  (A head `v ≥ order` would be an out-of-bounds write; `WF` excludes it, here it
is a no-op.) -/
def converseAL (d : AdjList) : Option AdjList :=
  if d.order = 0 then none
  else some ⟨d.arcs.foldl (fun conv a => conv.set a.2 (sinsert a.1 (conv[a.2]?.getD [])))
    (List.replicate d.order [])⟩

/-- `(0..n).step_by(chunk)` with `end = min (start + chunk) n`. -/
def stepRanges (n chunk : Nat) : List (Nat × Nat) :=
  let rec go (fuel start : Nat) : List (Nat × Nat) :=
    match fuel with
    | 0 => []
    | fuel+1 => if start < n then (start, min (start + chunk) n) :: go fuel (start + chunk) else []
  go n 0

/-- Row `u` of `AdjacencyList::union`: rows beyond an operand's order count as empty. -/
def unionRowAL (a b : AdjList) (u : Nat) : List Nat :=
  let sa := if u < a.order then a.rows[u]?.getD [] else []
  let sb := if u < b.order then b.rows[u]?.getD [] else []
  toSet (mergeTwoSorted sa sb)

/-- `AdjacencyList::union`: `order = max`, `t = ap`, `chunk = order.div_ceil(t)`; one worker per
`step_by(chunk)` start writes slot `u` of the pre-allocated result for every `u` of its chunk.
`step_by(0)` panics (`order = 0`). -/
def unionAL (a b : AdjList) (ap : Nat) : Option AdjList :=
  let order := max a.order b.order
  if ap = 0 then none
  else
    let chunk := (order + ap - 1) / ap
    if chunk = 0 then none
    else some ⟨(stepRanges order chunk).foldl
      (fun arcs r => (List.range' r.1 (r.2 - r.1)).foldl (fun arcs u => arcs.set u (unionRowAL a b u)) arcs)
      (List.replicate order [])⟩

/-! ## AdjacencyMap -/

/-- `AdjacencyMap::complement` (after the fix): universe = key set;
`vertices.difference(out).collect()`, then `remove(u)`. -/
def complementAM (d : AdjMap) : AdjMap :=
  let vertices := toSet (d.rows.map (·.1))
  ⟨toMap (d.rows.map (fun e =>
    (e.1, serase e.1 (toSet (vertices.filter (fun v => !e.2.contains v))))))⟩

/-- `AdjacencyMap::converse` (after the fix): every key with an empty set, then
`arcs.entry(v).or_default().insert(u)` for every arc in iteration order. -/
def converseAM (d : AdjMap) : AdjMap :=
  ⟨d.arcs.foldl (fun m a => mupsert a.2 [] (sinsert a.1) m)
    (toMap (d.rows.map (fun e => (e.1, ([] : List Nat)))))⟩

/-- `AdjacencyMap::filter_vertices`. -/
def filterAM (d : AdjMap) (p : Nat → Bool) : AdjMap :=
  ⟨d.rows.foldl (fun m e =>
    if p e.1 then
      e.2.foldl (fun m v => if p v then mupsert v [] id (mupsert e.1 [] (sinsert v) m) else m)
        (mupsert e.1 [] id m)
    else m) []⟩

abbrev Entry := Nat × List Nat

/-- `find_partition`'s binary search loop. -/
def findPartitionLoop (r : Nat) (lhs rhs : List Entry) : Nat → Nat → Nat → Nat
  | 0, lo, _ => lo
  | fuel+1, lo, hi =>
    if lo < hi then
      let mid := (lo + hi) / 2
      let j := r - mid
      if j < rhs.length && ((lhs[mid]?.getD (0, [])).1 > (rhs[j]?.getD (0, [])).1) then
        findPartitionLoop r lhs rhs fuel lo mid
      else findPartitionLoop r lhs rhs fuel (mid + 1) hi
    else lo

/-- `find_partition(r, lhs, rhs)`: `lo = r.saturating_sub(rhs_len)`, `hi = min r lhs_len`. -/
def findPartition (r : Nat) (lhs rhs : List Entry) : Nat × Nat :=
  let lo := r - rhs.length
  let hi := if r < lhs.length then r else lhs.length
  let i := findPartitionLoop r lhs rhs (hi - lo) lo hi
  (i, r - i)

/-- The per-thread merge loop of `AdjacencyMap::union` on the slices `lhs[i..i_end]`,
`rhs[j..j_end]`: smaller key first, equal keys give one entry with the united sets. -/
def mergeEntriesFuel : Nat → List Entry → List Entry → List Entry
  | 0, _, _ => []
  | _+1, [], r => r
  | _+1, l, [] => l
  | f+1, a :: l, b :: r =>
    if a.1 < b.1 then a :: mergeEntriesFuel f l (b :: r)
    else if b.1 < a.1 then b :: mergeEntriesFuel f (a :: l) r
    else (a.1, unionSets a.2 b.2) :: mergeEntriesFuel f l r

def mergeEntries (l r : List Entry) : List Entry := mergeEntriesFuel (l.length + r.length) l r

/-- The final duplicate-key fold of `AdjacencyMap::union` (`current` = first argument). -/
def foldDupGo (cur : Entry) : List Entry → List Entry
  | [] => [cur]
  | e :: es => if e.1 = cur.1 then foldDupGo (cur.1, unionSets cur.2 e.2) es else cur :: foldDupGo e es

def foldDup : List Entry → List Entry
  | [] => []
  | c :: es => foldDupGo c es

/-- `merged_entries.sort_unstable_by_key(|&(k, _)| k)`.  (The order of equal keys is
unspecified in std; the fold unites them with a commutative operation.) -/
def sortByKey (l : List Entry) : List Entry := l.mergeSort (fun a b => a.1 ≤ b.1)

/-- `boundaries`: `find_partition(k * order / t)` for `k = 0..=t`. -/
def boundaries (lhs rhs : List Entry) (t : Nat) : List (Nat × Nat) :=
  (List.range (t + 1)).map (fun k => findPartition (k * (lhs.length + rhs.length) / t) lhs rhs)

/-- What worker `k` produces. -/
def workerAM (lhs rhs : List Entry) (bs : List (Nat × Nat)) (k : Nat) : List Entry :=
  let s := bs[k]?.getD (0, 0)
  let e := bs[k+1]?.getD (0, 0)
  mergeEntries ((lhs.drop s.1).take (e.1 - s.1)) ((rhs.drop s.2).take (e.2 - s.2))

/-- `merged_entries` after all joins. -/
def mergedAM (lhs rhs : List Entry) (t : Nat) : List Entry :=
  (List.range t).flatMap (workerAM lhs rhs (boundaries lhs rhs t))

/-- `AdjacencyMap::union`: `order = n1 + n2` (`0` ⇒ `trivial()`), `t = order.min(ap)`
(`k * order / t` with `t = 0` = division by zero panic). -/
def unionAM (a b : AdjMap) (ap : Nat) : Option AdjMap :=
  let order := a.rows.length + b.rows.length
  if order = 0 then AdjMap.empty 1
  else
    let t := min order ap
    if t = 0 then none
    else some ⟨toMap (foldDup (sortByKey (mergedAM a.rows b.rows t)))⟩

/-! ## AdjacencyMatrix -/

def complementMX (d : AdjMatrix) : Option AdjMatrix := do
  let e ← AdjMatrix.empty d.order
  (List.range d.order).foldlM (fun g u =>
    (List.range' (u + 1) (d.order - (u + 1))).foldlM (fun g v => do
      let g ← if !d.hasArc u v then g.addArc u v else pure g
      if !d.hasArc v u then g.addArc v u else pure g) g) e

def converseMX (d : AdjMatrix) : Option AdjMatrix := do
  let e ← AdjMatrix.empty d.order
  d.arcs.foldlM (fun g a => g.addArc a.2 a.1) e

/-- `union`: clone the operand of strictly larger order (else `other`), add the other's arcs. -/
def unionMX (a b : AdjMatrix) : Option AdjMatrix :=
  let (big, small) := if a.order > b.order then (a, b) else (b, a)
  small.arcs.foldlM (fun g x => g.addArc x.1 x.2) big

/-! ## EdgeList -/

/-- `(0..order).flat_map(|u| (0..u).chain(u + 1..order).map(move |v| (u, v)))`. -/
def allPairs (n : Nat) : List (Nat × Nat) :=
  (List.range n).flatMap (fun u => (List.range u ++ List.range' (u + 1) (n - (u + 1))).map (fun v => (u, v)))

def complementEL (d : EdgeList) : EdgeList :=
  ⟨toPSet ((toPSet (allPairs d.order)).filter (fun a => !d.arcs.contains a)), d.order⟩

def converseEL (d : EdgeList) : EdgeList :=
  ⟨toPSet (d.arcs.map (fun a => (a.2, a.1))), d.order⟩

def unionEL (a b : EdgeList) : Option EdgeList :=
  let (big, small) := if a.order > b.order then (a, b) else (b, a)
  small.arcs.foldlM (fun g x => g.addArc x.1 x.2) big

/-! ## AdjacencyListWeighted -/

/-- `converse`: `arcs[v].insert(u, w)` (bounds-checked indexing: `none` = panic). -/
def converseW (d : AdjListW) : Option AdjListW :=
  (d.arcsWeighted.foldlM (fun (rows : List (List (Nat × Int))) a =>
      if a.2.1 < rows.length then
        some (rows.set a.2.1 (minsert a.1 a.2.2 (rows[a.2.1]?.getD [])))
      else none)
    (List.replicate d.order [])).map AdjListW.mk

/-! ## Single-threaded definitions (the `opSeq` of C17) -/

/-- Row `u` of the complement as a plain set expression. -/
def complementRowSeq (d : AdjList) (u : Nat) : List Nat :=
  (List.range d.order).filter (fun v => v != u && !(d.rows[u]?.getD []).contains v)

def complementSeqAL (d : AdjList) : AdjList := ⟨(List.range d.order).map (complementRowAL d)⟩

def unionSeqAL (a b : AdjList) : AdjList := ⟨(List.range (max a.order b.order)).map (unionRowAL a b)⟩

/-- One merge of the two key-sorted entry lists. -/
def unionSeqAM (a b : AdjMap) : AdjMap := ⟨mergeEntries a.rows b.rows⟩

end GraafVerif.Ops
