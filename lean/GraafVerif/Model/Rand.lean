import GraafVerif.Model.Repr
import GraafVerif.Model.Par
/-!
# Model of the seeded random generators (C15)

| Rust                                                                  | model                         |
|-----------------------------------------------------------------------|-------------------------------|
| `src/gen/prng/split_mix64.rs`  `SplitMix64::next`                     | `splitMixStep`                |
| `src/gen/prng/xoshiro256_star_star.rs` `new` / `next`                 | `Xo.new` / `Xo.next`          |
| … `next_bool` (`next & 1 == 1`)                                       | `nextBool`                    |
| … `next_f64` (`from_bits(1023<<52 | next & (2^52-1)) - 1.0`)          | `mant w / 2^52` (exact)       |
| `RandomTournament for AdjacencyList / Matrix / EdgeList`              | `tournamentAL / MX / EL`      |
| `RandomTournament for AdjacencyMap` (threads, mutex rows)             | `tournamentAM`, LTS `TState`  |
| `RandomRecursiveTree for …`                                           | `rrtAL / AM / MX / EL`        |
| `ErdosRenyi for …`                                                    | `erAL / MX / EL`, `erAM`      |

Two layers (DESIGN.md §4.3):
* every generator takes the PRNG output as an ARBITRARY stream `Stream = Nat → UInt64`
  (`s i` = the `i`-th value the generator draws from its PRNG); the threaded map variants take
  one stream per worker (`Nat → Stream`, worker id ↦ stream).  The structural theorems quantify
  over all streams, so they hold for every seed and for any PRNG;
* `xoStream seed` is the bit-exact stream of `Xoshiro256StarStar::new(seed)`; the driver
  instantiates the generators with it (worker `k` of the map variants: `seed + k`, wrapping).

Loops that draw exactly once per iteration are modelled as "the `i`-th element of the iteration
receives `s i`" (`List.zipIdx`).  `none` = the Rust code panics.

`f64`: a finite double is the exact dyadic rational `num · 2^-1074` (`F64.fin num`); Lean's
`Float` is not used anywhere.
-/
namespace GraafVerif.Rand
open GraafVerif.Repr

/-! ## PRNGs, bit exact on `UInt64` -/

/-- `SplitMix64::next`: `(output, new state)`. -/
def splitMixStep (st : UInt64) : UInt64 × UInt64 :=
  let st := st + 0x9E3779B97F4A7C15
  let s := (st ^^^ (st >>> 30)) * 0xBF58476D1CE4E5B9
  let s := (s ^^^ (s >>> 27)) * 0x94D049BB133111EB
  (s ^^^ (s >>> 31), st)

/-- `u64::rotate_left(k)` for `0 < k < 64`. -/
def rotl (x : UInt64) (k : UInt64) : UInt64 := (x <<< k) ||| (x >>> (64 - k))

/-- `Xoshiro256StarStar { state: [u64; 4] }`. -/
structure Xo where
  s0 : UInt64
  s1 : UInt64
  s2 : UInt64
  s3 : UInt64
  deriving DecidableEq, Repr

/-- `Xoshiro256StarStar::new(seed)`: four consecutive SplitMix64 outputs. -/
def Xo.new (seed : UInt64) : Xo :=
  let (a, st) := splitMixStep seed
  let (b, st) := splitMixStep st
  let (c, st) := splitMixStep st
  let (d, _) := splitMixStep st
  ⟨a, b, c, d⟩

/-- `Iterator::next` (statement order of the source kept). -/
def Xo.next (x : Xo) : UInt64 × Xo :=
  let out := rotl (x.s1 * 5) 7 * 9
  let t := x.s1 <<< 17
  let s2 := x.s2 ^^^ x.s0
  let s3 := x.s3 ^^^ x.s1
  let s1 := x.s1 ^^^ s2
  let s0 := x.s0 ^^^ s3
  let s2 := s2 ^^^ t
  let s3 := rotl s3 45
  (out, ⟨s0, s1, s2, s3⟩)

/-- The PRNG seen as a stream of draws. -/
abbrev Stream := Nat → UInt64

/-- State after `i` draws. -/
def Xo.iter (x : Xo) : Nat → Xo
  | 0 => x
  | i+1 => (x.iter i).next.2

/-- `xoStream seed i` = the `(i+1)`-th value returned by `Xoshiro256StarStar::new(seed).next()`. -/
def xoStream (seed : UInt64) : Stream := fun i => ((Xo.new seed).iter i).next.1

/-- First `k` outputs (driver: materialised once, then indexed). -/
def xoTake (seed : UInt64) (k : Nat) : Array UInt64 :=
  let rec go (fuel : Nat) (x : Xo) (acc : Array UInt64) : Array UInt64 :=
    match fuel with
    | 0 => acc
    | fuel+1 => let (o, x') := x.next; go fuel x' (acc.push o)
  go k (Xo.new seed) (Array.mkEmpty k)

/-- Array-backed stream (0 beyond the materialised prefix). -/
def streamOfArray (a : Array UInt64) : Stream := fun i => a.getD i 0

/-- `next_bool`: lowest bit. -/
def nextBool (w : UInt64) : Bool := w &&& 1 == 1

/-- `next_f64`: the 52 mantissa bits `m`; the returned double is exactly `m / 2^52`
(`from_bits(1023 << 52 | m) = 1 + m/2^52`, and subtracting `1.0` from a double in `[1,2)` is exact). -/
def mant (w : UInt64) : Nat := (w &&& 0xFFFFFFFFFFFFF).toNat

/-! ## Doubles as exact dyadic rationals -/

/-- A decoded `f64`: `fin num` is the value `num · 2^-1074` (every finite double is such a multiple;
`-0.0` and `0.0` are both `fin 0`). -/
inductive F64 where
  | nan
  | inf (neg : Bool)
  | fin (num : Int)
  deriving DecidableEq, Repr

/-- `f64::from_bits` followed by exact interpretation (sign, 11-bit exponent, 52-bit mantissa). -/
def F64.ofBits (b : UInt64) : F64 :=
  let neg := (b >>> 63) == 1
  let e := ((b >>> 52) &&& 0x7FF).toNat
  let m := (b &&& 0xFFFFFFFFFFFFF).toNat
  if e = 0x7FF then (if m = 0 then .inf neg else .nan)
  else
    let mag : Nat := if e = 0 then m else (2^52 + m) <<< (e - 1)
    .fin (if neg then - (mag : Int) else (mag : Int))

/-- the value `1.0` -/
def F64.one : F64 := .fin (2^1074)
/-- the value `0.0` -/
def F64.zero : F64 := .fin 0

/-- `(0.0..=1.0).contains(&p)`, i.e. `0.0 <= p && p <= 1.0` (false for NaN). -/
def F64.inUnit : F64 → Bool
  | .fin num => decide (0 ≤ num) && decide (num ≤ 2^1074)
  | _ => false

/-- `p > 0.5`. -/
def F64.gtHalf : F64 → Bool
  | .fin num => decide (2^1073 < num)
  | .inf neg => !neg
  | .nan => false

/-- `1.0 - p` for `p ∈ [0.5, 1]`, where IEEE subtraction is exact (Sterbenz); only used there.
The driver compares this with the bits of `1.0 - p` computed by the harness. -/
def F64.oneMinus : F64 → F64
  | .fin num => .fin (2^1074 - num)
  | x => x

/-- `next_f64() < p` for the draw `w`: `m / 2^52 < num / 2^1074`. -/
def f64lt (w : UInt64) (p : F64) : Bool :=
  match p with
  | .fin num => decide (((mant w : Nat) : Int) * 2^1022 < num)
  | .inf neg => !neg
  | .nan => false

/-- Bits of the double `m / 2^52` (`m < 2^52`): what `next_f64().to_bits()` shows. -/
def f64BitsOfMant (m : Nat) : Nat :=
  if m = 0 then 0
  else
    let k := Nat.log2 m            -- top bit of m
    ((k + 971) <<< 52) ||| ((m <<< (52 - k)) - 2^52)

/-! ## Ordered-container helpers -/

/-- `iter.collect::<BTreeMap<usize, _>>()`: later duplicates replace earlier ones. -/
def collectMap {X : Type} (l : List (Nat × X)) : List (Nat × X) :=
  l.foldl (fun m kv => mupsert kv.1 kv.2 (fun _ => kv.2) m) []

/-- `iter.collect::<BTreeSet<(usize, usize)>>()`. -/
def collectSet (l : List (Nat × Nat)) : List (Nat × Nat) :=
  l.foldl (fun s a => pinsert a s) []

/-- `rows[a.1].insert(a.2)` on a `Vec<BTreeSet<usize>>` (also: `rows[a.1].lock().insert(a.2)`). -/
def rowInsert (rows : List (List Nat)) (a : Nat × Nat) : List (List Nat) :=
  rows.set a.1 (sinsert a.2 (rows[a.1]?.getD []))

/-! ## random_tournament -/

/-- `for u in 0..n { for v in (u+1)..n { … } }` as the list of its iterations. -/
def pairs (n : Nat) : List (Nat × Nat) :=
  (List.range n).flatMap fun u => (List.range' (u+1) (n - (u+1))).map fun v => (u, v)

/-- `if rng.next_bool() { insert u→v } else { insert v→u }` for the `i`-th iteration. -/
def orient (s : Stream) (pi : (Nat × Nat) × Nat) : Nat × Nat :=
  if nextBool (s pi.2) then pi.1 else (pi.1.2, pi.1.1)

/-- The arcs inserted by the sequential loop, in insertion order. -/
def tournamentArcs (s : Stream) (n : Nat) : List (Nat × Nat) := (pairs n).zipIdx.map (orient s)

/-- `AdjacencyList::random_tournament` (src/repr/adjacency_list/mod.rs:1160-1190). -/
def tournamentAL (s : Stream) (n : Nat) : Option AdjList :=
  if n = 0 then none
  else if n = 1 then AdjList.empty 1
  else some ⟨(tournamentArcs s n).foldl rowInsert (List.replicate n [])⟩

/-- `AdjacencyMatrix::random_tournament` (adjacency_matrix/mod.rs:848-867): `empty(order)` asserts. -/
def tournamentMX (s : Stream) (n : Nat) : Option AdjMatrix := do
  let e ← AdjMatrix.empty n
  (tournamentArcs s n).foldlM (fun g a => g.addArc a.1 a.2) e

/-- `EdgeList::random_tournament` (edge_list/mod.rs:692-716). -/
def tournamentEL (s : Stream) (n : Nat) : Option EdgeList :=
  if n = 1 then EdgeList.empty 1
  else do
    let e ← EdgeList.empty n
    (tournamentArcs s n).foldlM (fun g a => g.addArc a.1 a.2) e

/-- Iterations of the worker that owns rows `r.1 .. r.2`. -/
def workerPairs (n : Nat) (r : Nat × Nat) : List (Nat × Nat) :=
  (List.range' r.1 (r.2 - r.1)).flatMap fun u => (List.range' (u+1) (n - (u+1))).map fun v => (u, v)

/-- The locked inserts `(row, value)` worker `k` performs, in program order. -/
def workerActs (s : Stream) (n : Nat) (r : Nat × Nat) : List (Nat × Nat) :=
  (workerPairs n r).zipIdx.map (orient s)

/-- Worker ranges: `t = order.min(available_parallelism())`, chunking of `Par.ranges`;
`zipIdx` attaches the `thread_id` (the loop `break`s at the first empty range). -/
def workers (n t : Nat) : List ((Nat × Nat) × Nat) := (Par.ranges n (min n t)).zipIdx

/-- Programs of all workers (worker `k` draws from `streams k`). -/
def tournamentProgs (streams : Nat → Stream) (n t : Nat) : List (List (Nat × Nat)) :=
  (workers n t).map fun rk => workerActs (streams rk.2) n rk.1

/-- `(0..order).map(|u| (u, rows[u].clone())).collect::<BTreeMap>()`. -/
def finishMap (n : Nat) (rows : List (List Nat)) : AdjMap :=
  ⟨collectMap ((List.range n).map fun u => (u, rows[u]?.getD []))⟩

/-- `AdjacencyMap::random_tournament` (adjacency_map/mod.rs:979-1070) under the schedule that runs
the workers one after the other (`tournament_schedule_independent`: every schedule gives this). -/
def tournamentAM (streams : Nat → Stream) (n t : Nat) : Option AdjMap :=
  if n = 0 then none
  else if n = 1 then AdjMap.empty 1
  else some (finishMap n ((tournamentProgs streams n t).flatten.foldl rowInsert (List.replicate n [])))

/-! ### The workers as a labelled transition system -/

/-- Shared rows (each behind its own mutex) + what every worker still has to do. -/
structure TState where
  rows : List (List Nat)
  progs : List (List (Nat × Nat))

/-- Worker `k` performs its next locked insert (`lock; insert; unlock` is atomic per row). -/
def TState.step (st : TState) (k : Nat) : Option TState :=
  match st.progs[k]? with
  | some (a :: rest) => some ⟨rowInsert st.rows a, st.progs.set k rest⟩
  | _ => none

/-- Run a schedule (a sequence of worker ids); `none` if it names a worker that has nothing to do. -/
def TState.run (st : TState) : List Nat → Option TState
  | [] => some st
  | k :: ks => match st.step k with
    | some st' => st'.run ks
    | none => none

/-- All workers have finished (`join` returns for all handles). -/
def TState.terminal (st : TState) : Prop := ∀ p ∈ st.progs, p = []

def tournamentInit (streams : Nat → Stream) (n t : Nat) : TState :=
  ⟨List.replicate n [], tournamentProgs streams n t⟩

/-! ## random_recursive_tree -/

/-- `(1..order).map(|u| (u, next() % u))`: vertex `u` receives draw `u - 1`. -/
def rrtParents (s : Stream) (n : Nat) : List (Nat × Nat) :=
  (List.range' 1 (n - 1)).map fun u => (u, (s (u - 1)).toNat % u)

/-- adjacency_list/mod.rs:1135-1157 -/
def rrtAL (s : Stream) (n : Nat) : Option AdjList :=
  if n = 0 then none
  else if n = 1 then AdjList.empty 1
  else some ⟨[] :: (rrtParents s n).map fun a => [a.2]⟩

/-- adjacency_map/mod.rs:671-700 -/
def rrtAM (s : Stream) (n : Nat) : Option AdjMap :=
  if n = 0 then none
  else if n = 1 then AdjMap.empty 1
  else some ⟨collectMap ((0, []) :: (rrtParents s n).map fun a => (a.1, [a.2]))⟩

/-- adjacency_matrix/mod.rs:653-674 -/
def rrtMX (s : Stream) (n : Nat) : Option AdjMatrix :=
  if n = 1 then AdjMatrix.empty 1
  else do
    let e ← AdjMatrix.empty n
    (rrtParents s n).foldlM (fun g a => g.addArc a.1 a.2) e

/-- edge_list/mod.rs:499-525 -/
def rrtEL (s : Stream) (n : Nat) : Option EdgeList :=
  if n = 0 then none
  else if n = 1 then EdgeList.empty 1
  else some ⟨collectSet (rrtParents s n), n⟩

/-! ## erdos_renyi -/

/-- `cands.filter(|_| rng.next_f64() < p)` where the first candidate receives draw `base`. -/
def erRow (s : Stream) (p : F64) (base : Nat) (cands : List Nat) : List Nat :=
  ((cands.zipIdx base).filter fun vi => f64lt (s vi.2) p).map (·.1)

/-- `(0..u).chain((u + 1)..order)` -/
def othersChain (n u : Nat) : List Nat := List.range u ++ List.range' (u+1) (n - (u+1))

/-- `(0..order).filter(|&v| u != v)` -/
def othersFilter (n u : Nat) : List Nat := (List.range n).filter fun v => u != v

/-- Rows of the sequential generators: row `u` starts at draw `u·(n-1)` (every row draws
exactly `n-1` times). -/
def erRows (s : Stream) (p : F64) (n : Nat) (cands : Nat → Nat → List Nat) : List (List Nat) :=
  (List.range n).map fun u => erRow s p (u * (n - 1)) (cands n u)

/-- The same draws as arcs in generation order (`flat_map(|u| row(u).map(|v| (u, v)))`, resp. the
nested loops with `add_arc(u, v)`). -/
def erArcs (s : Stream) (p : F64) (n : Nat) (cands : Nat → Nat → List Nat) : List (Nat × Nat) :=
  (List.range n).flatMap fun u => (erRow s p (u * (n - 1)) (cands n u)).map fun v => (u, v)

/-- adjacency_list/mod.rs:682-711 -/
def erAL (s : Stream) (n : Nat) (p : F64) : Option AdjList :=
  if n = 0 then none
  else if !p.inUnit then none
  else if n = 1 then AdjList.empty 1
  else some ⟨erRows s p n othersChain⟩

/-- adjacency_matrix/mod.rs:559-582: the `p` assert comes first, `empty(order)` asserts the order. -/
def erMX (s : Stream) (n : Nat) (p : F64) : Option AdjMatrix :=
  if !p.inUnit then none
  else if n = 1 then AdjMatrix.empty 1
  else do
    let e ← AdjMatrix.empty n
    (erArcs s p n othersFilter).foldlM (fun g a => g.addArc a.1 a.2) e

/-- edge_list/mod.rs:415-438 (no `order == 1` shortcut) -/
def erEL (s : Stream) (n : Nat) (p : F64) : Option EdgeList :=
  if n = 0 then none
  else if !p.inUnit then none
  else some ⟨collectSet (erArcs s p n othersChain), n⟩

/-- One worker of `AdjacencyMap::erdos_renyi`: rows `r.1 .. r.2`, its own stream, the draws of
consecutive rows follow each other (`v != u && rng.next_f64() < p`: no draw for `v = u`). -/
def erWorker (s : Stream) (p : F64) (n : Nat) (r : Nat × Nat) : List (Nat × List Nat) :=
  (List.range' r.1 (r.2 - r.1)).map fun u => (u, erRow s p ((u - r.1) * (n - 1)) (othersFilter n u))

/-- The threaded part (`p ≤ 0.5`): results in join order; `sort_by_key` is stable and
`collect::<BTreeMap>` depends only on the last value per key, so the sort is not modelled. -/
def erMapCore (streams : Nat → Stream) (n t : Nat) (p : F64) : AdjMap :=
  ⟨collectMap ((workers n t).flatMap fun rk => erWorker (streams rk.2) p n rk.1)⟩

/-- `BTreeSet::difference` (ascending). -/
def sdiff (a b : List Nat) : List Nat := a.filter fun x => !b.contains x

/-- `AdjacencyMap::complement` (adjacency_map/mod.rs:401-425). -/
def complementAM (d : AdjMap) : AdjMap :=
  let vs := d.rows.map (·.1)
  ⟨d.rows.map fun ur => (ur.1, serase ur.1 (sdiff vs ur.2))⟩

/-- `AdjacencyMap::erdos_renyi` (adjacency_map/mod.rs:502-575); the recursion
`erdos_renyi(order, 1.0 - p, seed).complement()` on fuel (`erAM_fuel`: 2 is enough). -/
def erAMF (streams : Nat → Stream) (n t : Nat) : Nat → F64 → Option AdjMap
  | 0, _ => none
  | fuel+1, p =>
    if n = 0 then none
    else if !p.inUnit then none
    else if n = 1 then AdjMap.empty 1
    else if p.gtHalf then (erAMF streams n t fuel p.oneMinus).map complementAM
    else some (erMapCore streams n t p)

def erAM (streams : Nat → Stream) (n t : Nat) (p : F64) : Option AdjMap := erAMF streams n t 2 p

/-- Worker streams of the real code: `Xoshiro256StarStar::new(seed.wrapping_add(thread_id))`. -/
def xoStreams (seed : UInt64) : Nat → Stream := fun k => xoStream (seed + UInt64.ofNat k)

end GraafVerif.Rand
