/-!
# Thread chunking as coded in the parallel functions of `AdjacencyList` / `AdjacencyMap`

Two idioms occur in the source:

* `for thread_id in 0..t { start = thread_id * chunk; end = order.min(start + chunk); if start >= end { break } … }`
  (`complement`, `complete`, `erdos_renyi`, `random_tournament`): `threadRanges`;
* `for start in (0..order).step_by(chunk) { end = order.min(start + chunk) … }`
  (`union`, `is_semicomplete`): `stepRanges`,

both with `chunk = order.div_ceil(t)`.  `expandRanges` lists the indices the workers touch, in
worker order.  No imports.
-/
namespace GraafVerif.Chk

/-- `n.div_ceil(t)` -/
def divCeil (n t : Nat) : Nat := (n + t - 1) / t

def threadRangesGo (n chunk : Nat) : Nat → Nat → List (Nat × Nat)
  | 0, _ => []
  | fuel + 1, id =>
    let start := id * chunk
    let stop := min n (start + chunk)
    if start ≥ stop then [] else (start, stop) :: threadRangesGo n chunk fuel (id + 1)

/-- ranges of the `for thread_id in 0..t` idiom -/
def threadRanges (n t : Nat) : List (Nat × Nat) := threadRangesGo n (divCeil n t) t 0

def stepRangesGo (n chunk : Nat) : Nat → Nat → List (Nat × Nat)
  | 0, _ => []
  | fuel + 1, start =>
    if start < n then (start, min n (start + chunk)) :: stepRangesGo n chunk fuel (start + chunk) else []

/-- ranges of the `(0..n).step_by(chunk)` idiom (`chunk > 0`, else `step_by` panics) -/
def stepRanges (n chunk : Nat) : List (Nat × Nat) := stepRangesGo n chunk n 0

def expandRanges (rs : List (Nat × Nat)) : List Nat := rs.flatMap (fun r => List.range' r.1 (r.2 - r.1))

end GraafVerif.Chk
