import GraafVerif.Model.Repr
import GraafVerif.Model.Par
/-!
# Models of the deterministic generators (C14), in every representation, as coded

Sources: `src/gen/{empty,biclique,circuit,complete,cycle,path,star,wheel}.rs` (traits, the default
methods `trivial = empty(1)`, `claw = biclique(1,3)`, `utility = biclique(3,3)`) and the
`impl <Trait> for <Repr>` blocks in `src/repr/*/mod.rs`:

* `AdjacencyList`  — closed-form rows (`Vec<BTreeSet>`), `complete` fans out over
  `t = min(order, available_parallelism())` workers with the `Par.ranges` chunking, the
  `(u, row)` pairs are concatenated in join order and sorted by `u`;
* `AdjacencyMap`   — closed-form `(key, row)` sequences collected into a `BTreeMap`;
* `AdjacencyMatrix`— `empty(order)` followed by a loop of `add_arc` calls (sequence of arcs
  in source order, folded with `AdjMatrix.addArc`);
* `EdgeList`       — closed-form arc sequences collected into a `BTreeSet<(usize,usize)>`;
* `AdjacencyListWeighted<W>` implements `Empty` only.

Every generator returns `Option`: `none` = the Rust code panics (asserts in source order).
`BTreeSet::from([..])`/`collect()` are folds of `insert` (`ssetOf`, `psetOf`, `mapOf`).
-/
namespace GraafVerif.Gen
open GraafVerif.Repr

/-- `BTreeSet::<usize>::from([..])` / `iter.collect::<BTreeSet<usize>>()`: the strictly ascending
list of the distinct items.  (std builds it by sort + dedup; here: fold of `insert` from the
right, which is linear on the ascending sequences the generators emit.) -/
def ssetOf (l : List Nat) : List Nat := l.foldr sinsert []
/-- `iter.collect::<BTreeSet<(usize, usize)>>()`. -/
def psetOf (l : List (Nat × Nat)) : List (Nat × Nat) := l.foldr pinsert []
/-- `BTreeMap::insert(k, row)` (replaces an existing value). -/
def minsert (k : Nat) (row : List Nat) (m : List (Nat × List Nat)) : List (Nat × List Nat) :=
  mupsert k row (fun _ => row) m
/-- insert unless the key is present -/
def minsertNew (k : Nat) (row : List Nat) (m : List (Nat × List Nat)) : List (Nat × List Nat) :=
  mupsert k row id m
/-- `iter.collect::<BTreeMap<usize, BTreeSet<usize>>>()`: of several items with the same key
the LAST wins — folding from the right, an item is dropped when its key is already present. -/
def mapOf (l : List (Nat × List Nat)) : List (Nat × List Nat) :=
  l.foldr (fun e m => minsertNew e.1 e.2 m) []

/-- insertion of one element into a list ascending in the key (stable) -/
def insertByKey {α : Type} (a : Nat × α) : List (Nat × α) → List (Nat × α)
  | [] => [a]
  | b :: bs => if a.1 ≤ b.1 then a :: b :: bs else b :: insertByKey a bs
/-- `sort_unstable_by_key(|&(u, _)| u)` (the keys are distinct, so stability is immaterial). -/
def sortByKey {α : Type} (l : List (Nat × α)) : List (Nat × α) := l.foldr insertByKey []

/-- `start..end` -/
def rangeFT (a b : Nat) : List Nat := List.range' a (b - a)

/-! ## AdjacencyList (src/repr/adjacency_list/mod.rs) -/
namespace AL

def empty (n : Nat) : Option AdjList := AdjList.empty n
def trivial : Option AdjList := empty 1

/-- `impl Biclique for AdjacencyList` (355–380). -/
def biclique (m n : Nat) : Option AdjList :=
  if m = 0 then none else if n = 0 then none else
  let order := m + n
  let clique1 := ssetOf (rangeFT 0 m)
  let clique2 := ssetOf (rangeFT m order)
  some ⟨List.replicate m clique2 ++ List.replicate n clique1⟩
def claw : Option AdjList := biclique 1 3
def utility : Option AdjList := biclique 3 3

/-- `impl Circuit` (382–403): rows `(1..=order).map(|u| {u % order})`. -/
def circuit (n : Nat) : Option AdjList :=
  if n = 0 then none else if n = 1 then trivial else
  some ⟨(rangeFT 1 (n + 1)).map (fun u => ssetOf [u % n])⟩

/-- One worker of `complete`: rows of `start..end`, each `0..order` minus `u`. -/
def completeWorker (n : Nat) (r : Nat × Nat) : List (Nat × List Nat) :=
  let vertices := ssetOf (rangeFT 0 n)
  (rangeFT r.1 r.2).map (fun u => (u, serase u vertices))

/-- `impl Complete` (502–561) with `available_parallelism() = t`. -/
def complete (n t : Nat) : Option AdjList :=
  if n = 0 then none else if n = 1 then trivial else
  let t' := min n t
  let joined := ((Par.ranges n t').map (completeWorker n)).flatten
  some ⟨(sortByKey joined).map (·.2)⟩

/-- `impl Cycle` (600–623). -/
def cycle (n : Nat) : Option AdjList :=
  if n = 0 then none else if n = 1 then trivial else
  some ⟨(rangeFT 0 n).map (fun u => ssetOf [(u + n - 1) % n, (u + 1) % n])⟩

/-- `impl Path` (1111–1133). -/
def path (n : Nat) : Option AdjList :=
  if n = 0 then none else if n = 1 then trivial else
  some ⟨(rangeFT 0 (n - 1)).map (fun u => ssetOf [u + 1]) ++ [[]]⟩

/-- `impl Star` (1211–1233). -/
def star (n : Nat) : Option AdjList :=
  if n = 0 then none else if n = 1 then trivial else
  some ⟨ssetOf (rangeFT 1 n) :: (rangeFT 1 n).map (fun _ => ssetOf [0])⟩

/-- `impl Wheel` (1340–1364). -/
def wheel (n : Nat) : Option AdjList :=
  if ¬ n ≥ 4 then none else
  let last := n - 1
  some ⟨ssetOf (rangeFT 1 n) :: (rangeFT 1 n).map (fun u =>
    ssetOf [0, if u = 1 then last else u - 1, if u = last then 1 else u + 1])⟩
end AL

/-! ## AdjacencyMap (src/repr/adjacency_map/mod.rs) -/
namespace AM

def empty (n : Nat) : Option AdjMap := AdjMap.empty n
def trivial : Option AdjMap := empty 1

/-- `impl Biclique` (323–348): `repeat_n(c2, m).chain(repeat_n(c1, n)).enumerate().collect()`. -/
def biclique (m n : Nat) : Option AdjMap :=
  if m = 0 then none else if n = 0 then none else
  let order := m + n
  let clique1 := ssetOf (rangeFT 0 m)
  let clique2 := ssetOf (rangeFT m order)
  some ⟨mapOf ((List.replicate m clique2 ++ List.replicate n clique1).zipIdx.map (fun p => (p.2, p.1)))⟩
def claw : Option AdjMap := biclique 1 3
def utility : Option AdjMap := biclique 3 3

/-- `impl Circuit` (350–371). -/
def circuit (n : Nat) : Option AdjMap :=
  if n = 0 then none else if n = 1 then trivial else
  some ⟨mapOf ((rangeFT 0 n).map (fun u => (u, ssetOf [(u + 1) % n])))⟩

/-- `impl Complete` (373–395): sequential `insert(u, vertices − u)`. -/
def complete (n : Nat) : Option AdjMap :=
  if n = 0 then none else if n = 1 then trivial else
  let vertices := ssetOf (rangeFT 0 n)
  some ⟨(rangeFT 0 n).foldl (fun m u => minsert u (serase u vertices) m) []⟩

/-- `impl Cycle` (450–476). -/
def cycle (n : Nat) : Option AdjMap :=
  if n = 0 then none else if n = 1 then trivial else
  some ⟨mapOf ((rangeFT 0 n).map (fun u => (u, ssetOf [(u + n - 1) % n, (u + 1) % n])))⟩

/-- `impl Path` (953–978). -/
def path (n : Nat) : Option AdjMap :=
  if n = 0 then none else if n = 1 then trivial else
  let last := n - 1
  some ⟨mapOf ((rangeFT 0 last).map (fun u => (u, ssetOf [u + 1])) ++ [(last, [])])⟩

/-- `impl Star` (1081–1103). -/
def star (n : Nat) : Option AdjMap :=
  if n = 0 then none else if n = 1 then trivial else
  some ⟨mapOf ((0, ssetOf (rangeFT 1 n)) :: (rangeFT 1 n).map (fun u => (u, ssetOf [0])))⟩

/-- `impl Wheel` (1338–1360). -/
def wheel (n : Nat) : Option AdjMap :=
  if ¬ n ≥ 4 then none else
  let last := n - 1
  some ⟨mapOf ([(0, ssetOf (rangeFT 1 n)), (1, ssetOf [0, last, 2])] ++
    (rangeFT 2 last).map (fun u => (u, ssetOf [0, u - 1, u + 1])) ++
    [(last, ssetOf [0, n - 2, 1])])⟩
end AM

/-! ## AdjacencyMatrix (src/repr/adjacency_matrix/mod.rs): `empty` then `add_arc` in a loop -/
namespace MX

/-- `let mut d = Self::empty(order); for (u, v) in arcs { d.add_arc(u, v) }`. -/
def build (n : Nat) (arcs : List (Nat × Nat)) : Option AdjMatrix := do
  let e ← AdjMatrix.empty n
  arcs.foldlM (fun g a => g.addArc a.1 a.2) e

def empty (n : Nat) : Option AdjMatrix := AdjMatrix.empty n
def trivial : Option AdjMatrix := empty 1

/-- arcs added by `impl Biclique` (401–422), in call order. -/
def bicliqueArcs (m n : Nat) : List (Nat × Nat) :=
  (rangeFT 0 m).flatMap (fun u => (rangeFT m (m + n)).flatMap (fun v => [(u, v), (v, u)]))
def biclique (m n : Nat) : Option AdjMatrix :=
  if m = 0 then none else if n = 0 then none else build (m + n) (bicliqueArcs m n)
def claw : Option AdjMatrix := biclique 1 3
def utility : Option AdjMatrix := biclique 3 3

/-- `impl Circuit` (424–446): no own assert; `empty(0)` panics. -/
def circuitArcs (n : Nat) : List (Nat × Nat) :=
  (rangeFT 0 (n - 1)).map (fun u => (u, u + 1)) ++ [(n - 1, 0)]
def circuit (n : Nat) : Option AdjMatrix :=
  if n = 1 then trivial else build n (circuitArcs n)

/-- `impl Complete` (466–489). -/
def completeArcs (n : Nat) : List (Nat × Nat) :=
  (rangeFT 0 n).flatMap (fun u => (rangeFT (u + 1) n).flatMap (fun v => [(u, v), (v, u)]))
def complete (n : Nat) : Option AdjMatrix :=
  if n = 1 then trivial else build n (completeArcs n)

/-- `impl Cycle` (506–531). -/
def cycleArcs (n : Nat) : List (Nat × Nat) :=
  (rangeFT 0 (n - 1)).flatMap (fun u => [(u, u + 1), (u + 1, u)]) ++ [(n - 1, 0), (0, n - 1)]
def cycle (n : Nat) : Option AdjMatrix :=
  if n = 1 then trivial else build n (cycleArcs n)

/-- `impl Path` (829–849): `empty(order)` first, early return for order 1. -/
def pathArcs (n : Nat) : List (Nat × Nat) := (rangeFT 0 (n - 1)).map (fun u => (u, u + 1))
def path (n : Nat) : Option AdjMatrix := do
  let e ← AdjMatrix.empty n
  if n = 1 then pure e else (pathArcs n).foldlM (fun g a => g.addArc a.1 a.2) e

/-- `impl Star` (894–913). -/
def starArcs (n : Nat) : List (Nat × Nat) := (rangeFT 1 n).flatMap (fun u => [(u, 0), (0, u)])
def star (n : Nat) : Option AdjMatrix :=
  if n = 1 then trivial else build n (starArcs n)

/-- `impl Wheel` (936–966): rim `1..order-1`, closing arc, then the spokes. -/
def wheelArcs (n : Nat) : List (Nat × Nat) :=
  (rangeFT 1 (n - 1)).flatMap (fun u => [(u, u + 1), (u + 1, u)]) ++ [(n - 1, 1), (1, n - 1)] ++
  (rangeFT 1 n).flatMap (fun u => [(0, u), (u, 0)])
def wheel (n : Nat) : Option AdjMatrix :=
  if ¬ n ≥ 4 then none else build n (wheelArcs n)
end MX

/-! ## EdgeList (src/repr/edge_list/mod.rs) -/
namespace EL

def empty (n : Nat) : Option EdgeList := EdgeList.empty n
def trivial : Option EdgeList := empty 1

/-- `impl Biclique` (279–298). -/
def biclique (m n : Nat) : Option EdgeList :=
  if m = 0 then none else if n = 0 then none else
  let order := m + n
  some ⟨psetOf ((rangeFT 0 m).flatMap (fun u => (rangeFT m order).map (fun v => (u, v))) ++
                (rangeFT m order).flatMap (fun u => (rangeFT 0 m).map (fun v => (u, v)))), order⟩
def claw : Option EdgeList := biclique 1 3
def utility : Option EdgeList := biclique 3 3

/-- `impl Circuit` (300–316). -/
def circuit (n : Nat) : Option EdgeList :=
  if n = 0 then none else if n = 1 then trivial else
  some ⟨psetOf ((rangeFT 0 n).map (fun u => (u, (u + 1) % n))), n⟩

/-- `impl Complete` (334–353). -/
def complete (n : Nat) : Option EdgeList :=
  if n = 0 then none else if n = 1 then trivial else
  some ⟨psetOf ((rangeFT 0 n).flatMap (fun u => (rangeFT 0 u ++ rangeFT (u + 1) n).map (fun v => (u, v)))), n⟩

/-- `impl Cycle` (371–393). -/
def cycle (n : Nat) : Option EdgeList :=
  if n = 0 then none else if n = 1 then trivial else
  some ⟨psetOf ((rangeFT 0 n).flatMap (fun u => [(u + n - 1) % n, (u + 1) % n].map (fun v => (u, v)))), n⟩

/-- `impl Path` (674–690). -/
def path (n : Nat) : Option EdgeList :=
  if n = 0 then none else if n = 1 then trivial else
  some ⟨psetOf ((rangeFT 0 (n - 1)).map (fun u => (u, u + 1))), n⟩

/-- `impl Star` (730–748). -/
def star (n : Nat) : Option EdgeList :=
  if n = 0 then none else if n = 1 then trivial else
  some ⟨psetOf ((rangeFT 1 n).map (fun v => (0, v)) ++ (rangeFT 1 n).map (fun u => (u, 0))), n⟩

/-- `impl Wheel` (773–793). -/
def wheel (n : Nat) : Option EdgeList :=
  if ¬ n ≥ 4 then none else
  let last := n - 1
  some ⟨psetOf ((rangeFT 1 n).map (fun v => (0, v)) ++
    (rangeFT 1 n).flatMap (fun u =>
      [0, if u = 1 then last else u - 1, if u = last then 1 else u + 1].map (fun v => (u, v)))), n⟩
end EL

/-! ## AdjacencyListWeighted<W>: `Empty` only (152–166) -/
namespace WL
def empty (n : Nat) : Option AdjListW := AdjListW.empty n
def trivial : Option AdjListW := empty 1
end WL

end GraafVerif.Gen
