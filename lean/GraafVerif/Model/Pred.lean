import GraafVerif.Model.Query
/-!
# C12 — models of the structural predicates of graaf

Per representation as coded (`src/repr/*/mod.rs`): `is_complete`, `is_semicomplete`,
`is_tournament`, `is_simple`; generically over `Query.Core` (`src/op/*.rs` blanket impls and
the five identical `is_regular` bodies): `isRegular`, `isBalanced`, `isSymmetric`,
`isOriented`, `isSubdigraph`, `isSuperdigraph`, `isSpanningSubdigraph`.
`none` = the call panics.

`AdjacencyList::is_semicomplete` fans out over `t` threads that share one `AtomicBool`:
* `AL.isSemicomplete d t` is the *functional* model (a worker's verdict = "my rows contain no
  missing pair"; the flag at the end = conjunction of the verdicts);
* `AL.Sched` is the labelled-transition model with the shared flag and the two early-exit
  loads (every interleaving of worker steps); `Proof/Pred*.lean` relate both to the definition.
-/
namespace GraafVerif.Pred
open GraafVerif.Repr GraafVerif.Query

/-- `Iterator::all` over a closure that may panic: stops at the first `false`. -/
def allO {α : Type} (f : α → Option Bool) : List α → Option Bool
  | [] => some true
  | a :: as =>
    match f a with
    | none => none
    | some false => some false
    | some true => allO f as

/-- `(u + 1..order)` -/
def above (u order : Nat) : List Nat := List.range' (u + 1) (order - (u + 1))

/-! ## Blanket impls (`src/op/`) and `is_regular` (same body in all five representations) -/
namespace Blanket
variable (q : Core)

/-- `is_regular`: `let (u, v) = semidegrees.next().expect(…); u == v && semidegrees.all(|(x, y)| x == u && y == v)` -/
def isRegular : Option Bool :=
  match q.semidegreeSequence with
  | none => none
  | some [] => none
  | some ((u, v) :: rest) => some (u == v && rest.all (fun p => p.1 == u && p.2 == v))

/-- `op/is_balanced.rs:79` -/
def isBalanced : Option Bool :=
  allO (fun u =>
    match q.indegree u with
    | none => none
    | some i =>
      match q.outdegree u with
      | none => none
      | some o => some (i == o)) q.vertices

/-- `op/is_symmetric.rs:76` -/
def isSymmetric : Bool := q.arcs.all (fun a => q.hasArc a.2 a.1)
/-- `op/is_oriented.rs:47` -/
def isOriented : Bool := q.arcs.all (fun a => !q.hasArc a.2 a.1)
end Blanket

/-- `op/is_subdigraph.rs:239` (`hv`, `dv`: the vertex iterators collected into `BTreeSet`s). -/
def Blanket.isSubdigraph (h d : Core) : Bool :=
  h.arcs.all (fun a => d.hasArc a.1 a.2 && h.vertices.contains a.1 && h.vertices.contains a.2)
    && h.vertices.all (fun u => d.vertices.contains u)
/-- `op/is_superdigraph.rs:101` -/
def Blanket.isSuperdigraph (h d : Core) : Bool := Blanket.isSubdigraph d h
/-- `op/is_spanning_subdigraph.rs:270` -/
def Blanket.isSpanningSubdigraph (h d : Core) : Bool :=
  h.vertices == d.vertices && h.arcs.all (fun a => d.hasArc a.1 a.2)

/-! ## AdjacencyList -/
namespace AL
def row (d : AdjList) (u : Nat) : List Nat := d.rows[u]?.getD []
/-- `:920` -/
def isComplete (d : AdjList) : Bool := d.rows.all (fun r => r.length == d.order - 1)
/-- `:1013` -/
def isSimple (d : AdjList) : Bool := d.rows.zipIdx.all (fun p => !p.1.contains p.2)
/-- `:1028` -/
def isTournament (d : AdjList) : Bool :=
  if d.size != d.order * (d.order - 1) / 2 then false
  else (List.range d.order).all (fun u =>
    (above u d.order).all (fun v => !((row d u).contains v == (row d v).contains u)))

/-- the pair test of `:990` (negated): at least one of `u → v`, `v → u` is present -/
def pairOk (d : AdjList) (u v : Nat) : Bool := (row d u).contains v || (row d v).contains u
def rowOk (d : AdjList) (u : Nat) : Bool := (above u d.order).all (pairOk d u)
/-- Sequential skeleton of the pair scan: what one thread would compute. -/
def scanSeq (d : AdjList) : Bool := (List.range d.order).all (rowOk d)
/-- One worker on rows `start..end`, never disturbed by the others. -/
def scanChunk (d : AdjList) (r : Nat × Nat) : Bool := (List.range' r.1 (r.2 - r.1)).all (rowOk d)
/-- `:952–1006` with `t = available_parallelism()`. -/
def isSemicomplete (d : AdjList) (t : Nat) : Bool :=
  if d.order == 1 then true
  else if d.size < d.order * (d.order - 1) / 2 then false
  else (Par.ranges d.order t).all (scanChunk d)

/-! ### Labelled transition system of the threaded scan (shared `AtomicBool`)

A worker is at `(u, v)`: the next thing it does is *load* the flag (the load at `:977` when
`v = none`, the one at `:982` when `v = some _`), then test the pair / advance.  One `step`
of worker `k` = one iteration of whichever loop it is in (load; break if the flag is down;
otherwise test one pair, possibly storing `false`).  A schedule is the list of worker indices
that take the successive steps. -/
structure Worker where
  /-- current row, rows `u..stop` remain -/
  u : Nat
  stop : Nat
  /-- `none`: at the head of the outer loop; `some v`: inside the inner loop, `v` is next -/
  v : Option Nat
  done : Bool := false
  deriving DecidableEq, Repr

structure State where
  flag : Bool
  workers : List Worker
  deriving DecidableEq, Repr

def initState (d : AdjList) (t : Nat) : State :=
  ⟨true, (Par.ranges d.order t).map (fun r => ⟨r.1, r.2, none, false⟩)⟩

/-- One step of one worker against the shared flag; returns the new flag and worker. -/
def stepWorker (d : AdjList) (flag : Bool) (w : Worker) : Bool × Worker :=
  if w.done then (flag, w)
  else match w.v with
    | none =>
      -- head of `for u in start..end`
      if w.u ≥ w.stop then (flag, { w with done := true })
      else if !flag then (flag, { w with done := true })            -- `:977` break
      else (flag, { w with v := some (w.u + 1) })
    | some v =>
      -- head of `for v in (u + 1)..order`
      if v ≥ d.order then (flag, { w with u := w.u + 1, v := none })
      else if !flag then (flag, { w with u := w.u + 1, v := none })  -- `:982` break (inner)
      else if !pairOk d w.u v then (false, { w with u := w.u + 1, v := none })  -- store false; break
      else (flag, { w with v := some (v + 1) })

def step (d : AdjList) (s : State) (k : Nat) : State :=
  match s.workers[k]? with
  | none => s
  | some w =>
    let r := stepWorker d s.flag w
    ⟨r.1, s.workers.set k r.2⟩

def run (d : AdjList) (s : State) (sched : List Nat) : State := sched.foldl (step d) s
def terminal (s : State) : Bool := s.workers.all (·.done)

/-- `is_semicomplete` under a given schedule (`none` = the schedule ends before every worker has). -/
def isSemicompleteSched (d : AdjList) (t : Nat) (sched : List Nat) : Option Bool :=
  if d.order == 1 then some true
  else if d.size < d.order * (d.order - 1) / 2 then some false
  else
    let s := run d (initState d t) sched
    if terminal s then some s.flag else none
end AL

/-! ## AdjacencyMap -/
namespace AM
/-- `:801` -/
def isComplete (d : AdjMap) : Bool := d.rows.all (fun r => r.2.length == d.order - 1)
/-- `:839` (rows looked up by key, after the `fix:`) -/
def isSemicomplete (d : AdjMap) : Bool :=
  if d.size < d.order * (d.order - 1) / 2 then false
  else d.rows.all (fun a => d.rows.all (fun b =>
    !(a.1 != b.1 && !a.2.contains b.1 && !b.2.contains a.1)))
/-- `:862` -/
def isSimple (d : AdjMap) : Bool := d.rows.all (fun r => !r.2.contains r.1)
/-- `:875` -/
def isTournament (d : AdjMap) : Bool :=
  if d.size != d.order * (d.order - 1) / 2 then false
  else d.rows.all (fun a => d.rows.all (fun b =>
    !(a.1 != b.1 && (a.2.contains b.1 == b.2.contains a.1))))
end AM

/-! ## AdjacencyMatrix -/
namespace MX
/-- `Complete::complete` `:470`: `trivial()` for order 1, else `empty` + both arcs of every pair. -/
def complete (n : Nat) : Option AdjMatrix :=
  if n == 1 then AdjMatrix.empty 1
  else do
    let e ← AdjMatrix.empty n
    (List.range n).foldlM (fun g u =>
      (above u n).foldlM (fun g v => do
        let g ← g.addArc u v
        g.addArc v u) g) e
/-- `:737` `*self == Self::complete(self.order())` (derived `PartialEq`: blocks, order). -/
def isComplete (d : AdjMatrix) : Option Bool := (complete d.order).map (fun c => d == c)
/-- `:755` -/
def isSemicomplete (d : AdjMatrix) : Bool :=
  decide (d.size ≥ d.order * (d.order - 1) / 2) &&
    (List.range d.order).all (fun u => (above u d.order).all (fun v => d.hasArc u v || d.hasArc v u))
/-- `:769` -/
def isSimple (d : AdjMatrix) : Bool := d.vertices.all (fun u => !d.hasArc u u)
/-- `:775` -/
def isTournament (d : AdjMatrix) : Bool :=
  if d.size != d.order * (d.order - 1) / 2 then false
  else (List.range d.order).all (fun u => (above u d.order).all (fun v => d.hasArc u v != d.hasArc v u))
end MX

/-! ## EdgeList -/
namespace EL
/-- `Complete::complete` `:338`: the pairs `(u, v)`, `v ≠ u`, generated in lexicographic order and
collected into the `BTreeSet` (an ascending duplicate-free sequence collects to itself). -/
def complete (n : Nat) : Option EdgeList :=
  if n == 0 then none
  else if n == 1 then EdgeList.empty 1
  else some ⟨(List.range n).flatMap (fun u => ((List.range u) ++ above u n).map (fun v => (u, v))), n⟩
/-- `:581` -/
def isComplete (d : EdgeList) : Option Bool := (complete d.order).map (fun c => d == c)
def isSemicomplete (d : EdgeList) : Bool :=
  decide (d.size ≥ d.order * (d.order - 1) / 2) &&
    (List.range d.order).all (fun u => (above u d.order).all (fun v => d.hasArc u v || d.hasArc v u))
def isSimple (d : EdgeList) : Bool := d.vertices.all (fun u => !d.hasArc u u)
def isTournament (d : EdgeList) : Bool :=
  if d.size != d.order * (d.order - 1) / 2 then false
  else (List.range d.order).all (fun u => (above u d.order).all (fun v => d.hasArc u v != d.hasArc v u))
end EL

/-! ## AdjacencyListWeighted -/
namespace WL
/-- `:289` -/
def isComplete (d : AdjListW) : Bool :=
  d.size == d.order * (d.order - 1) &&
    (List.range d.order).all (fun u => (above u d.order).all (fun v => Query.WL.hasEdge d u v))
def isSemicomplete (d : AdjListW) : Bool :=
  decide (d.size ≥ d.order * (d.order - 1) / 2) &&
    (List.range d.order).all (fun u => (above u d.order).all (fun v => d.hasArc u v || d.hasArc v u))
/-- `:322` -/
def isSimple (d : AdjListW) : Bool := d.rows.zipIdx.all (fun p => !(mget p.2 p.1).isSome)
def isTournament (d : AdjListW) : Bool :=
  if d.size != d.order * (d.order - 1) / 2 then false
  else (List.range d.order).all (fun u => (above u d.order).all (fun v => d.hasArc u v != d.hasArc v u))
end WL

end GraafVerif.Pred
