import GraafVerif.Model.AlgoGen4
import GraafVerif.Model.AlgoGen
import GraafVerif.Model.ReprEqMxIter
/-!
# Runtime of the translator, fifth part (`Model/AlgoGen5.lean`)

* a `usize` that is used as a word of bits (the blocks of `AdjacencyMatrix`, `mask`, `current_bits`) is `BitVec 64`
  (usize is 64 bit): `^ | &` are `^^^ ||| &&&`, `1 << k` is `1#64 <<< k`, `x - 1` is the `BitVec` subtraction,
  `x.trailing_zeros()` is `tz x` (index of the lowest set bit, 64 for 0 — the hand-written definition);
  on an INDEX `i >> 6` is `i / 64` and `i & 63` is `i % 64`.
* a moving raw pointer into a slice (`let mut p = w.as_ptr(); .. p = p.add(1); while p < end`) is its offset.
* `Vec::with_capacity(n)` + `as_mut_ptr` + `ptr::write(p.add(i), x)` + `set_len(k)`: the buffer is a list of `n` slots
  (`none` = not yet written); a write outside the `n` slots is `ub`; `set_len(k)` with `k > n` is `ub`; when the vector
  is used as a value (`bufFreeze`) every slot below the length must have been written, else `ub` (reading an
  uninitialised element) — then it is the list of the written values.  (TRUSTED: the capacity is exactly `n`; a
  `set_len` before the writes is allowed as long as nothing reads the vector in between.)
-/
namespace GraafVerif.AlgoGen
variable {β ρ : Type}

/-- `usize::trailing_zeros` (the definition of `Model/ReprEqMxIter.lean`) -/
abbrev tz (x : BitVec 64) : Nat := GraafVerif.Repr.AdjMatrix.tz x

/-- `a.checked_mul(b).expect(..)` on a 64-bit `usize` -/
def mulP (a b : Nat) : Blk β ρ Nat := if a * b > 2 ^ 64 - 1 then panic else .ok (a * b)

/-- `v.set_len(k)`: undefined behaviour beyond the capacity -/
def setLenU (site : String) (cap k : Nat) : Blk β ρ Nat := if k ≤ cap then .ok k else .error (.err (.fault (.ub site)))

/-- the raw-initialised vector as a value: all `len` slots written -/
def bufFreeze {α : Type} (site : String) (slots : List (Option α)) (len : Nat) : Blk β ρ (List α) :=
  if len ≤ slots.length ∧ (slots.take len).all Option.isSome then .ok ((slots.take len).filterMap id)
  else .error (.err (.fault (.ub site)))

/-- `&mut v[i]` as the position of the element (checked indexing: panic out of bounds) -/
def idxPos {α : Type} (l : List α) (i : Nat) : Blk β ρ Nat := if i < l.length then .ok i else panic

end GraafVerif.AlgoGen
