import GraafVerif.Model.Repr
import GraafVerif.Model.Par
/-!
# C02 — models of the read-only queries of graaf

A query that panics for some argument (documented `# Panics`) returns `none` on it.

* `Core` is the record of queries every representation implements itself
  (`src/repr/*/mod.rs`); one instance per representation: `AL.core`, `AM.core`, `MX.core`,
  `EL.core`, `WL.core`.
* The *derived* queries are written ONCE, generically over `Core`, mirroring the blanket
  impls and the default trait methods of `src/op/*.rs`:

| model                     | Rust                                                                   |
|---------------------------|------------------------------------------------------------------------|
| `degree`                  | `op/degree.rs:153`  `indegree(u) + outdegree(u)`                        |
| `isIsolated`              | `op/is_isolated.rs:67` `is_sink(u) && is_source(u)`                     |
| `isPendant`               | `op/is_pendant.rs:68` `degree(u) == 1`                                  |
| `sinks` / `sources`       | `op/sinks.rs:59`, `op/sources.rs:59` `vertices().filter(is_sink/…)`     |
| `outdegreeSequence`       | `op/outdegree_sequence.rs:59` `vertices().map(outdegree)`               |
| `semidegreeSequence`      | `op/semidegree_sequence.rs:60`                                          |
| `max/minDegree`           | `op/degree.rs:104,141` `vertices().map(degree).max().unwrap_or(0)`      |
| `max/minIndegree`         | `op/indegree.rs:123,160`                                                |
| `max/minOutdegree`        | `op/outdegree.rs:125,165`                                               |
| `indegreeSequenceDefault` | `vertices().map(indegree)` (map, matrix, edge list, weighted list)      |
| `degreeSequenceDefault`   | `vertices().map(degree)`   (map, matrix, edge list, weighted list)      |
-/
namespace GraafVerif.Query
open GraafVerif.Repr

/-! ## Option-valued list combinators (a panic inside an iterator chain aborts the chain) -/

def mapO {α β : Type} (f : α → Option β) : List α → Option (List β)
  | [] => some []
  | a :: as =>
    match f a with
    | none => none
    | some b =>
      match mapO f as with
      | none => none
      | some bs => some (b :: bs)

def filterO {α : Type} (f : α → Option Bool) : List α → Option (List α)
  | [] => some []
  | a :: as =>
    match f a with
    | none => none
    | some b =>
      match filterO f as with
      | none => none
      | some bs => some (if b then a :: bs else bs)

/-- `Iterator::max().unwrap_or(0)` / `min().unwrap_or(0)`. -/
def maxOr0 : List Nat → Nat
  | [] => 0
  | x :: xs => xs.foldl max x
def minOr0 : List Nat → Nat
  | [] => 0
  | x :: xs => xs.foldl min x

/-! ## `has_walk`: the two coded forms -/

/-- The raw-pointer loop of `AdjacencyList` / `AdjacencyMap` (`while ptr < end { u = *ptr; v = *ptr.add(1); … }`). -/
def walkLoop (has : Nat → Nat → Bool) : List Nat → Bool
  | u :: v :: rest => if !has u v then false else walkLoop has (v :: rest)
  | _ => true
def hasWalkPtr (has : Nat → Nat → Bool) (w : List Nat) : Bool :=
  if w.length ≤ 1 then false else walkLoop has w
/-- `walk.len() > 1 && walk.iter().zip(walk.iter().skip(1)).all(|(&u, &v)| self.has_arc(u, v))`. -/
def hasWalkZip (has : Nat → Nat → Bool) (w : List Nat) : Bool :=
  decide (w.length > 1) && (w.zip (w.drop 1)).all (fun p => has p.1 p.2)

/-! ## The record of per-representation queries -/

structure Core where
  order : Nat
  vertices : List Nat
  arcs : List (Nat × Nat)
  size : Nat
  hasArc : Nat → Nat → Bool
  hasEdge : Nat → Nat → Bool
  hasWalk : List Nat → Bool
  outNeighbors : Nat → Option (List Nat)
  inNeighbors : Nat → List Nat
  indegree : Nat → Option Nat
  isSource : Nat → Bool
  outdegree : Nat → Option Nat
  isSink : Nat → Option Bool
  indegreeSequence : Option (List Nat)
  /-- argument: the thread count `available_parallelism()` -/
  degreeSequence : Nat → Option (List Nat)

/-! ## Derived queries (blanket impls) -/
namespace Core
variable (q : Core)

def degree (u : Nat) : Option Nat :=
  match q.indegree u with
  | none => none
  | some i =>
    match q.outdegree u with
    | none => none
    | some o => some (i + o)

def isIsolated (u : Nat) : Option Bool :=
  match q.isSink u with
  | none => none
  | some s => some (s && q.isSource u)

def isPendant (u : Nat) : Option Bool := (q.degree u).map (· == 1)
def sinks : Option (List Nat) := filterO q.isSink q.vertices
def sources : List Nat := q.vertices.filter q.isSource
def outdegreeSequence : Option (List Nat) := mapO q.outdegree q.vertices
def semidegreeSequence : Option (List (Nat × Nat)) :=
  mapO (fun u =>
    match q.indegree u with
    | none => none
    | some i =>
      match q.outdegree u with
      | none => none
      | some o => some (i, o)) q.vertices
def maxDegree : Option Nat := (mapO q.degree q.vertices).map maxOr0
def minDegree : Option Nat := (mapO q.degree q.vertices).map minOr0
def maxIndegree : Option Nat := (mapO q.indegree q.vertices).map maxOr0
def minIndegree : Option Nat := (mapO q.indegree q.vertices).map minOr0
def maxOutdegree : Option Nat := (mapO q.outdegree q.vertices).map maxOr0
def minOutdegree : Option Nat := (mapO q.outdegree q.vertices).map minOr0
end Core

/-- `self.vertices().map(move |v| self.indegree(v))`. -/
def indegreeSequenceDefault (vertices : List Nat) (indegree : Nat → Option Nat) : Option (List Nat) :=
  mapO indegree vertices
/-- `self.vertices().map(move |v| self.degree(v))` with the blanket `degree`. -/
def degreeSequenceDefault (vertices : List Nat) (indegree outdegree : Nat → Option Nat) : Option (List Nat) :=
  mapO (fun u =>
    match indegree u with
    | none => none
    | some i =>
      match outdegree u with
      | none => none
      | some o => some (i + o)) vertices

/-! ## AdjacencyList (`src/repr/adjacency_list/mod.rs`) -/
namespace AL

/-- `*ptr.add(v) += 1` on a histogram (`v < order` by the representation invariant). -/
def bump (h : List Nat) (v : Nat) : List Nat := h.set v (h[v]?.getD 0 + 1)
/-- `for set in rows { for &v in set { hist[v] += 1 } }`. -/
def histogram (rows : List (List Nat)) (init : List Nat) : List Nat :=
  rows.foldl (fun h row => row.foldl bump h) init
def addVec (a b : List Nat) : List Nat := List.zipWith (· + ·) a b

/-- `:788` -/
def hasEdge (d : AdjList) (u v : Nat) : Bool := d.hasArc u v && d.hasArc v u
/-- `:797` -/
def hasWalk (d : AdjList) (w : List Nat) : Bool := hasWalkPtr d.hasArc w
/-- `:832` `assert!(v < order)`; `self.arcs.iter().filter(|set| set.contains(&v)).count()`. -/
def indegree (d : AdjList) (v : Nat) : Option Nat :=
  if v < d.order then some ((d.rows.filter (fun row => row.contains v)).length) else none
/-- `:841` -/
def isSource (d : AdjList) (v : Nat) : Bool := d.rows.all (fun row => !row.contains v)
/-- `:851` histogram fold. -/
def indegreeSequence (d : AdjList) : List Nat := histogram d.rows (List.replicate d.order 0)
/-- `:878–913` `InNeighborsIterator`: indices of the rows that contain `v`, ascending. -/
def inNeighbors (d : AdjList) (v : Nat) : List Nat :=
  (d.rows.zipIdx.filter (fun p => p.1.contains v)).map (·.2)
/-- `:1085` -/
def outdegree (d : AdjList) (u : Nat) : Option Nat := (d.rows[u]?).map List.length
/-- `:1101` -/
def isSink (d : AdjList) (u : Nat) : Option Bool := (d.rows[u]?).map List.isEmpty

/-- `:631–664` `degree_sequence` with `t` worker threads: `rows.chunks(chunk)` zipped with `t`
zeroed histograms; each worker fills its own histogram; the histograms are summed in order;
then `indegrees[u] + rows[u].len()`. -/
def degreeSequence (d : AdjList) (t : Nat) : List Nat :=
  let order := d.order
  let zeros := List.replicate order 0
  let chunks := Par.ranges order t
  let locals := chunks.map (fun r => histogram ((d.rows.drop r.1).take (r.2 - r.1)) zeros)
  let locals := locals ++ List.replicate (t - chunks.length) zeros
  let indeg := locals.foldl addVec zeros
  (List.range order).map (fun u => indeg[u]?.getD 0 + (d.rows[u]?.getD []).length)

def core (d : AdjList) : Core where
  order := d.order
  vertices := d.vertices
  arcs := d.arcs
  size := d.size
  hasArc := d.hasArc
  hasEdge := hasEdge d
  hasWalk := hasWalk d
  outNeighbors := d.outNeighbors
  inNeighbors := inNeighbors d
  indegree := indegree d
  isSource := isSource d
  outdegree := outdegree d
  isSink := isSink d
  indegreeSequence := some (indegreeSequence d)
  degreeSequence := fun t => some (degreeSequence d t)
end AL

/-! ## AdjacencyMap (`src/repr/adjacency_map/mod.rs`) -/
namespace AM
def hasEdge (d : AdjMap) (u v : Nat) : Bool := d.hasArc u v && d.hasArc v u
def hasWalk (d : AdjMap) (w : List Nat) : Bool := hasWalkPtr d.hasArc w
/-- `:761` `assert!(contains_key(v))`; `values().filter(|set| set.contains(&v)).count()`. -/
def indegree (d : AdjMap) (v : Nat) : Option Nat :=
  if (mget v d.rows).isSome then some ((d.rows.filter (fun r => r.2.contains v)).length) else none
def isSource (d : AdjMap) (v : Nat) : Bool := d.rows.all (fun r => !r.2.contains v)
/-- `:790` -/
def inNeighbors (d : AdjMap) (v : Nat) : List Nat :=
  d.rows.filterMap (fun r => if r.2.contains v then some r.1 else none)
/-- `:912` -/
def outNeighbors (d : AdjMap) (u : Nat) : Option (List Nat) := mget u d.rows
def outdegree (d : AdjMap) (u : Nat) : Option Nat := (mget u d.rows).map List.length
def isSink (d : AdjMap) (u : Nat) : Option Bool := (mget u d.rows).map List.isEmpty

def core (d : AdjMap) : Core where
  order := d.order
  vertices := d.vertices
  arcs := d.arcs
  size := d.size
  hasArc := d.hasArc
  hasEdge := hasEdge d
  hasWalk := hasWalk d
  outNeighbors := outNeighbors d
  inNeighbors := inNeighbors d
  indegree := indegree d
  isSource := isSource d
  outdegree := outdegree d
  isSink := isSink d
  indegreeSequence := indegreeSequenceDefault d.vertices (indegree d)
  degreeSequence := fun _ => degreeSequenceDefault d.vertices (indegree d) (outdegree d)
end AM

/-! ## AdjacencyMatrix (`src/repr/adjacency_matrix/mod.rs`) -/
namespace MX
def hasEdge (d : AdjMatrix) (u v : Nat) : Bool := d.hasArc u v && d.hasArc v u
def hasWalk (d : AdjMatrix) (w : List Nat) : Bool := hasWalkZip d.hasArc w
/-- `:713` column scan. -/
def indegree (d : AdjMatrix) (v : Nat) : Option Nat :=
  if v < d.order then some ((d.vertices.filter (fun u => d.hasArc u v)).length) else none
def isSource (d : AdjMatrix) (v : Nat) : Bool := d.vertices.all (fun u => !d.hasArc u v)
/-- `:731` `self.arcs().filter_map(move |(x, y)| (v == y).then_some(x))`. -/
def inNeighbors (d : AdjMatrix) (v : Nat) : List Nat :=
  d.arcs.filterMap (fun a => if v == a.2 then some a.1 else none)
/-- `:802` -/
def outNeighbors (d : AdjMatrix) (u : Nat) : Option (List Nat) :=
  if u < d.order then some (d.vertices.filter (fun v => d.hasArc u v)) else none
def outdegree (d : AdjMatrix) (u : Nat) : Option Nat :=
  if u < d.order then some ((d.vertices.filter (fun v => d.hasArc u v)).length) else none
def isSink (d : AdjMatrix) (u : Nat) : Option Bool :=
  if u < d.order then some (d.vertices.all (fun v => !d.hasArc u v)) else none

def core (d : AdjMatrix) : Core where
  order := d.order
  vertices := d.vertices
  arcs := d.arcs
  size := d.size
  hasArc := d.hasArc
  hasEdge := hasEdge d
  hasWalk := hasWalk d
  outNeighbors := outNeighbors d
  inNeighbors := inNeighbors d
  indegree := indegree d
  isSource := isSource d
  outdegree := outdegree d
  isSink := isSink d
  indegreeSequence := indegreeSequenceDefault d.vertices (indegree d)
  degreeSequence := fun _ => degreeSequenceDefault d.vertices (indegree d) (outdegree d)
end MX

/-! ## EdgeList (`src/repr/edge_list/mod.rs`) -/
namespace EL
def hasEdge (d : EdgeList) (u v : Nat) : Bool := d.hasArc u v && d.hasArc v u
def hasWalk (d : EdgeList) (w : List Nat) : Bool := hasWalkZip d.hasArc w
/-- `:557` -/
def indegree (d : EdgeList) (v : Nat) : Option Nat :=
  if v < d.order then some ((d.arcs.filter (fun a => v == a.2)).length) else none
def isSource (d : EdgeList) (v : Nat) : Bool := d.arcs.all (fun a => a.2 != v)
def inNeighbors (d : EdgeList) (v : Nat) : List Nat :=
  d.arcs.filterMap (fun a => if v == a.2 then some a.1 else none)
/-- `:645` -/
def outNeighbors (d : EdgeList) (u : Nat) : Option (List Nat) :=
  if u < d.order then some (d.arcs.filterMap (fun a => if a.1 == u then some a.2 else none)) else none
def outdegree (d : EdgeList) (u : Nat) : Option Nat :=
  if u < d.order then some ((d.arcs.filter (fun a => u == a.1)).length) else none
def isSink (d : EdgeList) (u : Nat) : Option Bool :=
  if u < d.order then some (d.arcs.all (fun a => a.1 != u)) else none

def core (d : EdgeList) : Core where
  order := d.order
  vertices := d.vertices
  arcs := d.arcs
  size := d.size
  hasArc := d.hasArc
  hasEdge := hasEdge d
  hasWalk := hasWalk d
  outNeighbors := outNeighbors d
  inNeighbors := inNeighbors d
  indegree := indegree d
  isSource := isSource d
  outdegree := outdegree d
  isSink := isSink d
  indegreeSequence := indegreeSequenceDefault d.vertices (indegree d)
  degreeSequence := fun _ => degreeSequenceDefault d.vertices (indegree d) (outdegree d)
end EL

/-! ## AdjacencyListWeighted (`src/repr/adjacency_list_weighted/mod.rs`) -/
namespace WL
def hasEdge (d : AdjListW) (u v : Nat) : Bool := d.hasArc u v && d.hasArc v u
def hasWalk (d : AdjListW) (w : List Nat) : Bool := hasWalkZip d.hasArc w
/-- `:259` -/
def indegree (d : AdjListW) (v : Nat) : Option Nat :=
  if v < d.order then some ((d.rows.filter (fun row => (mget v row).isSome)).length) else none
def isSource (d : AdjListW) (v : Nat) : Bool := d.rows.all (fun row => !(mget v row).isSome)
/-- `:280` -/
def inNeighbors (d : AdjListW) (v : Nat) : List Nat :=
  d.rows.zipIdx.filterMap (fun p => if (mget v p.1).isSome then some p.2 else none)
/-- `:348` `self.arcs[u].keys()` (index panic). -/
def outNeighbors (d : AdjListW) (u : Nat) : Option (List Nat) := (d.rows[u]?).map (fun row => row.map (·.1))
/-- `:359` -/
def outNeighborsWeighted (d : AdjListW) (u : Nat) : Option (List (Nat × Int)) := d.rows[u]?
def outdegree (d : AdjListW) (u : Nat) : Option Nat := (d.rows[u]?).map List.length
def isSink (d : AdjListW) (u : Nat) : Option Bool := (d.rows[u]?).map List.isEmpty

def core (d : AdjListW) : Core where
  order := d.order
  vertices := d.vertices
  arcs := d.arcs
  size := d.size
  hasArc := d.hasArc
  hasEdge := hasEdge d
  hasWalk := hasWalk d
  outNeighbors := outNeighbors d
  inNeighbors := inNeighbors d
  indegree := indegree d
  isSource := isSource d
  outdegree := outdegree d
  isSink := isSink d
  indegreeSequence := indegreeSequenceDefault d.vertices (indegree d)
  degreeSequence := fun _ => degreeSequenceDefault d.vertices (indegree d) (outdegree d)
end WL

end GraafVerif.Query
