import GraafVerif.Model.AlgoGenRt2
import GraafVerif.Model.Rand
import GraafVerif.Model.Ops
/-!
# Runtime of the translator, third part (`Model/AlgoGen3.lean`): `u64`, doubles, PRNG draws

* `u64` is `UInt64`: `wrapping_add` / `wrapping_mul` are `+` / `*`, `^ & | << >>` are
  `^^^ &&& ||| <<< >>>`, `rotate_left(k)` is the hand-written `Rand.rotl` (`0 < k < 64`);
  plain `+ - *` on `u64` (overflow panics in the dev profile) are outside the subset.
* `f64::from_bits(b) - 1.0` is `f64UnitOfBits b` (it checks that `b >>> 52 = 1023`): for a word with sign 0 and exponent 1023 the
  double `from_bits(b)` is `1 + m / 2^52` (`m` = the 52 mantissa bits) and subtracting `1.0` from a
  double in `[1, 2)` is exact, so the result is exactly `m / 2^52`; it is REPRESENTED by `m`
  (TRUSTED: `f64::from_bits`, exactness of the subtraction — DESIGN.md §4.3; Lean's `Float` is not used).
* an `f64` parameter `p` is the decoded double `Rand.F64` of the hand-written model;
  `x < p` for such an `x = m / 2^52` is `f64ltM m p` (= `Rand.f64lt`, TRUSTED reading of the IEEE `<`).
* std collections in the sequential operations (C11): `collect::<BTreeSet<_>>()` / `BTreeMap` is the
  hand-written `Ops.toSet` / `Ops.toPSet` / `Ops.toMap` (insert the items in order; `collect` of an
  `enumerate()` into a `BTreeMap` is the list itself: keys `0, 1, ..` ascending); iterating a set or a
  map is iterating its ascending list; `a.difference(&b)` is `a.filter (!b.contains ·)`;
  `m.entry(k).or_default()[.insert(x)]` is `Repr.mupsert k [] id | (sinsert x)`; `rows[i].insert(k, x)`
  is checked indexing (`idx`: panic) followed by `Ops.minsert`; `set.remove(x)` is `Repr.serase`.
-/
namespace GraafVerif.AlgoGen

/-- the double `from_bits(b) - 1.0` as its mantissa bits, for `b` with sign 0 and exponent 1023 (then
`from_bits(b) ∈ [1, 2)` and the subtraction is exact).  Any other bit pattern is OUTSIDE THE MODELLED
FRAGMENT of `f64` (this is not a statement about the Rust code): the marker fault below makes every
equality theorem about code that produces such a pattern fail. -/
def f64UnitOfBits {β ρ : Type} (b : UInt64) : Blk β ρ Nat :=
  if b >>> 52 = 1023 then .ok (b &&& 0xFFFFFFFFFFFFF).toNat
  else .error (.err (.fault (.ub "NOT MODELLED: f64::from_bits(b) - 1.0 for b outside [1.0, 2.0)")))

/-- `m / 2^52 < p` (exact) -/
def f64ltM (m : Nat) (p : Rand.F64) : Bool :=
  match p with
  | .fin num => decide (((m : Nat) : Int) * 2^1022 < num)
  | .inf neg => !neg
  | .nan => false

/-- `o.unwrap_unchecked()`: `None` is undefined behaviour -/
def unwrapU {β ρ α : Type} (site : String) : Option α → Blk β ρ α
  | some a => .ok a
  | none => .error (.err (.fault (.ub site)))

/-- `a % b` on `usize`: panics for a zero divisor -/
def modP {β ρ : Type} (a b : Nat) : Blk β ρ Nat := if b = 0 then panic else .ok (a % b)

end GraafVerif.AlgoGen
