import GraafVerif.Model.Chk
/-!
# `Chk` model of `AdjacencyMatrix` index arithmetic (src/repr/adjacency_matrix/mod.rs)

`blocks : Vec<usize>` is a list of 64-bit words (as `Nat`), `index(u, v) = u * order + v`,
block `i >> 6`, `mask(i) = 1 << (i & 63)`.  `add_arc` and `toggle` go through
`get_unchecked_mut(i >> 6)` (an `rd` + `wr` at the same index), `has_arc` / `remove_arc` through
checked indexing (`rdChecked`), `ArcsIterator::next` through `get_unchecked(block_index)`.
`empty` is the repaired one: `order.checked_mul(order).expect(…)`; `emptyPinned` is the code as
pinned, where `order * order` wraps modulo 2^64 in a release build.
-/
namespace GraafVerif.Chk

structure Mx where
  blocks : List Nat
  order : Nat
  deriving Repr, DecidableEq

def W64 : Nat := 2 ^ 64

def mxMask (i : Nat) : Nat := 1 <<< (i &&& 63)
def mxIndex (m : Mx) (u v : Nat) : Nat := u * m.order + v

/-- `AdjacencyMatrix::empty` (after the fix). -/
def mxEmpty (order : Nat) : Chk Mx := do
  assert (decide (0 < order))
  if order * order ≥ W64 then throw .panic        -- `checked_mul(order).expect(…)`
  else pure ⟨List.replicate ((order * order + 63) / 64) 0, order⟩

/-- `AdjacencyMatrix::empty` as pinned, release profile: the product wraps. -/
def mxEmptyPinned (order : Nat) : Chk Mx := do
  assert (decide (0 < order))
  pure ⟨List.replicate ((order * order % W64 + 63) / 64) 0, order⟩

def mxUpdate (site : String) (f : Nat → Nat → Nat) (m : Mx) (u v : Nat) : Chk Mx := do
  assert (decide (u ≠ v))
  assert (decide (u < m.order))
  assert (decide (v < m.order))
  let i := mxIndex m u v
  let w ← rd site m.blocks (i >>> 6)
  let b ← wr site m.blocks (i >>> 6) (f w (mxMask i))
  pure { m with blocks := b }

/-- `add_arc`: `*blocks.get_unchecked_mut(i >> 6) |= mask(i)`. -/
def mxAddArc := mxUpdate "adjacency_matrix/mod.rs:add_arc:get_unchecked_mut(i >> 6)" (· ||| ·)
/-- `toggle`: `*blocks.get_unchecked_mut(i >> 6) ^= mask(i)`. -/
def mxToggle := mxUpdate "adjacency_matrix/mod.rs:toggle:get_unchecked_mut(i >> 6)" (· ^^^ ·)

/-- `has_arc`: neutral answer for ids out of range, then CHECKED indexing. -/
def mxHasArc (m : Mx) (u v : Nat) : Chk Bool :=
  if u ≥ m.order || v ≥ m.order then pure false
  else do
    let i := mxIndex m u v
    let w ← rdChecked m.blocks (i >>> 6)
    pure (w &&& mxMask i != 0)

/-- `remove_arc`. -/
def mxRemoveArc (m : Mx) (u v : Nat) : Chk (Bool × Mx) :=
  if u ≥ m.order || v ≥ m.order then pure (false, m)
  else do
    let has ← mxHasArc m u v
    let i := mxIndex m u v
    let w ← rdChecked m.blocks (i >>> 6)
    -- `self.blocks[i >> 6] &= !mask(i)`
    pure (has, { m with blocks := m.blocks.set (i >>> 6) (w ^^^ (w &&& mxMask i)) })

/-- State of `ArcsIterator`. -/
structure MxIt where
  blockIndex : Nat
  currentBits : Nat
  currentBase : Nat

/-- lowest set bit (`trailing_zeros`) of a non-zero word below 2^64 -/
def tz (w : Nat) : Nat := ((List.range 64).find? (fun k => w.testBit k)).getD 64

/-- `ArcsIterator::next`: the `while` loop on fuel; `get_unchecked(self.block_index)`. -/
def mxArcsNext (m : Mx) : Nat → MxIt → Chk (Option (Nat × Nat) × MxIt)
  | 0, it => pure (none, it)
  | fuel + 1, it =>
    if it.blockIndex < m.blocks.length || it.currentBits != 0 then do
      let it1 ← (if it.currentBits == 0 then do
          let w ← rd "adjacency_matrix/mod.rs:ArcsIterator::next:get_unchecked(block_index)" m.blocks it.blockIndex
          pure (⟨it.blockIndex + 1, w, it.blockIndex * 64⟩ : MxIt)
        else pure it)
      if it1.currentBits != 0 then
        let bit := tz it1.currentBits
        let it2 : MxIt := { it1 with currentBits := it1.currentBits &&& (it1.currentBits - 1) }
        let cell := it1.currentBase + bit
        if cell < m.order * m.order then pure (some (cell / m.order, cell % m.order), it2)
        else mxArcsNext m fuel it2
      else mxArcsNext m fuel it1
    else pure (none, it)

/-- Fuel that always suffices: every iteration consumes a block or a bit. -/
def mxArcsFuel (m : Mx) : Nat := 65 * (m.blocks.length + 1) + 1

/-- `arcs().collect()`. -/
def mxArcs (m : Mx) : Chk (List (Nat × Nat)) :=
  let rec go : Nat → MxIt → List (Nat × Nat) → Chk (List (Nat × Nat))
    | 0, _, acc => pure acc.reverse
    | n + 1, it, acc => do
      let (o, it') ← mxArcsNext m (mxArcsFuel m) it
      match o with
      | none => pure acc.reverse
      | some a => go n it' (a :: acc)
  go (64 * m.blocks.length + 1) ⟨0, 0, 0⟩ []

/-- `size()`: population count. -/
def mxSize (m : Mx) : Nat :=
  (m.blocks.map (fun w => ((List.range 64).filter (fun k => w.testBit k)).length)).sum

end GraafVerif.Chk
