/-!
# `Chk`: functions whose memory safety is at stake (DESIGN.md §4.4, property C13)

`Chk α := Except Fault α` with `Fault = panic | ub site`.  Every raw-pointer access
`*ptr.add(i)`, `get_unchecked(i)`, `get_unchecked_mut(i)` of the Rust source is an `rd`/`wr`
(or a bare `chkIdx`) on the list that models the allocation: it yields `ub site` exactly when
`i` is not smaller than the length of that allocation.  `unwrap_unchecked` on an `Option`
is `chkSome`.  Rust `assert!`/`panic!`/checked indexing is `.panic`.

A theorem `NoUB (f inputs)` for all inputs therefore says: on no input does the code as
modelled reach an unchecked access whose precondition is false.  What such a theorem cannot
say (allocator behaviour, use-after-free inside `std`, data races) is exercised by the tie only.
No imports: usable from the compiled driver.
-/
namespace GraafVerif.Chk

inductive Fault where
  | panic
  | ub (site : String)
  deriving DecidableEq, Repr

abbrev Chk (α : Type) := Except Fault α

instance instDecEqChk {α : Type} [DecidableEq α] : DecidableEq (Except Fault α) := fun a b =>
  match a, b with
  | .ok x, .ok y => if h : x = y then isTrue (by rw [h]) else isFalse (by intro e; cases e; exact h rfl)
  | .error x, .error y => if h : x = y then isTrue (by rw [h]) else isFalse (by intro e; cases e; exact h rfl)
  | .ok _, .error _ => isFalse (by intro e; cases e)
  | .error _, .ok _ => isFalse (by intro e; cases e)

/-- The computation never reaches a violated precondition of an unchecked operation. -/
def NoUB {α : Type} (x : Chk α) : Prop := ∀ s, x ≠ .error (.ub s)

/-- Precondition of `ptr.add(i)` + dereference / `get_unchecked(i)` on an allocation of `len` elements. -/
def chkIdx (site : String) (i len : Nat) : Chk Unit :=
  if i < len then .ok () else .error (.ub site)

/-- `unwrap_unchecked`. -/
def chkSome {α : Type} (site : String) : Option α → Chk α
  | some a => .ok a
  | none => .error (.ub site)

/-- `assert!(b)`. -/
def assert (b : Bool) : Chk Unit := if b then .ok () else .error .panic

/-- Unchecked read `*ptr.add(i)` from the allocation modelled by `l`. -/
def rd {α : Type} (site : String) (l : List α) (i : Nat) : Chk α :=
  match l[i]? with
  | some a => .ok a
  | none => .error (.ub site)

/-- Unchecked write `*ptr.add(i) = v`. -/
def wr {α : Type} (site : String) (l : List α) (i : Nat) (v : α) : Chk (List α) :=
  if i < l.length then .ok (l.set i v) else .error (.ub site)

/-- Checked read `l[i]` (panics when out of range). -/
def rdChecked {α : Type} (l : List α) (i : Nat) : Chk α :=
  match l[i]? with
  | some a => .ok a
  | none => .error .panic

/-! ## Basic facts -/

theorem noUB_ok {α : Type} (a : α) : NoUB (.ok a : Chk α) := by intro s h; cases h
theorem noUB_pure {α : Type} (a : α) : NoUB (pure a : Chk α) := noUB_ok a
theorem noUB_panic {α : Type} : NoUB (.error .panic : Chk α) := by intro s h; cases h
theorem noUB_throw_panic {α : Type} : NoUB (throw Fault.panic : Chk α) := noUB_panic

theorem noUB_assert (b : Bool) : NoUB (assert b) := by
  unfold assert; split
  · exact noUB_ok _
  · exact noUB_panic

theorem assert_ok {b : Bool} {u : Unit} (h : assert b = .ok u) : b = true := by
  unfold assert at h; split at h
  · assumption
  · cases h

theorem noUB_bind {α β : Type} {x : Chk α} {f : α → Chk β}
    (hx : NoUB x) (hf : ∀ a, x = .ok a → NoUB (f a)) : NoUB (x >>= f) := by
  intro s h
  cases x with
  | error e =>
    have : (Except.error e : Chk α) >>= f = .error e := rfl
    rw [this] at h
    cases h
    exact hx s rfl
  | ok a => exact hf a rfl s h

theorem bind_ok {α β : Type} {x : Chk α} {f : α → Chk β} {b : β} (h : x >>= f = .ok b) :
    ∃ a, x = .ok a ∧ f a = .ok b := by
  cases x with
  | error e => cases h
  | ok a => exact ⟨a, rfl, h⟩

theorem noUB_chkIdx {site : String} {i len : Nat} (h : i < len) : NoUB (chkIdx site i len) := by
  unfold chkIdx; rw [if_pos h]; exact noUB_ok _

theorem noUB_rd {α : Type} {site : String} {l : List α} {i : Nat} (h : i < l.length) : NoUB (rd site l i) := by
  unfold rd
  rw [List.getElem?_eq_getElem h]
  exact noUB_ok _

theorem noUB_rdChecked {α : Type} (l : List α) (i : Nat) : NoUB (rdChecked l i) := by
  unfold rdChecked; split
  · exact noUB_ok _
  · exact noUB_panic

theorem noUB_wr {α : Type} {site : String} {l : List α} {i : Nat} {v : α} (h : i < l.length) :
    NoUB (wr site l i v) := by
  unfold wr; rw [if_pos h]; exact noUB_ok _

theorem wr_ok {α : Type} {site : String} {l l' : List α} {i : Nat} {v : α} (h : wr site l i v = .ok l') :
    l' = l.set i v ∧ i < l.length := by
  unfold wr at h; split at h
  · cases h; exact ⟨rfl, by assumption⟩
  · cases h

theorem wr_length {α : Type} {site : String} {l l' : List α} {i : Nat} {v : α} (h : wr site l i v = .ok l') :
    l'.length = l.length := by
  rw [(wr_ok h).1]; simp

/-- Invariant rule for `foldlM`: a step that is `NoUB` and preserves `P` under `P`. -/
theorem foldlM_inv {σ α : Type} (P : σ → Prop) (f : σ → α → Chk σ)
    (hstep : ∀ s a, P s → NoUB (f s a) ∧ ∀ s', f s a = .ok s' → P s') :
    ∀ (l : List α) (s : σ), P s → NoUB (l.foldlM f s) ∧ ∀ s', l.foldlM f s = .ok s' → P s' := by
  intro l
  induction l with
  | nil =>
    intro s hs
    refine ⟨noUB_pure s, ?_⟩
    intro s' h
    cases h
    exact hs
  | cons a l ih =>
    intro s hs
    rw [List.foldlM_cons]
    obtain ⟨h1, h2⟩ := hstep s a hs
    refine ⟨noUB_bind h1 (fun s1 e => (ih s1 (h2 s1 e)).1), ?_⟩
    intro s' h
    obtain ⟨s1, e1, e2⟩ := bind_ok h
    exact (ih s1 (h2 s1 e1)).2 s' e2

/-- As `foldlM_inv`, when the step's facts only hold for members of the list. -/
theorem foldlM_inv_mem {σ α : Type} (P : σ → Prop) (f : σ → α → Chk σ) (l : List α)
    (hstep : ∀ s a, a ∈ l → P s → NoUB (f s a) ∧ ∀ s', f s a = .ok s' → P s') :
    ∀ (s : σ), P s → NoUB (l.foldlM f s) ∧ ∀ s', l.foldlM f s = .ok s' → P s' := by
  induction l with
  | nil =>
    intro s hs
    refine ⟨noUB_pure s, ?_⟩
    intro s' h
    cases h
    exact hs
  | cons a l ih =>
    intro s hs
    rw [List.foldlM_cons]
    obtain ⟨h1, h2⟩ := hstep s a (List.mem_cons_self) hs
    have ih' := ih (fun s b hb => hstep s b (List.mem_cons_of_mem _ hb))
    refine ⟨noUB_bind h1 (fun s1 e => (ih' s1 (h2 s1 e)).1), ?_⟩
    intro s' h
    obtain ⟨s1, e1, e2⟩ := bind_ok h
    exact (ih' s1 (h2 s1 e1)).2 s' e2

end GraafVerif.Chk
