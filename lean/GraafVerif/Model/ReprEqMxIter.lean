import GraafVerif.Model.Repr
/-!
# Literal model of `AdjacencyMatrix`'s `ArcsIterator` and of `size` (`count_ones`)

`src/repr/adjacency_matrix/mod.rs:338-393`.  The iterator state is
`(block_index, current_bits, current_base)`; `next` is the `while` loop

```text
while block_index < blocks.len() || current_bits != 0 {
    if current_bits == 0 { current_bits = blocks[block_index]; current_base = block_index * 64; block_index += 1 }
    if current_bits != 0 {
        let bit = current_bits.trailing_zeros(); current_bits &= current_bits - 1;
        let cell = current_base + bit;
        if cell < order * order { return Some((cell / order, cell % order)) }
    }
}
None
```

`drain` is `collect()` of that iterator: every `return Some(x)` contributes `x` and the next
call of `next` re-enters the same loop with the same state, so the collected sequence is one
run of the loop in which `return Some(x)` is replaced by "emit `x` and continue".  The loop is
structural recursion on fuel; `Proof/ReprMXIter.lean` proves that for every fuel above the
stated bound the result is the filter form `AdjMatrix.arcs` of `Model/Repr.lean` (fuel adequacy
= termination), and that the `count_ones` sum is `AdjMatrix.size`.

`trailing_zeros` is modelled by its definition (index of the lowest set bit, 64 for 0);
`x &= x - 1` literally, as `BitVec 64` arithmetic.
-/
namespace GraafVerif.Repr.AdjMatrix

/-- `usize::trailing_zeros`: index of the lowest set bit, `64` for `0`. -/
def tz (x : BitVec 64) : Nat := ((List.range 64).find? (fun k => x.getLsbD k)).getD 64

/-- `bits &= bits - 1`. -/
def clearLow (x : BitVec 64) : BitVec 64 := x &&& (x - 1#64)

/-- `usize::count_ones`: the number of set bits. -/
def popcount (x : BitVec 64) : Nat := ((List.range 64).filter (fun k => x.getLsbD k)).length

structure IterState where
  blockIndex : Nat
  bits : BitVec 64
  base : Nat
  deriving DecidableEq, Repr

/-- `ArcsIterator::new`. -/
def iterInit : IterState := ⟨0, 0#64, 0⟩

/-- The `while` loop of `next`, run to exhaustion (`collect`). -/
def drain (d : AdjMatrix) : Nat → IterState → List (Nat × Nat)
  | 0, _ => []
  | fuel + 1, s =>
    if s.blockIndex < d.blocks.length ∨ s.bits ≠ 0#64 then
      let s1 : IterState :=
        if s.bits = 0#64 then ⟨s.blockIndex + 1, d.blocks[s.blockIndex]?.getD 0#64, s.blockIndex * 64⟩ else s
      if s1.bits ≠ 0#64 then
        let bit := tz s1.bits
        let s2 : IterState := ⟨s1.blockIndex, clearLow s1.bits, s1.base⟩
        let cell := s1.base + bit
        if cell < d.order * d.order then (cell / d.order, cell % d.order) :: drain d fuel s2
        else drain d fuel s2
      else drain d fuel s1
    else []

/-- Enough fuel for every matrix with these blocks: one iteration per set bit plus one per block. -/
def iterFuel (d : AdjMatrix) : Nat := 65 * d.blocks.length + 1

/-- `arcs().collect()` through the literal iterator. -/
def arcsIter (d : AdjMatrix) : List (Nat × Nat) := drain d (iterFuel d) iterInit

/-- `size()`: `blocks.iter().map(|b| b.count_ones() as usize).sum()`. -/
def sizePop (d : AdjMatrix) : Nat := (d.blocks.map popcount).sum

/-! ### a linear-time evaluation of the same listing (driver, large matrices)

`drain` indexes `blocks` (a `List`) once per iteration, which is quadratic in the number of
blocks.  `arcsFold` walks the block list once, skips zero words and decodes the set bits of
the others; `Proof/ReprMXIter.lean` (`arcsFold_eq`) proves `arcsFold d = d.arcs = arcsIter d`.
The driver uses it above 1 024 blocks (order > 256), i.e. for the stress stream. -/

/-- The set bits of a word, ascending. -/
def bitsList (x : BitVec 64) : List Nat := (List.range 64).filter (fun k => x.getLsbD k)

def cellsOfBits (base : Nat) (bits : BitVec 64) : List Nat := (bitsList bits).map (fun k => base + k)

/-- The `cell < order²` test and the decoding `(cell / order, cell % order)` of the loop body. -/
def emit (d : AdjMatrix) (cs : List Nat) : List (Nat × Nat) :=
  (cs.filter (fun c => decide (c < d.order * d.order))).map (fun c => (c / d.order, c % d.order))

def arcsFold (d : AdjMatrix) : List (Nat × Nat) :=
  emit d ((d.blocks.zipIdx).flatMap (fun p => if p.1 = 0#64 then [] else cellsOfBits (p.2 * 64) p.1))

end GraafVerif.Repr.AdjMatrix

/-! ## Literal model of `AdjacencyList`'s hand-written `ArcsIterator`

`src/repr/adjacency_list/mod.rs:306-339`: state `(u, inner)`, `inner` = the remaining part of the
row that was opened last (row `u - 1`), `None` before the first row.

```text
loop {
    if let Some(inner) = &mut self.inner { if let Some(&v) = inner.next() { return Some((self.u - 1, v)); } }
    if self.u >= self.arcs.len() { return None; }
    self.inner = Some(self.arcs[self.u].iter()); self.u += 1;
}
```
`alDrain` is `collect()` of it (fuel = loop iterations). -/
namespace GraafVerif.Repr.AdjList

def alDrain (rows : List (List Nat)) : Nat → Nat → Option (List Nat) → List (Nat × Nat)
  | 0, _, _ => []
  | fuel + 1, u, inner =>
    match inner with
    | some (v :: rest) => (u - 1, v) :: alDrain rows fuel u (some rest)
    | _ =>
      if u ≥ rows.length then []
      else alDrain rows fuel (u + 1) (some (rows[u]?.getD []))

/-- One iteration per arc, one per row, one to stop. -/
def alFuel (rows : List (List Nat)) : Nat := (rows.map List.length).sum + rows.length + 1

def arcsIter (d : AdjList) : List (Nat × Nat) := alDrain d.rows (alFuel d.rows) 0 none

end GraafVerif.Repr.AdjList
