/-!
# Thread chunking (shared by every parallel function of graaf)

`ranges n t` is the literal loop `for thread_id in 0..t { start = id*chunk; end = min(n, start+chunk); if start >= end { break } … }`
with `chunk = n.div_ceil(t)` of `AdjacencyList::{complement, complete}` and `AdjacencyMap::{erdos_renyi, random_tournament}`;
the `step_by(chunk)` / `chunks(chunk)` forms of `degree_sequence`, `is_semicomplete`, `union` reduce to it.
`Proof/Par.lean` proves `chunks_tile`: for every `t ≥ 1` the ranges tile `0..n` in order.
-/
namespace GraafVerif.Par

/-- ranges produced by `for thread_id in 0..t { start = id*chunk; end = min n (start+chunk); if start >= end {break} … }` -/
def ranges (n t : Nat) : List (Nat × Nat) :=
  let chunk := (n + t - 1) / t   -- n.div_ceil t
  let rec go (fuel id : Nat) : List (Nat × Nat) :=
    match fuel with
    | 0 => []
    | fuel+1 =>
      let start := id * chunk
      let stop := min n (start + chunk)
      if start ≥ stop then [] else (start, stop) :: go fuel (id+1)
  go t 0

def expand (rs : List (Nat × Nat)) : List Nat := rs.flatMap (fun r => List.range' r.1 (r.2 - r.1))

example : expand (ranges 10 3) = List.range 10 := by decide
example : expand (ranges 10 16) = List.range 10 := by decide
example : expand (ranges 7 7) = List.range 7 := by decide


end GraafVerif.Par
