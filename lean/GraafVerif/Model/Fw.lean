import GraafVerif.Spec.Graph
/-!
# Model of `FloydWarshall::distances`  (src/algo/floyd_warshall.rs) and of the `(u, v)` index of
`DistanceMatrix`  (src/algo/distance_matrix.rs)

* `DistanceMatrix<isize>.dist : Vec<isize>` of length `order * order` is a flat
  `List (Option Int)`; `none` is the sentinel `isize::MAX` ("infinity").  Because the sentinel
  is a separate constructor, "`isize::MAX` exactly when unreachable" is a statement about the
  sentinel itself; sums of finite entries never collide with it (the property excludes
  overflow of path sums, DESIGN §4.1).
* `dist[(u, v)]` is `dist.dist[u * order + v]`  (`Index<(usize, usize)>`): `get`.
* `distances` — in source order:
    1. the matrix starts as `order * order` copies of `isize::MAX`        (`FloydWarshall::new`)
    2. `for (u, v, &w) in arcs_weighted() { dist[u*order+v] = w }`        (`setArcs`)
    3. `for i in 0..order { dist[i*order+i] = 0 }`                         (`zeroDiag`)
    4. `for i in vertices() { for j in vertices() { a = dist[j*order+i]; if a == MAX {continue}
        for k in vertices() { b = dist[i*order+k]; if b == MAX {continue}; s = a + b;
        if s < dist[j*order+k] { dist[j*order+k] = s } } } }`             (`loop`/`iterI`/`rowJ`/`cell`)
  The loop variable names are the source's: `i` is the intermediate vertex (OUTERMOST), `(j, k)`
  the updated cell; `a` is read once per `(i, j)` before the `k` loop; the update is IN PLACE.
* `vertices()` of `AdjacencyListWeighted` is `0..order`; `arcs_weighted()` enumerates rows in
  ascending `u`, each row (`BTreeMap`) in ascending `v`: `arcsWeighted`.
* `DistanceMatrix::new` asserts `order > 0`: `run` yields `panic` for order 0.
-/
namespace GraafVerif.Fw
open GraafVerif

/-- Flat row-major matrix; `none` = `isize::MAX`. -/
abbrev Mat := List (Option Int)

/-- `dist[(u, v)] = dist.dist[u * order + v]`. -/
def get (n : Nat) (m : Mat) (u v : Nat) : Option Int := (m[u * n + v]?).getD none

/-- `*dist_ptr.add(u * order + v) = x`. -/
def put (n : Nat) (m : Mat) (u v : Nat) (x : Option Int) : Mat := m.set (u * n + v) x

/-- `digraph.arcs_weighted()` as the list it yields. -/
def arcsWeighted (g : WGraph) : List (Nat × Nat × Int) :=
  (List.range g.n).flatMap (fun u => (g.out u).map (fun vw => (u, vw.1, vw.2)))

/-- Step 2: copy the arc weights. -/
def setArcs (n : Nat) (m : Mat) (arcs : List (Nat × Nat × Int)) : Mat :=
  arcs.foldl (fun m a => put n m a.1 a.2.1 (some a.2.2)) m

/-- Step 3: zero diagonal (AFTER the arc weights). -/
def zeroDiag (n : Nat) (m : Mat) : Mat :=
  (List.range n).foldl (fun m i => put n m i i (some 0)) m

/-- Steps 1–3. -/
def init (g : WGraph) : Mat :=
  zeroDiag g.n (setArcs g.n (List.replicate (g.n * g.n) none) (arcsWeighted g))

/-- Body of the `k` loop for fixed `i`, `j` and the value `a = dist[j*order+i]` read before it. -/
def cell (n i j : Nat) (a : Int) (m : Mat) (k : Nat) : Mat :=
  match get n m i k with
  | none => m                                    -- `if b == isize::MAX { continue }`
  | some b =>
    let s := a + b
    match get n m j k with
    | none => put n m j k (some s)               -- `s < isize::MAX`
    | some c => if s < c then put n m j k (some s) else m

/-- Body of the `j` loop for fixed `i`. -/
def rowJ (n i : Nat) (m : Mat) (j : Nat) : Mat :=
  match get n m j i with
  | none => m                                    -- `if a == isize::MAX { continue }`
  | some a => (List.range n).foldl (cell n i j a) m

/-- Body of the outermost loop: one intermediate vertex `i`. -/
def iterI (n : Nat) (m : Mat) (i : Nat) : Mat := (List.range n).foldl (rowJ n i) m

/-- The triple loop restricted to the intermediate vertices `0..K` (`K = n`: the whole loop). -/
def loopTo (n : Nat) (m : Mat) (K : Nat) : Mat := (List.range K).foldl (iterI n) m

/-- `FloydWarshall::new(&g).distances().dist`. -/
def distances (g : WGraph) : Mat := loopTo g.n (init g) g.n

/-- One call of `distances()` on a `FloydWarshall` object whose matrix currently is `m`
(steps 2–4; the matrix is a field of the object and is NOT re-initialised with `isize::MAX`). -/
def call (g : WGraph) (m : Mat) : Mat :=
  loopTo g.n (zeroDiag g.n (setArcs g.n m (arcsWeighted g))) g.n

/-- The matrix after a SECOND call of `distances()` on the same object. -/
def distances2 (g : WGraph) : Mat := call g (distances g)

inductive Res where
  | panic
  | ok (m : Mat)

/-- Including the `assert!(order > 0)` of `DistanceMatrix::new`. -/
def run (g : WGraph) : Res := if g.n = 0 then .panic else .ok (distances g)

/-- Row `u` as read through the pair index. -/
def row (n : Nat) (m : Mat) (u : Nat) : List (Option Int) := (List.range n).map (get n m u)

end GraafVerif.Fw
