import GraafVerif.Spec.Graph
import GraafVerif.Model.PredTree
/-!
# Model of `Dijkstra`, `DijkstraDist`, `DijkstraPred`
(src/algo/dijkstra.rs, dijkstra_dist.rs, dijkstra_pred.rs — after the `fix:` that makes `next`
skip superseded heap entries instead of ending the iteration)

* `dist : Vec<usize>` is a `List (Option Int)`; `none` stands for the sentinel `usize::MAX`
  (the property excludes path sums that reach it, so `w_next < usize::MAX` always holds and
  no popped key ever equals the sentinel).
* `BinaryHeap<(Reverse<usize>, (Option<usize>, usize))>` is a list of `Entry`s; `pop` is
  `popMax` = extract the maximum of Rust's derived lexicographic order (smallest distance;
  ties → larger `(pred, v)` with `None < Some _`).  The order is total on entries, so `pop` is a
  function of the multiset of entries and this model is exact (std's heap is trusted to
  implement it).  `Dijkstra`/`DijkstraDist` use entries `(Reverse d, v)`: the same order with the
  predecessor component constantly `none` (`tag = fun _ => none`).
* `next()` is `loop { pop; if fresh break }` followed by the relaxation scan; consuming the
  iterator (`for`, `collect`) is a loop around it.  The two loops are flattened: every round of
  `run` pops ONE entry, emits it and relaxes its out-arcs when it is fresh, just drops it when
  it is superseded, and stops when the heap is empty.  The emitted sequence is the item
  sequence of the iterator.  Fuel = `|S| + #arcs + 1` (`Proof/Dijkstra`: adequate).
* Out-of-range sources / successors (`assert!`) are not part of this model (C13); the
  representation in scope (`AdjacencyListWeighted`) only has in-range arcs.
-/
namespace GraafVerif.Dijkstra
open GraafVerif

/-- Heap entry `(Reverse(d), (p, v))`. -/
structure Entry where
  d : Int
  p : Option Nat
  v : Nat
  deriving DecidableEq, Repr

/-- Derived order of `Option<usize>`: `None < Some _`, `Some a < Some b ↔ a < b`. -/
def optLt : Option Nat → Option Nat → Bool
  | none, some _ => true
  | some a, some b => decide (a < b)
  | _, _ => false

/-- `a < b` in the derived order of `(Reverse<usize>, (Option<usize>, usize))`. -/
def Entry.lt (a b : Entry) : Bool :=
  decide (b.d < a.d) || (decide (a.d = b.d) && (optLt a.p b.p || (decide (a.p = b.p) && decide (a.v < b.v))))

def maxEntry : Entry → List Entry → Entry
  | a, [] => a
  | a, b :: r => maxEntry (if a.lt b then b else a) r

/-- `BinaryHeap::pop`: the greatest entry and the remaining multiset. -/
def popMax : List Entry → Option (Entry × List Entry)
  | [] => none
  | a :: r => let m := maxEntry a r; some (m, (a :: r).erase m)

structure State where
  dist : List (Option Int)
  heap : List Entry

/-- `new`: `dist[s] = 0; heap.push((Reverse(0), (None, s)))` for every source, in order. -/
def init (n : Nat) (S : List Nat) : State :=
  S.foldl (fun st s => ⟨st.dist.set s (some 0), ⟨0, none, s⟩ :: st.heap⟩) ⟨List.replicate n none, []⟩

/-- `dist[v]` (`none` = `usize::MAX`; the model is only used with in-range `v`). -/
def dOf (dist : List (Option Int)) (v : Nat) : Option Int := (dist[v]?).getD none

/-- `w_next < dist[x]` where `none` is `usize::MAX`. -/
def improves (dn : Int) : Option Int → Bool
  | none => true
  | some dx => decide (dn < dx)

/-- Body of the `for (x, w) in out_neighbors_weighted(u)` loop. -/
def relax (tag : Nat → Option Nat) (u : Nat) (d : Int) (st : State) (xw : Nat × Int) : State :=
  if improves (d + xw.2) (dOf st.dist xw.1) then
    ⟨st.dist.set xw.1 (some (d + xw.2)), ⟨d + xw.2, tag u, xw.1⟩ :: st.heap⟩
  else st

/-- The iteration: pop, skip superseded entries, relax on a fresh one and emit it. -/
def run (g : WGraph) (tag : Nat → Option Nat) : Nat → State → List Entry
  | 0, _ => []
  | f+1, st =>
    match popMax st.heap with
    | none => []
    | some (e, h) =>
      if dOf st.dist e.v = some e.d then
        e :: run g tag f ((g.out e.v).foldl (relax tag e.v e.d) ⟨st.dist, h⟩)
      else run g tag f ⟨st.dist, h⟩

/-- `Iterator::next`, literally: `loop { let e = heap.pop()?; if fresh { break e } }`, then the
relaxation scan; returns the item and the new state.  `k` bounds the skip loop (every round pops
an entry, so `heap.len() + 1` is enough). -/
def next (g : WGraph) (tag : Nat → Option Nat) : Nat → State → Option (Entry × State)
  | 0, _ => none
  | k+1, st =>
    match popMax st.heap with
    | none => none
    | some (e, h) =>
      if dOf st.dist e.v = some e.d then
        some (e, (g.out e.v).foldl (relax tag e.v e.d) ⟨st.dist, h⟩)
      else next g tag k ⟨st.dist, h⟩

/-- Consuming the iterator (`for item in it`, `collect()`): call `next` until it returns `None`.
`Proof/DijkstraNext`: equal to the flattened `run` (`collect_eq_entries`). -/
def collect (g : WGraph) (tag : Nat → Option Nat) : Nat → State → List Entry
  | 0, _ => []
  | f+1, st =>
    match next g tag (st.heap.length + 1) st with
    | none => []
    | some (e, st') => e :: collect g tag f st'

def arcCount (g : WGraph) : Nat := ((List.range g.n).map (fun u => (g.out u).length)).sum

def fuel (g : WGraph) (S : List Nat) : Nat := S.length + arcCount g + 1

def entries (g : WGraph) (tag : Nat → Option Nat) (S : List Nat) : List Entry :=
  run g tag (fuel g S) (init g.n S)

/-- Item sequence of `Dijkstra::new(g, S)`. -/
def dijkstra (g : WGraph) (S : List Nat) : List Nat := (entries g (fun _ => none) S).map (·.v)

/-- Item sequence of `DijkstraDist::new(g, S)`. -/
def dijkstraDist (g : WGraph) (S : List Nat) : List (Nat × Int) :=
  (entries g (fun _ => none) S).map (fun e => (e.v, e.d))

/-- `DijkstraDist::distances` (`none` = `usize::MAX`). -/
def distancesOf (n : Nat) (items : List (Nat × Int)) : List (Option Int) :=
  items.foldl (fun acc it => acc.set it.1 (some it.2)) (List.replicate n none)

def distances (g : WGraph) (S : List Nat) : List (Option Int) := distancesOf g.n (dijkstraDist g S)

/-- Item sequence of `DijkstraPred::new(g, S)`. -/
def dijkstraPred (g : WGraph) (S : List Nat) : List (Option Nat × Nat) :=
  (entries g some S).map (fun e => (e.p, e.v))

/-- `DijkstraPred::predecessors`. -/
def predecessorsOf (n : Nat) (items : List (Option Nat × Nat)) : PredTree.Pred :=
  items.foldl (fun acc it => acc.set it.2 it.1) (List.replicate n none)

def predecessors (g : WGraph) (S : List Nat) : PredTree.Pred := predecessorsOf g.n (dijkstraPred g S)

def resMap (f : List Nat → List Nat) : PredTree.Res → PredTree.Res
  | .panic => .panic
  | .ret p => .ret (p.map f)

/-- The `for (u, v) in self { pred[v] = u; if is_target(v) { return search_by(..).map(reverse) } }`
loop of `shortest_path` over the item sequence. -/
def spLoop (isT : Nat → Bool) : List (Option Nat × Nat) → PredTree.Pred → PredTree.Res
  | [], _ => .ret none
  | (p, v) :: rest, pred =>
    let pred' := pred.set v p
    if isT v then resMap List.reverse (PredTree.searchBy pred' v (fun _ b => b.isNone))
    else spLoop isT rest pred'

/-- `DijkstraPred::shortest_path`. -/
def shortestPath (g : WGraph) (S : List Nat) (isT : Nat → Bool) : PredTree.Res :=
  spLoop isT (dijkstraPred g S) (List.replicate g.n none)

/-! Witnesses.  `gStale` is the digraph on which the pre-fix code lost vertex 3
(a superseded entry `(10, 1)` is popped while `(20, 3)` is still pending). -/
def gStale : WGraph := ⟨4, fun u => match u with
  | 0 => [(1, 10), (2, 1), (3, 20)] | 2 => [(1, 1)] | _ => []⟩

example : dijkstraDist gStale [0] = [(0, 0), (2, 1), (1, 2), (3, 20)] := by decide
example : distances gStale [0] = [some 0, some 2, some 1, some 20] := by decide
example : dijkstra gStale [0] = [0, 2, 1, 3] := by decide
example : dijkstraPred gStale [0] = [(none, 0), (some 0, 2), (some 2, 1), (some 0, 3)] := by decide
example : predecessors gStale [0] = [none, some 2, some 0, some 0] := by decide
example : shortestPath gStale [0] (· == 1) = .ret (some [0, 2, 1]) := by decide
example : shortestPath gStale [0] (· == 7) = .ret none := by decide
example : (collect gStale some (fuel gStale [0]) (init gStale.n [0])).map (fun e => (e.p, e.v)) =
    dijkstraPred gStale [0] := by decide
/-- Ties are popped largest id first. -/
example : dijkstra ⟨3, fun u => if u = 0 then [(1, 5), (2, 5)] else []⟩ [0] = [0, 2, 1] := by decide

end GraafVerif.Dijkstra
