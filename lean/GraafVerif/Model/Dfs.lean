import GraafVerif.Spec.Graph
/-!
# Model of `Dfs`, `DfsDist`, `DfsPred` (src/algo/dfs.rs, dfs_dist.rs, dfs_pred.rs)

The three iterators are the same loop with a different payload per stack entry:

| iterator  | stack entry (code) | payload `α`   | payload of a pushed out-neighbour of `u` |
|-----------|--------------------|---------------|------------------------------------------|
| `Dfs`     | `u`                | `Unit`        | `()`                                     |
| `DfsDist` | `(u, depth)`       | `Nat`         | `depth + 1`                              |
| `DfsPred` | `(pred, u)`        | `Option Nat`  | `Some(u)`                                |

so the model is one generic `next` over entries `(vertex, payload)` and a `child` function.
The `Vec` used as stack is a `List` whose HEAD is the top (= last element of the `Vec`).

`next` mirrors the code *as it is*: a popped entry whose vertex is already visited makes the
code `return None` (outcome `.stale`), which ends `collect()` / `for`.  `run` is that iteration
(today's code); `runFixed` differs only in skipping stale entries instead of stopping.
`assert!(u < order)` / `assert!(v < order)` are the explicit `.panic` outcome.
-/
namespace GraafVerif.Dfs

/-- `visited[v]`; only evaluated after the corresponding `assert!(v < order)`. -/
def isVis (vis : List Bool) (v : Nat) : Bool := (vis[v]?).getD false

structure St (α : Type) where
  /-- head = top of the `Vec` stack -/
  stack : List (Nat × α)
  visited : List Bool

/-- Outcome of one call of `next`. -/
inductive Next (α : Type) where
  /-- `self.stack.pop()?` on an empty stack -/
  | done
  /-- an `assert!` failed -/
  | panic
  /-- the popped entry is already visited: today's code returns `None` here (state after the pop) -/
  | stale (st : St α)
  /-- `Some(step)` and the state afterwards -/
  | item (x : Nat × α) (st : St α)

/-- `for v in out_neighbors(u) { assert!(v < order); if !visited[v] { stack.push((v, c)) } }`;
`none` = an assert failed. -/
def pushAll {α : Type} (order : Nat) (vis : List Bool) (c : α) :
    List Nat → List (Nat × α) → Option (List (Nat × α))
  | [], stk => some stk
  | v :: vs, stk =>
    if v < order then pushAll order vis c vs (if isVis vis v then stk else (v, c) :: stk)
    else none

/-- `Iterator::next` of the three searches (dfs.rs:167-192, dfs_dist.rs:197-225, dfs_pred.rs:299-325). -/
def next {α : Type} (g : Graph) (child : Nat → α → α) (st : St α) : Next α :=
  match st.stack with
  | [] => .done
  | (u, a) :: rest =>
    if u < st.visited.length then
      if isVis st.visited u then .stale ⟨rest, st.visited⟩
      else
        let vis := st.visited.set u true
        match pushAll vis.length vis (child u a) (g.out u) rest with
        | none => .panic
        | some stk => .item (u, a) ⟨stk, vis⟩
    else .panic

/-- `new` (dfs.rs:148-158, dfs_dist.rs:178-188, dfs_pred.rs:179-189):
`stack = sources.map(|u| (u, a0)).collect()` (last source on top), `visited = vec![false; order]`. -/
def new {α : Type} (g : Graph) (S : List Nat) (a0 : α) : St α :=
  ⟨(S.map (fun s => (s, a0))).reverse, List.replicate g.n false⟩

/-- Why an iteration ended. -/
inductive Ending where
  | done | stale | panic | fuel
  deriving DecidableEq, Repr, Inhabited

structure Out (α : Type) where
  items : List (Nat × α)
  ending : Ending

/-- `collect()` / `for` over TODAY's iterator: stops at the first `None`, i.e. on an empty stack
or at the first stale pop. -/
def run {α : Type} (g : Graph) (child : Nat → α → α) : Nat → St α → Out α
  | 0, _ => ⟨[], .fuel⟩
  | f+1, st =>
    match next g child st with
    | .done => ⟨[], .done⟩
    | .panic => ⟨[], .panic⟩
    | .stale _ => ⟨[], .stale⟩
    | .item x st' => let r := run g child f st'; ⟨x :: r.items, r.ending⟩

/-- The corrected variant: identical, but a stale entry is skipped (one unit of fuel per pop). -/
def runFixed {α : Type} (g : Graph) (child : Nat → α → α) : Nat → St α → Out α
  | 0, _ => ⟨[], .fuel⟩
  | f+1, st =>
    match next g child st with
    | .done => ⟨[], .done⟩
    | .panic => ⟨[], .panic⟩
    | .stale st' => runFixed g child f st'
    | .item x st' => let r := runFixed g child f st'; ⟨x :: r.items, r.ending⟩

/-- Number of items the corrected variant yields before its first stale pop (`none`: never pops one). -/
def staleAt {α : Type} (g : Graph) (child : Nat → α → α) : Nat → St α → Option Nat
  | 0, _ => none
  | f+1, st =>
    match next g child st with
    | .done => none
    | .panic => none
    | .stale _ => some 0
    | .item _ st' => (staleAt g child f st').map (· + 1)

/-- The caller keeps polling after a `None`: `some x` per yielded item, `none` per stale pop
(today's code returns `None` there but stays usable); ends when the stack is empty (every later
poll is `None` again). -/
def pollTrace {α : Type} (g : Graph) (child : Nat → α → α) : Nat → St α → List (Option (Nat × α))
  | 0, _ => []
  | f+1, st =>
    match next g child st with
    | .done => []
    | .panic => []
    | .stale st' => none :: pollTrace g child f st'
    | .item x st' => some x :: pollTrace g child f st'

/-- Trailing `none`s trimmed (the harness polls a fixed number of times). -/
def trimNones {β : Type} (l : List (Option β)) : List (Option β) :=
  (l.reverse.dropWhile Option.isNone).reverse

/-! ## The three iterators -/

def childU : Nat → Unit → Unit := fun _ _ => ()
def childD : Nat → Nat → Nat := fun _ w => w + 1
def childP : Nat → Option Nat → Option Nat := fun u _ => some u

/-- Every yielded item marks a fresh vertex `< order`, so `order + 1` calls of `next` suffice
(`run_fuel_adequate`). -/
def fuel (g : Graph) : Nat := g.n + 1

/-- Every pop removes an entry; at most `|S| + Σ outdegree` entries are ever pushed
(`runFixed_fuel_adequate`). -/
def fuelFixed (g : Graph) (S : List Nat) : Nat :=
  S.length + ((List.range g.n).map (fun u => (g.out u).length)).sum + 1

def dfs (g : Graph) (S : List Nat) : Out Unit := run g childU (fuel g) (new g S ())
def dfsDist (g : Graph) (S : List Nat) : Out Nat := run g childD (fuel g) (new g S 0)
def dfsPred (g : Graph) (S : List Nat) : Out (Option Nat) := run g childP (fuel g) (new g S none)

def dfsFixed (g : Graph) (S : List Nat) : Out Unit := runFixed g childU (fuelFixed g S) (new g S ())
def dfsDistFixed (g : Graph) (S : List Nat) : Out Nat := runFixed g childD (fuelFixed g S) (new g S 0)
def dfsPredFixed (g : Graph) (S : List Nat) : Out (Option Nat) :=
  runFixed g childP (fuelFixed g S) (new g S none)

/-- `DfsPred::predecessors` (dfs_pred.rs:276-291): `pred = vec![None; order]; for (u, v) in self { pred[v] = u }`. -/
def predFold (order : Nat) (items : List (Nat × Option Nat)) : List (Option Nat) :=
  items.foldl (fun p x => p.set x.1 x.2) (List.replicate order none)

def predecessors (g : Graph) (S : List Nat) : List (Option Nat) := predFold g.n (dfsPred g S).items
def predecessorsFixed (g : Graph) (S : List Nat) : List (Option Nat) := predFold g.n (dfsPredFixed g S).items

/-- The vertex sequence of an output. -/
def Out.verts {α : Type} (o : Out α) : List Nat := o.items.map (·.1)

end GraafVerif.Dfs
