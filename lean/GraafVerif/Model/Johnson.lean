import GraafVerif.Model.JohnsonTarjan
/-!
# Model of `Johnson75::circuits` (`src/algo/johnson_75.rs`)

State (`Johnson75` fields + the `result` vector): `blocked : BTreeSet` (only `insert`/`remove`/
`contains` are used → a list), `b : Vec<BTreeSet>` → list of ascending lists indexed by vertex,
`stack : Vec` → list in push order, `result` → list in push order.

(line numbers as of /repo commit e601b92)
* `unblock` (l.70-80): `if blocked(u) { blocked.remove(u); while let Some(v) = b[u].pop_first() { unblock(v) } }`.
  The nested calls never touch `b[u]` (only `circuit` inserts into B-lists and `unblock(u)` is a
  no-op while `u` is not blocked), so the loop iterates over the ascending snapshot of `b[u]` and
  leaves it empty; the model takes the snapshot, clears `b[u]` and folds.  Fuel = recursion depth
  (each level removes one blocked vertex; adequacy: `Proof/JohnsonFuel.lean`).
* `circuit` (l.82-124): literal; fuel = recursion depth.
* `circuits` (l.151-199): literal, Tarjan from `Model/JohnsonTarjan.lean`; the leading `assert!`
  (vertices contiguous, l.157-160) is `circuitsChecked`.
-/
namespace GraafVerif.Johnson

structure JState where
  blocked : List Nat
  B : List (List Nat)
  stack : List Nat
  result : List (List Nat)

def JState.isBlocked (st : JState) (u : Nat) : Bool := st.blocked.contains u
def JState.Bof (st : JState) (u : Nat) : List Nat := (st.B[u]?).getD []

def unblock : Nat → JState → Nat → JState
  | 0, st, _ => st
  | fuel+1, st, u =>
    if st.isBlocked u then
      (st.Bof u).foldl (unblock fuel)
        { st with blocked := st.blocked.filter (· != u), B := st.B.set u [] }
    else st

/-- `blocked.insert(v)`. -/
def insBlocked (v : Nat) (bl : List Nat) : List Nat := if bl.contains v then bl else v :: bl

/-- One iteration of the first `for w in scc.out_neighbors(v)` of `circuit`. -/
def circuitStep (rec : JState → Nat → Bool × JState) (s : Nat) (acc : Bool × JState) (w : Nat) :
    Bool × JState :=
  if w = s then (true, { acc.2 with result := acc.2.result ++ [acc.2.stack] })
  else if !acc.2.isBlocked w then
    let r := rec acc.2 w
    (acc.1 || r.1, r.2)
  else acc

/-- `else` branch after the loop: `for w in out_neighbors(v) { b[w].insert(v) }`. -/
def addToB (v : Nat) (B : List (List Nat)) (ws : List Nat) : List (List Nat) :=
  ws.foldl (fun B w => B.set w (insertAsc v ((B[w]?).getD []))) B

def circuit (comp : AM) (s : Nat) (ufuel : Nat) : Nat → JState → Nat → Bool × JState
  | 0, st, _ => (false, st)
  | fuel+1, st, v =>
    let st : JState := { st with stack := st.stack ++ [v], blocked := insBlocked v st.blocked }
    let r := (comp.out v).foldl (circuitStep (circuit comp s ufuel fuel) s) (false, st)
    let st := r.2
    let st := if r.1 then unblock ufuel st v
              else { st with B := addToB v st.B (comp.out v) }
    (r.1, { st with stack := st.stack.dropLast })

/-- Order on `Option<&usize>` keys: `None < Some _`. -/
def keyLt : Option Nat → Option Nat → Bool
  | none, some _ => true
  | some a, some b => a < b
  | _, _ => false

/-- `components.iter().min_by_key(|scc| scc.iter().min())` (first of several minima). -/
def minByKey : List (List Nat) → Option (List Nat)
  | [] => none
  | c :: cs => some (cs.foldl (fun best x => if keyLt x.head? best.head? then x else best) c)

/-- Reset of `blocked` / `b` for the vertices of the component. -/
def resetFor (vs : List Nat) (st : JState) : JState :=
  vs.foldl (fun st x => { st with blocked := st.blocked.filter (· != x), B := st.B.set x [] }) st

/-- Body of `for s in self.a.vertices()`. -/
def circuitsStep (a : AM) (st : JState) (s : Nat) : JState :=
  let subgraph := a.filter (fun u => decide (s ≤ u))
  let components := tarjan subgraph
  match minByKey components with
  | none => st
  | some minScc =>
    let component := a.filter (fun u => minScc.contains u)
    if component.order > 0 then
      match minScc.head? with
      | none => st   -- `unwrap()` on an empty component: cannot happen with order > 0
      | some start =>
        let st := resetFor component.verts st
        (circuit component start (a.order + 1) (a.order + 1) st start).2
    else st

def circuitsAM (a : AM) : List (List Nat) :=
  (a.verts.foldl (circuitsStep a) ⟨[], List.replicate a.order [], [], []⟩).result

/-- `circuits()` including its leading `assert!(vertices().all(|u| u < order))`;
`none` = the panic "the digraph's vertices aren't contiguous". -/
def circuitsChecked (a : AM) : Option (List (List Nat)) :=
  if a.verts.all (fun u => decide (u < a.order)) then some (circuitsAM a) else none

/-- `Johnson75::new(&g).circuits()` for a digraph with vertex set `0..n` (the assert holds:
`circuitsChecked_ofGraph` in `Thm/C10.lean`). -/
def circuits (g : Graph) : List (List Nat) := circuitsAM (AM.ofGraph g)

/-! ### Repeated calls on the same `Johnson75` value

`blocked`, `b` and `stack` are fields of the value and survive a call; `result` is a fresh local
of every call.  `JState.new` = `Johnson75::new` (l.53-64). -/

def JState.new (a : AM) : JState := ⟨[], List.replicate a.order [], [], []⟩

/-- One `circuits()` call on a value whose fields are those of `st` (assert not included). -/
def circuitsCall (a : AM) (st : JState) : JState :=
  a.verts.foldl (circuitsStep a) { st with result := [] }

/-- `k` successive `circuits()` calls on the same value: the `k` returned vectors. -/
def circuitsRepeat (a : AM) : Nat → JState → List (List (List Nat))
  | 0, _ => []
  | k+1, st => (circuitsCall a st).result :: circuitsRepeat a k (circuitsCall a st)

end GraafVerif.Johnson
