import GraafVerif.Model.Chk
import GraafVerif.Model.PredTree
/-!
# `Chk` models of the nine traversals (src/algo/{bfs,bfs_dist,bfs_pred,dfs,dfs_dist,dfs_pred,
dijkstra,dijkstra_dist,dijkstra_pred}.rs, code after the `fix:` commits)

What a traversal sees of its digraph is `order()` and `out_neighbors(u)`: `CGraph.out u = none`
means that call panics (`u` is not a vertex); the successors are ARBITRARY numbers (in a
non-contiguous `AdjacencyMap` they exceed the order).  `visited` / `dist` are the vectors the
code indexes through `visited_ptr.add(·)` / `dist_ptr.add(·)`: every such access is an `rd`/`wr`.

The three breadth-first files are textually parallel (they differ in the queue item: `usize`,
`(usize, usize)`, `(Option<usize>, usize)`), so are the three depth-first and the three Dijkstra
files; each family is one definition generic in the item type `ι`
(`vtx : ι → Nat` the vertex of an item, `mk` the item pushed for a successor).
`while`/`for … in self` loops are structural recursion on fuel.
-/
namespace GraafVerif.Chk

/-- `Order + OutNeighbors` as the traversals use it. -/
structure CGraph where
  order : Nat
  out : Nat → Option (List Nat)

/-- `Order + OutNeighborsWeighted<Weight = usize>`. -/
structure WCGraph where
  order : Nat
  out : Nat → Option (List (Nat × Nat))

/-- `usize::MAX`. -/
def INF : Nat := 2 ^ 64 - 1

/-- State of a queue/stack based iterator. -/
structure QSt (ι : Type) where
  queue : List ι
  visited : List Bool
  deriving DecidableEq, Repr

/-! ## Breadth-first family -/

/-- `Bfs*::new`: `for u in sources { assert!(u < order); queue.push_back(item u); *visited_ptr.add(u) = true }`. -/
def bfsNewG {ι : Type} (site : String) (mk0 : Nat → ι) (order : Nat) (sources : List Nat) : Chk (QSt ι) :=
  sources.foldlM (fun (st : QSt ι) u => do
    assert (decide (u < order))
    let vis ← wr site st.visited u true
    pure ⟨st.queue ++ [mk0 u], vis⟩) ⟨[], List.replicate order false⟩

/-- One neighbour of the `for v in out_neighbors(u)` loop of `Bfs*::next`. -/
def bfsVisit {ι : Type} (site : String) (mk : Nat → ι) (order : Nat) (st : QSt ι) (v : Nat) : Chk (QSt ι) := do
  assert (decide (v < order))
  let b ← rd site st.visited v
  if b then pure st else do
    let vis ← wr site st.visited v true
    pure ⟨st.queue ++ [mk v], vis⟩

/-- `Bfs*::next`. -/
def bfsNextG {ι : Type} (site : String) (vtx : ι → Nat) (mk : ι → Nat → ι) (g : CGraph) (st : QSt ι) :
    Chk (Option ι × QSt ι) :=
  match st.queue with
  | [] => pure (none, st)
  | it :: q =>
    match g.out (vtx it) with
    | none => throw .panic                       -- `out_neighbors` asserts that `u` is a vertex
    | some vs => do
      let st' ← vs.foldlM (bfsVisit site (mk it) st.visited.length) ⟨q, st.visited⟩
      pure (some it, st')

/-! ## Depth-first family -/

/-- `Dfs*::new`: `stack: sources.map(item).collect()`, `visited: vec![false; order]` (no check here). -/
def dfsNewG {ι : Type} (mk0 : Nat → ι) (order : Nat) (sources : List Nat) : QSt ι :=
  ⟨(sources.map mk0).reverse, List.replicate order false⟩

/-- One neighbour of the push loop of `Dfs*::next` (the stack's top is the list's head). -/
def dfsVisit {ι : Type} (site : String) (mk : Nat → ι) (order : Nat) (vis : List Bool) (stack : List ι) (v : Nat) :
    Chk (List ι) := do
  assert (decide (v < order))
  let b ← rd site vis v
  pure (if b then stack else mk v :: stack)

/-- `Dfs*::next`. -/
def dfsNextG {ι : Type} (site : String) (vtx : ι → Nat) (mk : ι → Nat → ι) (g : CGraph) (st : QSt ι) :
    Chk (Option ι × QSt ι) :=
  match st.queue with
  | [] => pure (none, st)
  | it :: s => do
    let order := st.visited.length
    assert (decide (vtx it < order))
    let b ← rd site st.visited (vtx it)
    if b then pure (none, ⟨s, st.visited⟩)      -- `return None` on an already visited vertex
    else do
      let vis ← wr site st.visited (vtx it) true
      match g.out (vtx it) with
      | none => throw .panic
      | some vs => do
        let stack ← vs.foldlM (dfsVisit site (mk it) order vis) s
        pure (some it, ⟨stack, vis⟩)

/-! ## Dijkstra family -/

structure HSt (ι : Type) where
  heap : List ι
  dist : List Nat
  deriving DecidableEq, Repr

/-- `BinaryHeap::pop`: remove a greatest element (`better a b` = `a` is strictly greater in the
heap's order).  The order is total and elements that compare equal are identical, so which
occurrence is removed is unobservable. -/
def popBest {ι : Type} (better : ι → ι → Bool) : List ι → Option (ι × List ι)
  | [] => none
  | x :: xs =>
    match popBest better xs with
    | none => some (x, [])
    | some (y, ys) => if better y x then some (y, x :: ys) else some (x, xs)

/-- `Dijkstra*::new`. -/
def dijNewG {ι : Type} (site : String) (mk0 : Nat → ι) (order : Nat) (sources : List Nat) : Chk (HSt ι) :=
  sources.foldlM (fun (st : HSt ι) u => do
    assert (decide (u < order))
    let d ← wr site st.dist u 0
    pure ⟨mk0 u :: st.heap, d⟩) ⟨[], List.replicate order INF⟩

/-- `loop { let (w, u) = heap.pop()?; if dist[u] == w { break } }` — `*dist_ptr.add(u)` is NOT
preceded by an assert: it relies on every heap entry holding a checked vertex. -/
def popFresh {ι : Type} (site : String) (better : ι → ι → Bool) (key vtx : ι → Nat) :
    Nat → List ι → List Nat → Chk (Option ι × List ι)
  | 0, heap, _ => pure (none, heap)
  | fuel + 1, heap, dist =>
    match popBest better heap with
    | none => pure (none, [])
    | some (it, rest) => do
      let d ← rd site dist (vtx it)
      if d == key it then pure (some it, rest) else popFresh site better key vtx fuel rest dist

/-- One arc of the relaxation loop. -/
def dijRelax {ι : Type} (site : String) (mk : Nat → Nat → ι) (order wPrev : Nat) (st : HSt ι) (a : Nat × Nat) :
    Chk (HSt ι) := do
  assert (decide (a.1 < order))
  let wNext := a.2 + wPrev
  let dv ← rd site st.dist a.1
  if wNext < dv then do
    let d ← wr site st.dist a.1 wNext
    pure ⟨mk a.1 wNext :: st.heap, d⟩
  else pure st

/-- `Dijkstra*::next`. -/
def dijNextG {ι : Type} (site : String) (better : ι → ι → Bool) (key vtx : ι → Nat) (mk : ι → Nat → Nat → ι)
    (g : WCGraph) (st : HSt ι) : Chk (Option ι × HSt ι) := do
  let (o, heap) ← popFresh site better key vtx (st.heap.length + 1) st.heap st.dist
  match o with
  | none => pure (none, ⟨heap, st.dist⟩)
  | some it =>
    match g.out (vtx it) with
    | none => throw .panic
    | some arcs => do
      let st' ← arcs.foldlM (dijRelax site (mk it) st.dist.length (key it)) ⟨heap, st.dist⟩
      pure (some it, st')

/-! ## The nine instances -/

def bfsNew := bfsNewG (ι := Nat) "bfs.rs:new:*visited_ptr.add(u)" id
def bfsNext := bfsNextG (ι := Nat) "bfs.rs:next:visited_ptr.add(v)" id (fun _ v => v)

def bfsDistNew := bfsNewG (ι := Nat × Nat) "bfs_dist.rs:new:*visited_ptr.add(u)" (fun u => (u, 0))
def bfsDistNext := bfsNextG (ι := Nat × Nat) "bfs_dist.rs:next:visited_ptr.add(v)" (·.1) (fun it v => (v, it.2 + 1))

def bfsPredNew := bfsNewG (ι := Option Nat × Nat) "bfs_pred.rs:new:*visited_ptr.add(u)" (fun u => (none, u))
def bfsPredNext := bfsNextG (ι := Option Nat × Nat) "bfs_pred.rs:next:visited_ptr.add(u)" (·.2) (fun it v => (some it.2, v))

def dfsNew := dfsNewG (ι := Nat) id
def dfsNext := dfsNextG (ι := Nat) "dfs.rs:next:*visited_ptr.add(·)" id (fun _ v => v)

def dfsDistNew := dfsNewG (ι := Nat × Nat) (fun u => (u, 0))
def dfsDistNext := dfsNextG (ι := Nat × Nat) "dfs_dist.rs:next:visited_ptr.add(·)" (·.1) (fun it v => (v, it.2 + 1))

def dfsPredNew := dfsNewG (ι := Option Nat × Nat) (fun u => (none, u))
def dfsPredNext := dfsNextG (ι := Option Nat × Nat) "dfs_pred.rs:next:visited_ptr.add(·)" (·.2) (fun it v => (some it.2, v))

/-- `(Reverse(w), u)`: smaller `w` first, ties by larger `u`. -/
def betterWU (a b : Nat × Nat) : Bool := a.1 < b.1 || (a.1 == b.1 && b.2 < a.2)

def dijkstraNew := dijNewG (ι := Nat × Nat) "dijkstra.rs:new:*dist_ptr.add(u)" (fun u => (0, u))
def dijkstraNext := dijNextG (ι := Nat × Nat) "dijkstra.rs:next:dist_ptr.add(·)" betterWU (·.1) (·.2) (fun _ v w => (w, v))

def dijkstraDistNew := dijNewG (ι := Nat × Nat) "dijkstra_dist.rs:new:*dist_ptr.add(u)" (fun u => (0, u))
def dijkstraDistNext := dijNextG (ι := Nat × Nat) "dijkstra_dist.rs:next:*dist_ptr.add(·)" betterWU (·.1) (·.2) (fun _ v w => (w, v))

/-- `Option<usize>` order: `None < Some(_)`. -/
def optLt : Option Nat → Option Nat → Bool
  | none, some _ => true
  | some a, some b => a < b
  | _, _ => false

/-- `(Reverse(distance), (pred, v))`. -/
def betterDPV (a b : Nat × Option Nat × Nat) : Bool :=
  a.1 < b.1 || (a.1 == b.1 && (optLt b.2.1 a.2.1 || (b.2.1 == a.2.1 && b.2.2 < a.2.2)))

def dijkstraPredNew := dijNewG (ι := Nat × Option Nat × Nat) "dijkstra_pred.rs:new:*dist_ptr.add(u)" (fun u => (0, none, u))
def dijkstraPredNext := dijNextG (ι := Nat × Option Nat × Nat) "dijkstra_pred.rs:next:dist_ptr.add(·)" betterDPV (·.1) (·.2.2)
  (fun it v w => (w, some it.2.2, v))

/-! ## `for x in self { … }` and the derived entry points -/

/-- `for it in self { acc = body acc it }`: call `next` until it returns `None`. -/
def forEach {σ ι α : Type} (next : σ → Chk (Option ι × σ)) (body : α → ι → Chk α) :
    Nat → σ → α → Chk (α × σ)
  | 0, st, acc => pure (acc, st)
  | fuel + 1, st, acc => do
    let (o, st') ← next st
    match o with
    | none => pure (acc, st')
    | some it => do
      let acc' ← body acc it
      forEach next body fuel st' acc'

/-- `PredecessorTree::new(order)`. -/
def predTreeNew (order : Nat) : Chk (List (Option Nat)) := do
  assert (decide (0 < order))
  pure (List.replicate order none)

/-- `BfsDist::distances`: `*ptr.add(u) = w` into `vec![usize::MAX; digraph.order()]`. -/
def bfsDistDistances (g : CGraph) (fuel : Nat) (st : QSt (Nat × Nat)) : Chk (List Nat) := do
  let r ← forEach (bfsDistNext g) (fun d it => wr "bfs_dist.rs:distances:*ptr.add(u)" d it.1 it.2) fuel st
    (List.replicate g.order INF)
  pure r.1

/-- `BfsPred::predecessors` / `DfsPred::predecessors`: `*pred_ptr.add(v) = u`. -/
def predecessorsG {σ : Type} (site : String) (next : σ → Chk (Option (Option Nat × Nat) × σ)) (order fuel : Nat) (st : σ) :
    Chk (List (Option Nat)) := do
  let pred ← predTreeNew order
  let r ← forEach next (fun p it => wr site p it.2 it.1) fuel st pred
  pure r.1

def bfsPredPredecessors (g : CGraph) := predecessorsG "bfs_pred.rs:predecessors:*pred_ptr.add(v)" (bfsPredNext g) g.order
def dfsPredPredecessors (g : CGraph) := predecessorsG "dfs_pred.rs:predecessors:*pred_ptr.add(v)" (dfsPredNext g) g.order

/-- `PredecessorTree::search_by` / `search` are safe code: their model is the one of C19. -/
def liftRes : PredTree.Res → Chk (Option (List Nat))
  | .panic => .error .panic
  | .ret r => .ok r

/-- The loop of `*Pred::shortest_path` (early return at the first target). -/
def spLoop {σ : Type} (site : String) (next : σ → Chk (Option (Option Nat × Nat) × σ)) (isT : Nat → Bool) :
    Nat → σ → List (Option Nat) → Chk (Option (List Nat))
  | 0, _, _ => pure none
  | fuel + 1, st, pred => do
    let (o, st') ← next st
    match o with
    | none => pure none
    | some it => do
      let pred' ← wr site pred it.2 it.1
      if isT it.2 then do
        let r ← liftRes (PredTree.searchBy pred' it.2 (fun _ b => b.isNone))
        pure (r.map List.reverse)
      else spLoop site next isT fuel st' pred'

def shortestPathG {σ : Type} (site : String) (next : σ → Chk (Option (Option Nat × Nat) × σ)) (order : Nat)
    (isT : Nat → Bool) (fuel : Nat) (st : σ) : Chk (Option (List Nat)) := do
  let pred ← predTreeNew order
  spLoop site next isT fuel st pred

def bfsPredShortestPath (g : CGraph) := shortestPathG "bfs_pred.rs:shortest_path:*pred_ptr.add(v)" (bfsPredNext g) g.order

/-- The loop of `BfsPred::cycles`. -/
def cyclesLoop (g : CGraph) : Nat → QSt (Option Nat × Nat) → List (Option Nat) → List (List Nat) → Chk (List (List Nat))
  | 0, _, _, acc => pure acc
  | fuel + 1, st, pred, acc => do
    let (o, st') ← bfsPredNext g st
    match o with
    | none => pure acc
    | some it => do
      let pred' ← wr "bfs_pred.rs:cycles:*pred_ptr.add(v)" pred it.2 it.1
      match g.out it.2 with
      | none => throw .panic
      | some xs => do
        let acc' ← xs.foldlM (fun (acc : List (List Nat)) x => do
          let r ← liftRes (PredTree.search pred' it.2 x)
          pure (match r with | some p => acc ++ [p.reverse] | none => acc)) acc
        cyclesLoop g fuel st' pred' acc'

def bfsPredCycles (g : CGraph) (fuel : Nat) (st : QSt (Option Nat × Nat)) : Chk (List (List Nat)) := do
  let pred ← predTreeNew g.order
  cyclesLoop g fuel st pred []

/-- `DijkstraDist::distances`: `*ptr.add(u.0) = u.1`. -/
def dijkstraDistDistances (g : WCGraph) (fuel : Nat) (st : HSt (Nat × Nat)) : Chk (List Nat) := do
  let r ← forEach (dijkstraDistNext g) (fun d it => wr "dijkstra_dist.rs:distances:*ptr.add(u.0)" d it.2 it.1) fuel st
    (List.replicate g.order INF)
  pure r.1

/-- The item `DijkstraPred::next` yields is the step `(pred, v)`. -/
def dijkstraPredStep (g : WCGraph) (st : HSt (Nat × Option Nat × Nat)) :
    Chk (Option (Option Nat × Nat) × HSt (Nat × Option Nat × Nat)) := do
  let r ← dijkstraPredNext g st
  pure (r.1.map (·.2), r.2)

def dijkstraPredPredecessors (g : WCGraph) :=
  predecessorsG "dijkstra_pred.rs:predecessors:*pred_ptr.add(v)" (dijkstraPredStep g) g.order
def dijkstraPredShortestPath (g : WCGraph) :=
  shortestPathG "dijkstra_pred.rs:shortest_path:*pred_ptr.add(v)" (dijkstraPredStep g) g.order

/-! ## The code as pinned (before the `fix:` commits): no assert before the pointer write.
Kept only to show on the model side that the defect is real (`Thm/C13.lean`, witnesses). -/

def bfsNewPinned (order : Nat) (sources : List Nat) : Chk (QSt Nat) :=
  sources.foldlM (fun (st : QSt Nat) u => do
    let vis ← wr "bfs.rs:new:*visited_ptr.add(u) (pinned)" st.visited u true
    pure ⟨st.queue ++ [u], vis⟩) ⟨[], List.replicate order false⟩

end GraafVerif.Chk
