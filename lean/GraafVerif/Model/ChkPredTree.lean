import GraafVerif.Model.Chk
import GraafVerif.Model.PredTree
/-!
# `Chk` model of `PredecessorTree::search_by` (src/algo/predecessor_tree.rs)

After the `fix:` commit the function contains no unchecked access any more: `self.pred[s]` is
checked indexing (panic), `visited.get_mut(v)` is checked (`None` ⇒ `break`).  `searchByChk` is
the literal transcription in `Chk`; `searchByPinned` is the code as pinned, which marked
`visited` through `visited_ptr.add(v)` for a `v` read from the user-supplied vector.
-/
namespace GraafVerif.Chk
open GraafVerif.PredTree

def sbLoop (pred : Pred) (isT : Nat → Option Nat → Bool) :
    Nat → Nat → List Bool → List Nat → Chk (Option (List Nat))
  | 0, _, _, _ => pure none
  | fuel + 1, s, visited, path =>
    match pred[s]? with
    | none => pure none                                   -- `while let Some(&v) = self.pred.get(s)`
    | some v =>
      if isT s v then pure (some path)
      else match v with
        | none => pure none
        | some v' =>
          match visited[v']? with                         -- `visited.get_mut(v)`: checked
          | none => pure none
          | some true => pure none
          | some false => sbLoop pred isT fuel v' (visited.set v' true) (if v' ≠ s then path ++ [v'] else path)

def searchByChk (pred : Pred) (s : Nat) (isT : Nat → Option Nat → Bool) : Chk (Option (List Nat)) := do
  let ps ← rdChecked pred s                               -- `self.pred[s]`
  if isT s ps then pure (some [s])
  else sbLoop pred isT (pred.length + 2) s (List.replicate pred.length false) [s]

/-- The loop as pinned: `let visited_v = visited_ptr.add(v); if *visited_v { break } *visited_v = true`. -/
def sbLoopPinned (pred : Pred) (isT : Nat → Option Nat → Bool) :
    Nat → Nat → List Bool → List Nat → Chk (Option (List Nat))
  | 0, _, _, _ => pure none
  | fuel + 1, s, visited, path =>
    match pred[s]? with
    | none => pure none
    | some v =>
      if isT s v then pure (some path)
      else match v with
        | none => pure none
        | some v' => do
          let b ← rd "predecessor_tree.rs:search_by:visited_ptr.add(v) (pinned)" visited v'
          if b then pure none
          else do
            let vis ← wr "predecessor_tree.rs:search_by:visited_ptr.add(v) (pinned)" visited v' true
            sbLoopPinned pred isT fuel v' vis (if v' ≠ s then path ++ [v'] else path)

def searchByPinned (pred : Pred) (s : Nat) (isT : Nat → Option Nat → Bool) : Chk (Option (List Nat)) := do
  let ps ← rdChecked pred s
  if isT s ps then pure (some [s])
  else sbLoopPinned pred isT (pred.length + 2) s (List.replicate pred.length false) [s]

end GraafVerif.Chk
