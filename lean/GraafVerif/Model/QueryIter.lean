import GraafVerif.Model.Query
/-!
# C02 — consuming ONE iterator value partly with `next()` and then with a fold-based consumer

Every query that returns an iterator is modelled by the list it yields (`Model/Query.lean`).  This file
models the *consumption protocol*: an iterator value is the list of items it has not yielded yet;
`next` pops the head; `Iterator::fold` (and everything std builds on it: `count`, `last`, `for_each`,
`sum`, `max`, `extend`, …) runs over what is left.  `observe val l k` is what the harness op `q_iter`
records for an iterator yielding `l`: the items of `k` calls of `next()`, then — each on a fresh iterator
advanced the same way — `count()`, `last()`, the items `for_each` visits, `fold(0, +val)`, and
`skip(k).count()`.  `Proof/QueryIter.lean` proves `observe` is `take k` / `drop k` followed by the list
consumer, and transports it along `CoreCorrect`.
-/
namespace GraafVerif.Query.Iter

/-- `Iterator::next` on an iterator value = remaining items. -/
def next {α : Type} : List α → Option α × List α
  | [] => (none, [])
  | a :: rest => (some a, rest)

/-- `k` calls of `next()` (stopping at the first `None`): items returned, remaining iterator. -/
def advance {α : Type} : Nat → List α → List α × List α
  | 0, it => ([], it)
  | k + 1, it =>
    match next it with
    | (none, it') => ([], it')
    | (some a, it') => let r := advance k it'; (a :: r.1, r.2)

/-- `Iterator::fold`: `next()` until `None`. -/
def fold {α β : Type} (f : β → α → β) : β → List α → β
  | acc, it =>
    match it with
    | [] => acc
    | a :: rest => fold f (f acc a) rest

def count {α : Type} (it : List α) : Nat := fold (fun n _ => n + 1) 0 it
def last {α : Type} (it : List α) : Option α := fold (fun _ a => some a) none it
/-- the items `for_each(|x| out.push(x))` visits, in order -/
def forEachCollect {α : Type} (it : List α) : List α := (fold (fun acc a => a :: acc) [] it).reverse
def sum {α : Type} (val : α → Nat) (it : List α) : Nat := fold (fun s a => s + val a) 0 it

structure Obs (α : Type) where
  taken : List α
  count : Nat
  last : Option α
  rest : List α
  sum : Nat
  skipCount : Nat
  deriving BEq, Repr, DecidableEq

/-- What `q_iter` records for an iterator that yields `l`, advanced `k` times first. -/
def observe {α : Type} (val : α → Nat) (l : List α) (k : Nat) : Obs α :=
  let a := advance k l
  { taken := a.1, count := count a.2, last := last a.2, rest := forEachCollect a.2, sum := sum val a.2,
    skipCount := count a.2 }

end GraafVerif.Query.Iter
