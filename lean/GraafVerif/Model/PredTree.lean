/-!
# Model of `PredecessorTree::search_by` / `search`  (src/algo/predecessor_tree.rs)

`pred : Vec<Option<usize>>` is a `List (Option Nat)`.  The `while let Some(&v) = self.pred.get(s)`
loop is structural recursion on fuel; `searchBy_fuel` (Proof/PredTree) shows the result is the
same for every fuel ≥ `pred.length + 2`, so `search` fixes that fuel.  The model follows the
code after the `fix:` that bounds-checks `visited` (an out-of-range entry ends the search).
-/
namespace GraafVerif.PredTree

abbrev Pred := List (Option Nat)

/-- The `while let Some(&v) = self.pred.get(s)` loop. -/
def loop (pred : Pred) (isT : Nat → Option Nat → Bool) :
    Nat → Nat → List Bool → List Nat → Option (List Nat)
  | 0, _, _, _ => none
  | fuel+1, s, visited, path =>
    match pred[s]? with
    | none => none                                   -- `pred.get(s)` is `None`: loop ends
    | some v =>
      if isT s v then some path
      else match v with
        | none => none                               -- `else { break }`
        | some v' =>
          match visited[v']? with
          | none => none                             -- out-of-range entry: `break` (fix)
          | some true => none                        -- already visited: `break`
          | some false =>
            loop pred isT fuel v' (visited.set v' true) (if v' ≠ s then path ++ [v'] else path)

/-- Outcome of a call: Rust panics on `self.pred[s]` when `s` is out of range. -/
inductive Res where
  | panic
  | ret (p : Option (List Nat))
  deriving DecidableEq, Repr

def searchByFuel (pred : Pred) (s : Nat) (isT : Nat → Option Nat → Bool) (fuel : Nat) : Res :=
  match pred[s]? with
  | none => .panic
  | some ps =>
    if isT s ps then .ret (some [s])
    else .ret (loop pred isT fuel s (List.replicate pred.length false) [s])

def searchBy (pred : Pred) (s : Nat) (isT : Nat → Option Nat → Bool) : Res :=
  searchByFuel pred s isT (pred.length + 2)

def search (pred : Pred) (s t : Nat) : Res := searchBy pred s (fun v _ => v == t)

/-- k-th iterate of the predecessor link (`none` once the chain has ended or left the vector). -/
def chain (pred : Pred) (s : Nat) : Nat → Option Nat
  | 0 => some s
  | k+1 => match chain pred s k with
    | none => none
    | some x => ((pred[x]?).getD none)

/-- The predicate as a function of the vertex alone (it is given the vertex and its entry). -/
def target (pred : Pred) (isT : Nat → Option Nat → Bool) (x : Nat) : Bool :=
  isT x ((pred[x]?).getD none)

example : search [some 1, some 2, some 3, none] 0 3 = .ret (some [0,1,2,3]) := by decide
example : search [some 1, some 0] 0 5 = .ret none := by decide
example : search [some 0] 0 5 = .ret none := by decide
example : search [some 7, none] 0 1 = .ret none := by decide
example : search [some 1, none] 2 1 = .panic := by decide

end GraafVerif.PredTree
