import GraafVerif.Spec.Graph
import GraafVerif.Model.PredTree
/-!
# Model of `Bfs`, `BfsDist`, `BfsPred`  (src/algo/bfs.rs, bfs_dist.rs, bfs_pred.rs)

The three iterators are the same code up to the *label* that travels with a queued vertex:

| iterator  | queue item          | label of a source | label of `v` discovered while scanning `u` with label `l` |
|-----------|---------------------|-------------------|-----------------------------------------------------------|
| `Bfs`     | `u`                 | `()`              | `()`                                                      |
| `BfsDist` | `(u, w)`            | `0`               | `w + 1`                                                   |
| `BfsPred` | `(pred, v)`         | `None`            | `Some(u)`                                                 |

so the model is written once over a labelling `Lab L` (an item is `(vertex, label)`; for
`BfsPred` the Rust tuple is `(label, vertex)` — the driver prints it in the Rust order).
`labFull` (level *and* predecessor) exists only for the proofs; `Proof/BfsSim.lean` shows that
the three real iterators are projections of it.

Literal points (code after the bounds `fix:` commits):
* `new`: `for u in sources { assert!(u < order); queue.push_back((u, lab0)); visited[u] = true }`
  — no `visited` test, so a repeated source is queued twice (outside the properties, modelled).
* `next`: `pop_front()?`, then `for v in out_neighbors(u) { assert!(v < order); if !visited[v] {
  visited[v] = true; queue.push_back((v, child)) } }`, `Some(item)`.
* `while`/`for … in self` loops are recursion on fuel; `Proof/BfsCore.lean` proves that every fuel
  `> order` gives the same result for distinct in-range sources (so fuel is a termination proof).
* A Rust panic is the outcome `Res.panic`, never a default value.
-/
namespace GraafVerif.Bfs
open GraafVerif

/-- Outcome of a call that may panic. -/
inductive Res (α : Type) where
  | panic
  | ok (a : α)
  deriving Repr, DecidableEq

structure St (L : Type) where
  queue : List (Nat × L)
  visited : List Bool

/-- The label discipline of one iterator. -/
structure Lab (L : Type) where
  init : L
  child : Nat → L → L

def labUnit : Lab Unit := ⟨(), fun _ _ => ()⟩
def labDist : Lab Nat := ⟨0, fun _ w => w + 1⟩
def labPred : Lab (Option Nat) := ⟨none, fun u _ => some u⟩
/-- level and predecessor together (proof device, not one of the Rust iterators). -/
def labFull : Lab (Nat × Option Nat) := ⟨(0, none), fun u l => (l.1 + 1, some u)⟩

def isVis (vis : List Bool) (v : Nat) : Bool := (vis[v]?).getD false

variable {L : Type}

/-- `if !visited[v] { visited[v] = true; queue.push_back((v, lab)) }`. -/
def discover (lab : L) (st : St L) (v : Nat) : St L :=
  if isVis st.visited v then st else ⟨st.queue ++ [(v, lab)], st.visited.set v true⟩

/-- The `for v in out_neighbors(u)` loop with its `assert!(v < order)`. -/
def scan (lab : L) : List Nat → St L → Res (St L)
  | [], st => .ok st
  | v :: vs, st => if v < st.visited.length then scan lab vs (discover lab st v) else .panic

/-- The `for u in sources` loop of `new`. -/
def newFrom (lab0 : L) : List Nat → St L → Res (St L)
  | [], st => .ok st
  | u :: us, st =>
    if u < st.visited.length then newFrom lab0 us ⟨st.queue ++ [(u, lab0)], st.visited.set u true⟩
    else .panic

def new (g : Graph) (lab : Lab L) (S : List Nat) : Res (St L) :=
  newFrom lab.init S ⟨[], List.replicate g.n false⟩

inductive Step (L : Type) where
  | done
  | panic
  | yield (item : Nat × L) (st : St L)

/-- `Iterator::next`. -/
def next (g : Graph) (lab : Lab L) (st : St L) : Step L :=
  match st.queue with
  | [] => .done
  | (u, l) :: q =>
    match scan (lab.child u l) (g.out u) ⟨q, st.visited⟩ with
    | .panic => .panic
    | .ok st' => .yield (u, l) st'

/-- Drive the iterator until `None` (at most `fuel` items). -/
def run (g : Graph) (lab : Lab L) : Nat → St L → Res (List (Nat × L))
  | 0, _ => .ok []
  | fuel+1, st =>
    match next g lab st with
    | .done => .ok []
    | .panic => .panic
    | .yield x st' =>
      match run g lab fuel st' with
      | .panic => .panic
      | .ok xs => .ok (x :: xs)

/-- Fuel used by the top-level functions: every `next` pops one queue entry and at most
`order + |sources|` entries are ever pushed. -/
def fuelFor (g : Graph) (S : List Nat) : Nat := g.n + S.length + 1

/-- `X::new(&digraph, sources).collect()` for a labelling. -/
def iter (g : Graph) (lab : Lab L) (S : List Nat) : Res (List (Nat × L)) :=
  match new g lab S with
  | .panic => .panic
  | .ok st => run g lab (fuelFor g S) st

/-- `Bfs::new(&d, sources)` collected. -/
def bfs (g : Graph) (S : List Nat) : Res (List Nat) :=
  match iter g labUnit S with
  | .panic => .panic
  | .ok xs => .ok (xs.map (·.1))

/-- `BfsDist::new(&d, sources)` collected: items `(u, w)`. -/
def bfsDist (g : Graph) (S : List Nat) : Res (List (Nat × Nat)) := iter g labDist S

/-- `BfsPred::new(&d, sources)` collected: items `(v, pred)` (Rust: `(pred, v)`). -/
def bfsPred (g : Graph) (S : List Nat) : Res (List (Nat × Option Nat)) := iter g labPred S

/-- `BfsDist::distances()`: `vec![usize::MAX; order]`, then `distances[u] = w` for every item.
`inf` is `usize::MAX`. -/
def distances (g : Graph) (S : List Nat) (inf : Nat) : Res (List Nat) :=
  match bfsDist g S with
  | .panic => .panic
  | .ok xs => .ok (xs.foldl (fun d (p : Nat × Nat) => d.set p.1 p.2) (List.replicate g.n inf))

/-- The vector a list of `(v, pred)` items writes into `PredecessorTree::new(order)`. -/
def predOf (n : Nat) (xs : List (Nat × Option Nat)) : PredTree.Pred :=
  xs.foldl (fun pr (p : Nat × Option Nat) => pr.set p.1 p.2) (List.replicate n none)

/-- `BfsPred::predecessors()`.  `PredecessorTree::new(order)` asserts `order > 0`. -/
def predecessors (g : Graph) (S : List Nat) : Res PredTree.Pred :=
  match new g labPred S with
  | .panic => .panic
  | .ok st =>
    if g.n = 0 then .panic
    else match run g labPred (fuelFor g S) st with
      | .panic => .panic
      | .ok xs => .ok (predOf g.n xs)

/-- The `for (u, v) in self.by_ref()` loop of `shortest_path`: record the predecessor, and at
the first target return `pred.search_by(v, |_, b| b.is_none())` reversed. -/
def spLoop (g : Graph) (isT : Nat → Bool) : Nat → St (Option Nat) → PredTree.Pred → Res (Option (List Nat))
  | 0, _, _ => .ok none
  | fuel+1, st, pred =>
    match next g labPred st with
    | .done => .ok none
    | .panic => .panic
    | .yield (v, u) st' =>
      let pred' := pred.set v u
      if isT v then
        match PredTree.searchBy pred' v (fun _ b => b.isNone) with
        | .panic => .panic
        | .ret r => .ok (r.map List.reverse)
      else spLoop g isT fuel st' pred'

/-- `BfsPred::shortest_path(is_target)`. -/
def shortestPath (g : Graph) (S : List Nat) (isT : Nat → Bool) : Res (Option (List Nat)) :=
  match new g labPred S with
  | .panic => .panic
  | .ok st =>
    if g.n = 0 then .panic
    else spLoop g isT (fuelFor g S) st (List.replicate g.n none)

/-- The inner `for x in out_neighbors(v)` loop of `cycles`: `pred.search(v, x)`, reversed. -/
def cyclesAt (pred : PredTree.Pred) (v : Nat) : List Nat → List (List Nat) → Res (List (List Nat))
  | [], acc => .ok acc
  | x :: xs, acc =>
    match PredTree.search pred v x with
    | .panic => .panic
    | .ret none => cyclesAt pred v xs acc
    | .ret (some p) => cyclesAt pred v xs (acc ++ [p.reverse])

/-- The `while let Some((u, v)) = self.next()` loop of `cycles`. -/
def cyLoop (g : Graph) : Nat → St (Option Nat) → PredTree.Pred → List (List Nat) → Res (List (List Nat))
  | 0, _, _, acc => .ok acc
  | fuel+1, st, pred, acc =>
    match next g labPred st with
    | .done => .ok acc
    | .panic => .panic
    | .yield (v, u) st' =>
      let pred' := pred.set v u
      match cyclesAt pred' v (g.out v) acc with
      | .panic => .panic
      | .ok acc' => cyLoop g fuel st' pred' acc'

/-- `BfsPred::cycles()`. -/
def cycles (g : Graph) (S : List Nat) : Res (List (List Nat)) :=
  match new g labPred S with
  | .panic => .panic
  | .ok st =>
    if g.n = 0 then .panic
    else cyLoop g (fuelFor g S) st (List.replicate g.n none) []

/-! Witnesses: the digraph of the `BfsDist` doc example, sources `[3, 7]`. -/
def g0 : Graph := ⟨8, fun u => match u with
  | 0 => [1] | 1 => [2,4] | 2 => [3,5,6] | 3 => [0] | 6 => [5,7] | 7 => [6] | _ => []⟩

example : bfsDist g0 [3,7] = .ok [(3,0),(7,0),(0,1),(6,1),(1,2),(5,2),(2,3),(4,3)] := by decide
example : bfs g0 [3,7] = .ok [3,7,0,6,1,5,2,4] := by decide
example : bfs g0 [8] = .panic := by decide
example : predecessors g0 [3,7] = .ok [some 3, some 0, some 1, none, some 1, some 6, some 7, none] := by decide
example : shortestPath g0 [3,7] (fun v => v == 2) = .ok (some [3,0,1,2]) := by decide
example : shortestPath g0 [4] (fun v => v == 2) = .ok none := by decide

end GraafVerif.Bfs
