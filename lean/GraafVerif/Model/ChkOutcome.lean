import GraafVerif.Model.Chk
/-!
# Outcome classes of the safe public API (C13 tie)

For every constructor / operation / algorithm entry point of graaf: does the call return or
panic, as a function of the digraph description and the arguments?  This is the *documented
contract* ("Panics if `u` isn't in the digraph", …) read off the `assert!`s and checked
indexing of the source; the correspondence run compares it with what the real code does under
the sanitizer builds.  Anything else the real code does (sanitizer report, signal, abort,
hang) is a `fault` and never reaches the driver.

`oc` = the build checks integer overflow (dev profile).  Only the order-0 `AdjacencyMap`
(reachable through `filter_vertices(|_| false)`) and `usize::MAX` vertex ids depend on it.
-/
namespace GraafVerif.Chk

/-- A digraph description as the harness builds it. -/
structure DG where
  repr : String
  /-- vertex ids, strictly ascending (`0..order` except for `am`) -/
  verts : List Nat
  arcs : List (Nat × Nat)
  /-- weights parallel to the description's arcs (`wu`, `wi`), later duplicates win -/
  warcs : List (Nat × Nat × Int)

namespace DG

def order (d : DG) : Nat := d.verts.length
def isV (d : DG) (x : Nat) : Bool := d.verts.contains x
def contiguous (d : DG) : Bool := d.repr != "am"
def unweighted (d : DG) : Bool := d.repr == "al" || d.repr == "am" || d.repr == "mx" || d.repr == "el"

def insertSorted (x : Nat) : List Nat → List Nat
  | [] => [x]
  | y :: ys => if x < y then x :: y :: ys else if x == y then y :: ys else y :: insertSorted x ys

def sortDedup (l : List Nat) : List Nat := l.foldl (fun acc x => insertSorted x acc) []

/-- `out_neighbors(u)` in the order every representation yields it (ascending). -/
def succs (d : DG) (u : Nat) : List Nat :=
  sortDedup ((d.arcs.filter (fun a => a.1 == u)).map (·.2))

/-- weighted successors, ascending by target, the last weight given for a pair wins -/
def wsuccs (d : DG) (u : Nat) : List (Nat × Nat) :=
  (d.succs u).map (fun v =>
    (v, ((d.warcs.filter (fun a => a.1 == u && a.2.1 == v)).getLast?.map (fun a => a.2.2.toNat)).getD 0))

end DG

def U64 : Nat := 2 ^ 64

/-- Outcome class of a call. -/
inductive Cls where
  | ret
  | panic
  deriving DecidableEq, Repr

def Cls.ofBool (panics : Bool) : Cls := if panics then .panic else .ret

/-! ## Constructors -/

/-- `chk_gen repr name args`: class and, when it returns, the order of the result. -/
def genOutcome (repr name : String) (a : List Nat) (pOk : Bool) : Option (Cls × Nat) :=
  let big (n : Nat) : Bool := repr == "mx" && n * n ≥ U64   -- `checked_mul` in `AdjacencyMatrix::empty`
  let std (n : Nat) : Option (Cls × Nat) := some (Cls.ofBool (n == 0 || big n), n)
  match name, a with
  | "empty", [n] => std n
  | "trivial", [] => some (.ret, 1)
  | "claw", [] => some (.ret, 4)
  | "utility", [] => some (.ret, 6)
  | "biclique", [m, n] => some (Cls.ofBool (m == 0 || n == 0), m + n)
  | "circuit", [n] => std n
  | "complete", [n] => std n
  | "cycle", [n] => std n
  | "path", [n] => std n
  | "star", [n] => std n
  | "wheel", [n] => some (Cls.ofBool (n < 4 || big n), n)
  | "er", [n, _, _] => some (Cls.ofBool (n == 0 || !pOk || big n), n)
  | "rrt", [n, _] => std n
  | "rt", [n, _] => std n
  | _, _ => none

/-- `From<rows>` for `al`, `am`, `wu`, `wi`: at least one row, no self-loop, every target `< len`. -/
def rowsPanics (rows : List (List Nat)) : Bool :=
  rows.isEmpty ||
  (List.zip (List.range rows.length) rows).any (fun (u, row) => row.any (fun v => v == u || v ≥ rows.length))

/-- `AdjacencyMatrix::from(pairs)`. -/
def mxPairsPanics (ps : List (Nat × Nat)) : Bool :=
  let m := ps.foldl (fun m p => max m (max p.1 p.2)) 0
  ps.isEmpty || ps.any (fun p => p.1 == p.2) || m + 1 ≥ U64 || (m + 1) * (m + 1) ≥ U64

/-- `EdgeList::from(pairs)`: `order: order + 1` overflows only for `usize::MAX`. -/
def elPairsPanics (oc : Bool) (ps : List (Nat × Nat)) : Bool :=
  let m := ps.foldl (fun m p => max m (max p.1 p.2)) 0
  ps.any (fun p => p.1 == p.2) || (oc && m + 1 ≥ U64)

/-- `From<other representation>`: `assert!(order > 0)`, per arc `assert!(v < order)` and `add_arc`'s `u < order`. -/
def fromPanics (src : DG) (dst : String) : Bool :=
  if dst == "am" then false
  else src.order == 0 || src.arcs.any (fun a => a.1 ≥ src.order || a.2 ≥ src.order)

/-! ## Queries and operations (`chk_q name desc args`) -/

def addArcPanics (d : DG) (u v : Nat) : Bool :=
  if d.repr == "am" then u == v else u == v || u ≥ d.order || v ≥ d.order

/-- `none` = the name does not exist for this representation / wrong arity. -/
def qPanics (oc : Bool) (d : DG) (name : String) (a : List Nat) : Option Bool :=
  let notV (x : Nat) : Bool := !d.isV x
  let weighted := !d.unweighted
  let zero := d.order == 0          -- only the order-0 map
  match name, a with
  -- a vertex argument that must be in the digraph
  | "indegree", [v] => some (notV v)
  | "outdegree", [u] => some (notV u)
  | "degree", [u] => some (notV u)
  | "is_sink", [u] => some (notV u)
  | "is_isolated", [u] => some (notV u)
  | "is_pendant", [u] => some (notV u)
  | "out_neighbors", [u] => some (notV u)
  | "out_neighbors_weighted", [u] => if weighted then some (notV u) else none
  -- a vertex argument with a neutral answer
  | "in_neighbors", [_] => some false
  | "is_source", [_] => some false
  | "has_arc", [_, _] => some false
  | "has_edge", [_, _] => some false
  | "arc_weight", [_, _] => if weighted then some false else none
  | "remove_arc", [_, _] => some false
  | "add_arc", [u, v] => if weighted then none else some (addArcPanics d u v)
  | "add_arc_weighted", [u, v] => if weighted then some (u == v || u ≥ d.order || v ≥ d.order) else none
  | "toggle", [u, v] => if d.repr == "mx" then some (addArcPanics d u v) else none
  -- no argument
  | "is_complete", [] => some (zero && oc)                 -- `order() - 1`
  | "is_semicomplete", [] => some (zero && oc)             -- `order * (order - 1) / 2`
  | "is_tournament", [] => some (zero && oc)
  | "is_regular", [] => some zero                          -- `.expect("a digraph has at least one vertex")`
  | "johnson", [] => if d.repr == "am" then some (d.verts.any (· ≥ d.order)) else none
  | "contiguous_order", [] => if d.repr == "am" then none else some false
  | "arcs_weighted", [] => if weighted then some false else none
  | "complement", [] => if weighted then none else some false
  | "clone_eq", [] => if weighted then none else some false
  | n, [] =>
    if ["arcs", "vertices", "order", "size", "degree_sequence", "indegree_sequence", "outdegree_sequence",
        "semidegree_sequence", "max_degree", "min_degree", "max_indegree", "min_indegree", "max_outdegree",
        "min_outdegree", "sinks", "sources", "is_balanced", "is_oriented", "is_simple", "is_symmetric",
        "tarjan", "converse"].contains n then some false else none
  | _, _ => none

/-- State of a history: only the vertex set matters for the outcome classes. -/
def histStep (d : DG) (verts : List Nat) (op : String) (x : Nat) (y : Option Nat) : Option (Bool × List Nat) :=
  let isV (z : Nat) : Bool := verts.contains z
  let addP (u v : Nat) : Bool := if d.repr == "am" then u == v else u == v || !isV u || !isV v
  match op, y with
  | "add", some y =>
    let p := addP x y
    some (p, if !p && d.repr == "am" then DG.insertSorted y (DG.insertSorted x verts) else verts)
  | "tog", some y =>
    let p := addP x y
    some (p, if !p && d.repr == "am" then DG.insertSorted y (DG.insertSorted x verts) else verts)
  | "rem", some _ => some (false, verts)
  | "has", some _ => some (false, verts)
  | "outdeg", none => some (!isV x, verts)
  | "indeg", none => some (!isV x, verts)
  | "outn", none => some (!isV x, verts)
  | _, _ => none

/-! ## Small types -/

/-- `DistanceMatrix::new(order, _)`: zero, `checked_mul` overflow, or `Vec::with_capacity` beyond
`isize::MAX` bytes (8-byte elements). -/
def dmNewPanics (n : Nat) : Bool := n == 0 || n * n ≥ U64 || n * n * 8 ≥ 2 ^ 63

/-- literal `DistanceMatrix { dist, infinity, order }` (public fields) -/
def dmPanics (name : String) (len order : Nat) (ix : List Nat) : Option Bool :=
  match name, ix with
  | "center", [] => some (order == 0)          -- `chunks(0)` panics
  | "diameter", [] => some (order == 0)
  | "eccentricities", [] => some (order == 0)
  | "is_connected", [] => some (order == 0)
  | "periphery", [] => some (order == 0)
  | "index", [i] => some (i ≥ len)
  | "index2", [i, j] => some (i * order + j ≥ len)
  | "index_mut2", [i, j] => some (i * order + j ≥ len)
  | _, _ => none

end GraafVerif.Chk
