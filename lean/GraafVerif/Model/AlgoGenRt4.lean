import GraafVerif.Model.AlgoGen3
import GraafVerif.Model.Par
/-!
# Runtime of the translator, fourth part (`Model/AlgoGen4.lean`): the parallel functions

Reading of the concurrency constructs (DESIGN.md §4.2; TRUSTED, see docs/AlgoGen.md, "Set 4"):
`available_parallelism().map_or(1, NonZero::get)` is the parameter `ap`; `spawn(move || body)` /
`s.spawn(..)` run `body` to completion at the spawn point and the handle is the value of `body`
(`h.join().unwrap()` / `.unwrap_unchecked()` is that value); `scope(|s| body)` runs `body` in place;
`Arc::new` / `Arc::clone` / `Mutex::new` / `.lock().unwrap_unchecked()` / `AtomicBool::new` /
`.load(Relaxed)` / `.store(b, Relaxed)` are the value, the same variable, direct access, a plain
Boolean variable.
-/
namespace GraafVerif.AlgoGen
variable {β ρ : Type}

/-- `a.div_ceil(b)`: panics for `b = 0` -/
def divCeilP (a b : Nat) : Blk β ρ Nat := if b = 0 then panic else .ok ((a + b - 1) / b)

/-- `a / b` on `usize`: panics for `b = 0` -/
def divP (a b : Nat) : Blk β ρ Nat := if b = 0 then panic else .ok (a / b)

/-- `a - b` on `usize` with the overflow checks of the dev / test profile -/
def subP (a b : Nat) : Blk β ρ Nat := if b ≤ a then .ok (a - b) else panic

/-- `v.sort_unstable_by_key(|&(k, _)| k)` / `sort_by_key`: the stable merge sort on the key (for an unstable sort
one of the admitted results; the covered code sorts lists with pairwise different keys) -/
def sortByKey1 {α : Type} (l : List (Nat × α)) : List (Nat × α) := l.mergeSort (fun a b => a.1 ≤ b.1)

/-- `v.chunks(k)`: consecutive pieces of length `k` (the last one shorter); panics for `k = 0` -/
def chunksP {α : Type} (l : List α) (k : Nat) : Blk β ρ (List (List α)) :=
  if k = 0 then panic else .ok ((List.range ((l.length + k - 1) / k)).map fun i => (l.drop (i * k)).take k)

/-- `it.step_by(k)`: the items at positions `0, k, 2k, ..`; panics for `k = 0` -/
def stepByP {α : Type} (l : List α) (k : Nat) : Blk β ρ (List α) :=
  if k = 0 then panic else .ok ((List.range ((l.length + k - 1) / k)).filterMap fun i => l[i * k]?)

end GraafVerif.AlgoGen
