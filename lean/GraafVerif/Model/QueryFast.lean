import GraafVerif.Model.Query
/-!
# Array twin of `AL.degreeSequence` for the compiled driver (large orders)

The list model of `AdjacencyList::degree_sequence` (`Model/Query.lean`) indexes lists in its last
step (`indeg[u]`, `rows[u]` for every `u`: quadratic in the order) and bumps list histograms (linear
per arc).  This twin has the same structure — per-chunk histograms for the given thread count `t`,
summed in order, plus the row lengths — with `Array`s for the histograms and the final lookups, so it
is linear in `order · t + arcs`.  `Proof/QueryFast.lean` proves
`degreeSequenceFast d t = degreeSequence d t` for every `d` and `t` (no hypotheses): the driver runs
the twin for large orders, the theorems of C02 are about the list model.
-/
namespace GraafVerif.Query.AL
open GraafVerif.Repr

def bumpA (h : Array Nat) (v : Nat) : Array Nat := h.setIfInBounds v (h[v]?.getD 0 + 1)
def histogramA (rows : List (List Nat)) (init : Array Nat) : Array Nat :=
  rows.foldl (fun h row => row.foldl bumpA h) init

def degreeSequenceFast (d : AdjList) (t : Nat) : List Nat :=
  let order := d.order
  let zeros := List.replicate order 0
  let zerosA := Array.replicate order 0
  let chunks := Par.ranges order t
  let locals := chunks.map (fun r => (histogramA ((d.rows.drop r.1).take (r.2 - r.1)) zerosA).toList)
  let locals := locals ++ List.replicate (t - chunks.length) zeros
  let indeg := (locals.foldl addVec zeros).toArray
  let rowsA := d.rows.toArray
  (List.range order).map (fun u => indeg[u]?.getD 0 + (rowsA[u]?.getD []).length)

/-- `indegree_sequence` (histogram fold) with an `Array` histogram. -/
def indegreeSequenceFast (d : AdjList) : List Nat := (histogramA d.rows (Array.replicate d.order 0)).toList

end GraafVerif.Query.AL
