import GraafVerif.Model.Pred
import GraafVerif.Model.QueryFast
/-!
# Array / bitset twins of the `AdjacencyList` models for the compiled driver (large orders)

The list models index `rows[u]` (linear) and test `row.contains v` (linear) for every pair, which makes
`is_semicomplete`, `is_tournament` and the blanket predicates cubic in the order (38 s for one dense case
of order 1030).  The twins below use
* `bits d`: one `Array Bool` per row (`bits[u][v] = true` iff `v ∈ rows[u]`, for `v < order`), built once;
* `buildRowsFast`: `empty(n)` + `add_arc` over an `Array` of rows (the list model rewrites the whole
  row vector per arc).
`Proof/PredFast.lean` proves every twin EQUAL to the list model, for every digraph / thread count /
description, without hypotheses; the driver runs the twins above order 128, the theorems of C12 are
about the list models.
-/
namespace GraafVerif.Pred.AL
open GraafVerif.Repr GraafVerif.Query

def bitRow (n : Nat) (row : List Nat) : Array Bool :=
  row.foldl (fun b x => b.setIfInBounds x true) (Array.replicate n false)
def bits (d : AdjList) : Array (Array Bool) := (d.rows.map (bitRow d.order)).toArray
/-- membership of `v` in row `u`: the bit for `v < order`, the list test otherwise -/
def memA (B : Array (Array Bool)) (n : Nat) (d : AdjList) (u v : Nat) : Bool :=
  if v < n then (B[u]?.getD #[])[v]?.getD false else (row d u).contains v

def pairOkF (B : Array (Array Bool)) (n : Nat) (d : AdjList) (u v : Nat) : Bool := memA B n d u v || memA B n d v u

def isSemicompleteFast (d : AdjList) (t : Nat) : Bool :=
  if d.order == 1 then true
  else if d.size < d.order * (d.order - 1) / 2 then false
  else
    let B := bits d
    let n := d.order   -- `order()` is O(1) in Rust, `List.length` here: computed once
    (Par.ranges n t).all (fun r =>
      (List.range' r.1 (r.2 - r.1)).all (fun u => (above u n).all (pairOkF B n d u)))

def isTournamentFast (d : AdjList) : Bool :=
  if d.size != d.order * (d.order - 1) / 2 then false
  else
    let B := bits d
    let n := d.order
    (List.range n).all (fun u => (above u n).all (fun v => !(memA B n d u v == memA B n d v u)))

/-- The query record with `has_arc`, `indegree`, `outdegree` answered from the bitset / row array
(what the blanket predicates use). -/
def coreFast (d : AdjList) : Core :=
  let B := bits d
  let n := d.order
  let rowsA := d.rows.toArray
  { order := n
    vertices := d.vertices
    arcs := d.arcs
    size := d.size
    hasArc := fun u v => memA B n d u v
    hasEdge := Query.AL.hasEdge d
    hasWalk := Query.AL.hasWalk d
    outNeighbors := d.outNeighbors
    inNeighbors := Query.AL.inNeighbors d
    indegree := fun v =>
      if v < n then some (((List.range n).filter (fun u => memA B n d u v)).length) else none
    isSource := Query.AL.isSource d
    outdegree := fun u => (rowsA[u]?).map List.length
    isSink := Query.AL.isSink d
    -- (a structure is built eagerly: the list histogram would cost `arcs * order` steps here)
    indegreeSequence := some (Query.AL.indegreeSequenceFast d)
    degreeSequence := fun t => some (Query.AL.degreeSequenceFast d t) }

/-- `empty(n)` then `add_arc` for every arc of the description, over an `Array` of rows. -/
def addArcA (A : Array (List Nat)) (u v : Nat) : Option (Array (List Nat)) :=
  if u = v then none else if ¬ u < A.size then none else if ¬ v < A.size then none
  else some (A.setIfInBounds u (sinsert v (A[u]?.getD [])))

def buildRowsFast (n : Nat) (arcs : List (Nat × Nat)) : Option AdjList :=
  if n = 0 then none
  else (arcs.foldlM (fun A a => addArcA A a.1 a.2) (Array.replicate n [])).map (fun A => ⟨A.toList⟩)

end GraafVerif.Pred.AL
