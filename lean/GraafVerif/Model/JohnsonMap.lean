import GraafVerif.Spec.Graph
/-!
# `AdjacencyMap` as Johnson75 sees it: a key list and rows; `filter_vertices`

`src/repr/adjacency_map/mod.rs`: `arcs : BTreeMap<usize, BTreeSet<usize>>`.
(Line numbers as of /repo commit e601b92.)
`vertices()` = keys ascending (l.1333), `out_neighbors(u)` = row of `u` ascending (l.912),
`order()` = number of keys (l.898).

`filter_vertices(p)` (l.648-668): for every key `u` with `p u`: create the entry of `u`, and
for every out-neighbour `v` with `p v` insert `v` into the row of `u` and create the entry of
`v`.  Every out-neighbour is itself a key (invariant of `AdjacencyMap`: `add_arc` inserts both
ends, `remove_arc` keeps them), so "create the entry of `v`" never adds a key that the outer
loop does not add as well, and the result is: keys = the keys satisfying `p`, row of `u` = the
members of the old row satisfying `p`.  That closed form is what is modelled here.
-/
namespace GraafVerif.Johnson

/-- Keys ascending + row function (rows ascending). Rows of non-keys are never consulted by
Johnson75 / Tarjan on inputs whose out-neighbours are keys. -/
structure AM where
  verts : List Nat
  out : Nat → List Nat

/-- The input digraph: vertex set `0..n`. -/
def AM.ofGraph (g : Graph) : AM := ⟨List.range g.n, g.out⟩

def AM.order (a : AM) : Nat := a.verts.length

/-- `AdjacencyMap::filter_vertices`. -/
def AM.filter (a : AM) (p : Nat → Bool) : AM :=
  ⟨a.verts.filter p, fun u => if p u then (a.out u).filter p else []⟩

end GraafVerif.Johnson
