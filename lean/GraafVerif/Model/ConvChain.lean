import GraafVerif.Model.Conv
/-!
# Chains of conversions (C16): a digraph in any representation, `T::from(previous)` along a
list of representation tags

`convert src tag`: outer `none` = graaf has no such `From` impl (same type, or from the weighted
list), inner `none` = the conversion panics.  `runChain` is what the driver replays for a
`conv_chain` case; `Thm/C16.chain_preserves` is about this very function.
-/
namespace GraafVerif.Conv
open GraafVerif.Repr

inductive Any where
  | al (d : AdjList) | am (d : AdjMap) | mx (d : AdjMatrix) | el (d : EdgeList) | wl (d : AdjListW)

def Any.order : Any → Nat
  | .al d => d.order | .am d => d.order | .mx d => d.order | .el d => d.order | .wl d => d.order

def Any.arcs : Any → List (Nat × Nat)
  | .al d => d.arcs | .am d => d.arcs | .mx d => d.arcs | .el d => d.arcs | .wl d => d.arcs

/-- `T::from(src)` for the representation named by `tag` (`wu`/`wi` share the weighted model). -/
def convert (src : Any) (tag : String) : Option (Option Any) :=
  match src, tag with
  | .al d, "am" => some ((alToAM d).map .am)
  | .al d, "mx" => some ((alToMX d).map .mx)
  | .al d, "el" => some ((alToEL d).map .el)
  | .al d, "wu" | .al d, "wi" => some ((alToWL d).map .wl)
  | .am d, "al" => some ((amToAL d).map .al)
  | .am d, "mx" => some ((amToMX d).map .mx)
  | .am d, "el" => some ((amToEL d).map .el)
  | .am d, "wu" | .am d, "wi" => some ((amToWL d).map .wl)
  | .mx d, "al" => some ((mxToAL d).map .al)
  | .mx d, "am" => some ((mxToAM d).map .am)
  | .mx d, "el" => some ((mxToEL d).map .el)
  | .mx d, "wu" | .mx d, "wi" => some ((mxToWL d).map .wl)
  | .el d, "al" => some ((elToAL d).map .al)
  | .el d, "am" => some ((elToAM d).map .am)
  | .el d, "mx" => some ((elToMX d).map .mx)
  | .el d, "wu" | .el d, "wi" => some ((elToWL d).map .wl)
  | _, _ => none

/-- The digraphs produced along the chain (`none` entry = that step panicked and ends the
chain); outer `none` = the path names a conversion that does not exist. -/
def runChain : Any → List String → Option (List (Option Any))
  | _, [] => some []
  | cur, tag :: rest =>
    match convert cur tag with
    | none => none
    | some none => some [none]
    | some (some nxt) => (runChain nxt rest).map (some nxt :: ·)

end GraafVerif.Conv
