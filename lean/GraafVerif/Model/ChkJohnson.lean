import GraafVerif.Model.Chk
import GraafVerif.Model.ChkRepr
/-!
# `Chk` model of the B-list indexing of `Johnson75` (src/algo/johnson_75.rs) — C13, P1

`self.b : Vec<BTreeSet<usize>>` has `a.order()` entries and is indexed through `b_ptr.add(·)` by
vertex ids: in `unblock` (`u`, and every `v` popped from a B-list), in `circuit` (`w`, a successor
inside the current component) and in `circuits` (`vertex` of the component).  The subgraphs, Tarjan
and `filter_vertices` are safe code: a component enters the model as its vertex list `cs`, its
out-neighbour function `out` (`none` = `out_neighbors` panics) and the start vertex.
`circuits` asserts (after the fix) that every vertex id of `a` is below the order.
-/
namespace GraafVerif.Chk

structure JSt where
  b : List (List Nat)
  blocked : List Nat
  stack : List Nat
  result : List (List Nat)

/-- `unblock` (`drain = false`) and its `while let Some(v) = (*b_ptr.add(u)).pop_first()` loop
(`drain = true`), one function so that the recursion is structural on fuel. -/
def jUnblock : Nat → Bool → JSt → Nat → Chk JSt
  | 0, _, st, _ => pure st
  | fuel + 1, false, st, u =>
    if st.blocked.contains u then jUnblock fuel true { st with blocked := st.blocked.erase u } u
    else pure st
  | fuel + 1, true, st, u => do
    let bu ← rd "johnson_75.rs:unblock:b_ptr.add(u)" st.b u
    match bu with
    | [] => pure st
    | v :: rest => do
      let b' ← wr "johnson_75.rs:unblock:b_ptr.add(u)" st.b u rest
      let st' ← jUnblock fuel false { st with b := b' } v
      jUnblock fuel true st' u

/-- the `else` branch of `circuit`: `(*b_ptr.add(w)).insert(v)` for every successor `w` -/
def jBlockOn (v : Nat) (st : JSt) (w : Nat) : Chk JSt := do
  let row ← rd "johnson_75.rs:circuit:b_ptr.add(w)" st.b w
  let b' ← wr "johnson_75.rs:circuit:b_ptr.add(w)" st.b w (setInsert v row)
  pure { st with b := b' }

/-- `circuit(v, s, scc, result)`. -/
def jCircuit (out : Nat → Option (List Nat)) (s uf : Nat) : Nat → JSt → Nat → Chk (JSt × Bool)
  | 0, st, _ => pure (st, false)
  | fuel + 1, st, v =>
    match out v with
    | none => throw .panic
    | some ws => do
      let st1 : JSt := { st with stack := v :: st.stack, blocked := setInsert v st.blocked }
      let r ← ws.foldlM (fun (acc : JSt × Bool) w =>
        if w == s then pure ({ acc.1 with result := acc.1.stack.reverse :: acc.1.result }, true)
        else if !acc.1.blocked.contains w then do
          let r ← jCircuit out s uf fuel acc.1 w
          pure (r.1, acc.2 || r.2)
        else pure acc) (st1, false)
      let st3 ← (if r.2 then jUnblock uf false r.1 v else ws.foldlM (jBlockOn v) r.1)
      pure ({ st3 with stack := st3.stack.tail }, r.2)

/-- the reset loop of `circuits`: `blocked.remove(&vertex)`, `b_ptr.add(vertex).as_mut() → clear()` -/
def jReset (st : JSt) (vertex : Nat) : Chk JSt := do
  let _ ← rd "johnson_75.rs:circuits:b_ptr.add(vertex)" st.b vertex
  let b' ← wr "johnson_75.rs:circuits:b_ptr.add(vertex)" st.b vertex []
  pure { st with b := b', blocked := st.blocked.erase vertex }

/-- A component as the safe part of `circuits` hands it over. -/
structure JComp where
  cs : List Nat
  out : Nat → Option (List Nat)
  start : Nat

/-- `Johnson75::new(a)` + `circuits()`: `order = a.order()`, `verts = a.vertices()`. -/
def jCircuits (order : Nat) (verts : List Nat) (comps : List JComp) (uf cf : Nat) : Chk (List (List Nat)) := do
  assert (verts.all (fun u => decide (u < order)))            -- "the digraph's vertices aren't contiguous"
  let st ← comps.foldlM (fun (st : JSt) c => do
    let st1 ← c.cs.foldlM jReset st
    let r ← jCircuit c.out c.start uf cf st1 c.start
    pure r.1) ⟨List.replicate order [], [], [], []⟩
  pure st.result

end GraafVerif.Chk
