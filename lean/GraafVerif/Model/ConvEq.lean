import GraafVerif.Model.ConvChain
/-!
# Structural identity checks of C16 (what the harness observes with the implementation's `==`)

`rebuild d`: the same digraph built again by `empty(order)` + `add_arc` over `d.arcs()`
(`add_arc_weighted` over `arcs_weighted()` for the weighted list).  `eqChecks x`: for a digraph in
any representation, `x == rebuild(x)` followed by `x == T::from(S::from(x.clone()))` for every
other unweighted representation `S` (in the order al, am, mx, el, skipping `T` itself).
`Thm/C16.eqChecks_true` proves that every entry is `true` for a valid digraph, so the driver may
predict `true` without replaying the conversions on large inputs.
-/
namespace GraafVerif.Conv
open GraafVerif.Repr

def AL.rebuild (d : AdjList) : Option AdjList := do
  let e ← AdjList.empty d.order
  d.arcs.foldlM (fun g a => g.addArc a.1 a.2) e
def AM.rebuild (d : AdjMap) : Option AdjMap := do
  let e ← AdjMap.empty d.order
  d.arcs.foldlM (fun g a => g.addArc a.1 a.2) e
def MX.rebuild (d : AdjMatrix) : Option AdjMatrix := do
  let e ← AdjMatrix.empty d.order
  d.arcs.foldlM (fun g a => g.addArc a.1 a.2) e
def EL.rebuild (d : EdgeList) : Option EdgeList := do
  let e ← EdgeList.empty d.order
  d.arcs.foldlM (fun g a => g.addArc a.1 a.2) e
def WL.rebuild (d : AdjListW) : Option AdjListW := do
  let e ← AdjListW.empty d.order
  d.arcsWeighted.foldlM (fun g a => g.addArcWeighted a.1 a.2.1 a.2.2) e

def eqChecks : Any → List Bool
  | .al d => [decide (AL.rebuild d = some d), decide ((alToAM d).bind amToAL = some d),
              decide ((alToMX d).bind mxToAL = some d), decide ((alToEL d).bind elToAL = some d)]
  | .am d => [decide (AM.rebuild d = some d), decide ((amToAL d).bind alToAM = some d),
              decide ((amToMX d).bind mxToAM = some d), decide ((amToEL d).bind elToAM = some d)]
  | .mx d => [decide (MX.rebuild d = some d), decide ((mxToAL d).bind alToMX = some d),
              decide ((mxToAM d).bind amToMX = some d), decide ((mxToEL d).bind elToMX = some d)]
  | .el d => [decide (EL.rebuild d = some d), decide ((elToAL d).bind alToEL = some d),
              decide ((elToAM d).bind amToEL = some d), decide ((elToMX d).bind mxToEL = some d)]
  | .wl d => [decide (WL.rebuild d = some d)]

end GraafVerif.Conv
