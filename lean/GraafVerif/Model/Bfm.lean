import GraafVerif.Spec.Graph
/-!
# Model of `BellmanFordMoore::{new, distances}`  (src/algo/bellman_ford_moore.rs)

* `dist : Vec<isize>` is a `List (Option Int)`; `none` is the sentinel `isize::MAX`
  ("not reached").  Path-sum overflow is outside the property ("weights whose path sums fit
  in isize"), so every number the code writes is `< isize::MAX` and the comparison
  `*dist_v > w` against the sentinel is `true` for every written `w` (`gtInf none _ = true`).
* `arcs : Vec<(usize, usize, isize)>` is the list `arcs_weighted()` yields: rows ascending by
  tail, inside a row ascending by head (`arcsOf`).
* The `while i < arcs_len` loop with its literally four times unrolled body and the three
  `if i < arcs_len` guards is `roundLoop` (structural recursion on fuel; `round` fixes the fuel
  `arcs.length`, `Proof/Bfm.lean: roundLoop_eq_foldl` shows that every fuel with
  `arcs.length ≤ i + 4 * fuel` gives the same result, namely the plain left fold of `relax`).
* `for _ in 1..order { …; if !updated { break } }` is `rounds` (structural on the `order - 1`
  iterations of the `for`, not fuel).
* The final `for i in 0..arcs_len { if … { return None } }` is `finalScan`.
* `assert!(s < order)` in `new` is the `panic` outcome.
-/
namespace GraafVerif.Bfm

abbrev Arc := Nat × Nat × Int
/-- `none` = `isize::MAX`. -/
abbrev Dist := List (Option Int)

/-- `arcs_weighted()` of an `AdjacencyListWeighted`: `enumerate().flat_map(row.iter())`. -/
def arcsOf (g : WGraph) : List Arc :=
  (List.range g.n).flatMap (fun u => (g.out u).map (fun vw => (u, vw.1, vw.2)))

/-- `*dist_v > w` where `dist_v` may be the sentinel. -/
def gtInf : Option Int → Int → Bool
  | none, _ => true
  | some dv, w => decide (dv > w)

/-- One relaxation block of the source (lines 273-284, repeated at 290-301, 307-318, 324-335):
```
let (u, v, w) = arcs[i];  let dist_u = dist[u];
if dist_u != isize::MAX { let w = dist_u + w; if dist[v] > w { dist[v] = w; updated = true; } }
```
The state is `(dist, updated)`. -/
def relax (st : Dist × Bool) (a : Arc) : Dist × Bool :=
  match st.1[a.1]?.getD none with
  | none => st
  | some du =>
    let w := du + a.2.2
    if gtInf (st.1[a.2.1]?.getD none) w then (st.1.set a.2.1 (some w), true) else st

/-- `if i < arcs_len { relax arcs[i] }` (the first block of the loop body has the guard from
the `while` condition). -/
def relaxAt (arcs : List Arc) (i : Nat) (st : Dist × Bool) : Dist × Bool :=
  if h : i < arcs.length then relax st arcs[i] else st

/-- The `while i < arcs_len` loop, body unrolled four times exactly as in the source. -/
def roundLoop (arcs : List Arc) : Nat → Nat → Dist × Bool → Dist × Bool
  | 0, _, st => st
  | fuel+1, i, st =>
    if i < arcs.length then
      let st := relaxAt arcs i st          -- block 1 (guard = loop condition)
      let i := i + 1
      let st := relaxAt arcs i st          -- block 2: `if i < arcs_len`
      let i := i + 1
      let st := relaxAt arcs i st          -- block 3: `if i < arcs_len`
      let i := i + 1
      let st := relaxAt arcs i st          -- block 4: `if i < arcs_len`
      let i := i + 1
      roundLoop arcs fuel i st
    else st

/-- One pass of the outer `for`: `updated = false; i = 0; while …`. -/
def round (arcs : List Arc) (d : Dist) : Dist × Bool :=
  roundLoop arcs arcs.length 0 (d, false)

/-- `for _ in 1..order { round; if !updated { break } }` with `k = order - 1` iterations left. -/
def rounds (arcs : List Arc) : Nat → Dist → Dist
  | 0, d => d
  | k+1, d =>
    let r := round arcs d
    if r.2 then rounds arcs k r.1 else r.1

/-- `dist_u != isize::MAX && dist[v] > dist_u + w`. -/
def stillRelaxable (d : Dist) (a : Arc) : Bool :=
  match d[a.1]?.getD none with
  | none => false
  | some du => gtInf (d[a.2.1]?.getD none) (du + a.2.2)

/-- The final scan: `true` = `return None`. -/
def finalScan (d : Dist) : List Arc → Bool
  | [] => false
  | a :: rest => if stillRelaxable d a then true else finalScan d rest

/-- `new`: `vec![isize::MAX; order]` with `dist[s] = 0`. -/
def init (n s : Nat) : Dist := (List.replicate n none).set s (some 0)

inductive Res where
  | panic
  | ret (d : Option Dist)
  deriving DecidableEq, Repr

/-- `BellmanFordMoore::new(&digraph, s).distances()` on an explicit arc vector. -/
def distancesArcs (n : Nat) (arcs : List Arc) (s : Nat) : Res :=
  if s < n then
    let d := rounds arcs (n - 1) (init n s)
    if finalScan d arcs then .ret none else .ret (some d)
  else .panic

def distances (g : WGraph) (s : Nat) : Res := distancesArcs g.n (arcsOf g) s

/-! ### Repeated calls on the same object

`distances(&mut self)` keeps working on `self.dist`: a second call starts from the vector the first
call left behind (it is NOT re-initialised).  `distancesFrom` is one call on an object whose `dist`
is `d` (result, new `dist`); `repeatFrom` is `k` calls in a row. -/

def distancesFrom (n : Nat) (arcs : List Arc) (d : Dist) : Option Dist × Dist :=
  let d' := rounds arcs (n - 1) d
  (if finalScan d' arcs then none else some d', d')

def repeatFrom (n : Nat) (arcs : List Arc) : Nat → Dist → List (Option Dist)
  | 0, _ => []
  | k+1, d =>
    let r := distancesFrom n arcs d
    r.1 :: repeatFrom n arcs k r.2

/-- `let mut b = BellmanFordMoore::new(&g, s); [b.distances(); k]` — `none` = the panic of `new`. -/
def distancesRepeat (g : WGraph) (s k : Nat) : Option (List (Option Dist)) :=
  if s < g.n then some (repeatFrom g.n (arcsOf g) k (init g.n s)) else none

/-- Number of passes of the outer `for` that were executed and whether the loop was left through
the `break` (driver tags only). -/
def roundsUsed (arcs : List Arc) : Nat → Dist → Nat × Bool
  | 0, _ => (0, false)
  | k+1, d =>
    let r := round arcs d
    if r.2 then ((roundsUsed arcs k r.1).1 + 1, (roundsUsed arcs k r.1).2) else (1, true)

/-- The doc example of the source (distances `[0, 8, 3, 1, -4, -1]`). -/
example : distancesArcs 6 [(0,1,8),(0,2,4),(1,2,-5),(2,3,-2),(2,4,4),(3,5,-2),(4,3,10),(4,5,9),(5,3,5),(5,4,-3)] 0
    = .ret (some [some 0, some 8, some 3, some 1, some (-4), some (-1)]) := by decide
/-- The negative-circuit doc example. -/
example : distancesArcs 3 [(0,1,-2),(1,2,-1),(2,0,-1)] 0 = .ret none := by decide

end GraafVerif.Bfm
