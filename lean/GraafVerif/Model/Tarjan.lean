/-!
# Model of `Tarjan::components` / `Tarjan::connect`  (src/algo/tarjan.rs:174-227)

The algorithm works on vertex IDS (maps keyed by id), never on positions `0..order`, so the
model is generic over a vertex list and an out-neighbour function (`VGraph`); a non-contiguous
`AdjacencyMap` is just a `VGraph` whose `verts` is not `0..n`.

* `index`, `low_link : BTreeMap<usize,usize>` → `Map` (association list with replace-in-place
  `mset`; only the law `mget (mset m k v) x = if x = k then some v else mget m x` is used);
* `on_stack : BTreeSet<usize>` → list used as a set (`insert` = cons, `remove` = filter);
* `stack : Vec<usize>` → list, top = head;  `components : Vec<BTreeSet>` → list of strictly
  ascending lists in emission order (`push` = append);
* the recursion `connect` → structural recursion on fuel (`Fault.fuel` when it runs out;
  `Proof/Tarjan` shows it never does for fuel ≥ number of un-indexed vertices);
* `self.low_link[&x]` (BTreeMap `Index`, panics on a missing key) and the `assert!` of
  `out_neighbors(u)` for an unknown vertex → `Fault.panic`, never a default value.

No imports: usable from the compiled driver.
-/
namespace GraafVerif.Tarjan

/-- What `OutNeighbors + Vertices` offer: the vertex ids in iteration order and, per vertex, the
out-neighbours in iteration order. -/
structure VGraph where
  verts : List Nat
  out : Nat → List Nat

abbrev Map := List (Nat × Nat)

def mget : Map → Nat → Option Nat
  | [], _ => none
  | (k, v) :: m, x => if x = k then some v else mget m x

def mset : Map → Nat → Nat → Map
  | [], x, v => [(x, v)]
  | (k, w) :: m, x, v => if x = k then (k, v) :: m else (k, w) :: mset m x v

/-- `BTreeSet::insert` into a strictly ascending list. -/
def insertAsc (x : Nat) : List Nat → List Nat
  | [] => [x]
  | y :: ys => if x < y then x :: y :: ys else if x = y then y :: ys else y :: insertAsc x ys

inductive Fault where
  | fuel
  | panic
  deriving DecidableEq, Repr

/-- The fields of `struct Tarjan` (without the digraph reference). -/
structure St where
  i : Nat := 0
  stack : List Nat := []
  onStack : List Nat := []
  index : Map := []
  low : Map := []
  comps : List (List Nat) := []
  fault : Option Fault := none

/-- Lines 191-197: insert `u` into `index`, `low_link`, `on_stack`; push; `i += 1`. -/
def enter (u : Nat) (s : St) : St :=
  { s with index := mset s.index u s.i, low := mset s.low u s.i,
           onStack := u :: s.onStack, stack := u :: s.stack, i := s.i + 1 }

/-- One iteration of the `for v in out_neighbors(u)` loop (lines 199-211); `rec` is the
recursive `connect`.  A fault aborts everything that follows. -/
def visit (rec : Nat → St → St) (u : Nat) (s : St) (v : Nat) : St :=
  if s.fault.isSome then s else
  match mget s.index v with
  | some w =>
    if s.onStack.contains v then
      match mget s.low u with
      | some lu => { s with low := mset s.low u (min lu w) }
      | none => { s with fault := some .panic }
    else s
  | none =>
    let s' := rec v s
    if s'.fault.isSome then s' else
    match mget s'.low u, mget s'.low v with
    | some lu, some lv => { s' with low := mset s'.low u (min lu lv) }
    | _, _ => { s' with fault := some .panic }

/-- The `while let Some(v) = self.stack.pop()` loop (lines 216-223) on
`(stack, on_stack, component)`. -/
def popTo (u : Nat) : List Nat → List Nat → List Nat → List Nat × List Nat × List Nat
  | [], on, c => ([], on, c)
  | v :: st, on, c =>
    if u = v then (st, on.filter (· != v), insertAsc v c)
    else popTo u st (on.filter (· != v)) (insertAsc v c)

/-- Lines 213-226. -/
def finish (u : Nat) (s : St) : St :=
  if s.fault.isSome then s else
  if mget s.index u = mget s.low u then
    let r := popTo u s.stack s.onStack []
    { s with stack := r.1, onStack := r.2.1, comps := s.comps ++ [r.2.2] }
  else s

/-- `Tarjan::connect`. -/
def connect (g : VGraph) : Nat → Nat → St → St
  | 0, _, s => { s with fault := some .fuel }
  | fuel+1, u, s =>
    if g.verts.contains u then
      finish u ((g.out u).foldl (visit (connect g fuel) u) (enter u s))
    else { enter u s with fault := some .panic }     -- `out_neighbors(u)` asserts `u` is a vertex

/-- Number of vertices without an index. -/
def unindexed (g : VGraph) (s : St) : Nat :=
  (g.verts.filter (fun v => (mget s.index v).isNone)).length

/-- Body of the `for u in self.digraph.vertices()` loop (lines 178-182). -/
def top (g : VGraph) (s : St) (u : Nat) : St :=
  if s.fault.isSome then s
  else if (mget s.index u).isSome then s
  else connect g (unindexed g s + 1) u s

def run (g : VGraph) : St := g.verts.foldl (top g) {}

/-- `top`/`run` with an arbitrary fuel supply (only used to STATE fuel adequacy: for every supply
that is at least the number of un-indexed vertices the run is the same, `Thm/C09`). -/
def topWith (g : VGraph) (fuelOf : St → Nat) (s : St) (u : Nat) : St :=
  if s.fault.isSome then s
  else if (mget s.index u).isSome then s
  else connect g (fuelOf s) u s

def runWith (g : VGraph) (fuelOf : St → Nat) : St := g.verts.foldl (topWith g fuelOf) {}

inductive Res where
  | fuel
  | panic
  | ret (cs : List (List Nat))
  deriving DecidableEq, Repr

/-- `Tarjan::new(&g).components()`. -/
def components (g : VGraph) : Res :=
  match (run g).fault with
  | some .fuel => .fuel
  | some .panic => .panic
  | none => .ret (run g).comps

/-- What a caller sees of a state: `&self.components` unless the call panicked. -/
def resOf (s : St) : Res :=
  match s.fault with
  | some .fuel => .fuel
  | some .panic => .panic
  | none => .ret s.comps

/-- State of ONE `Tarjan` value after `k` calls of `components()` (`&mut self`: the fields are
carried over; a later call runs the same loop, which skips every vertex that has an index). -/
def callN (g : VGraph) : Nat → St
  | 0 => {}
  | k+1 => g.verts.foldl (top g) (callN g k)

/-- What the `k`-th call (`k ≥ 1`) of `components()` on the same value returns. -/
def componentsAt (g : VGraph) (k : Nat) : Res := resOf (callN g k)

/-- The doc example of tarjan.rs. -/
def exampleGraph : VGraph :=
  ⟨[0,1,2,3,4,5,6,7], fun u => match u with
    | 0 => [1] | 1 => [2,4] | 2 => [3,6] | 3 => [2,7] | 4 => [0,5] | 5 => [6] | 6 => [5] | 7 => [3,6]
    | _ => []⟩

example : components exampleGraph = .ret [[5,6],[2,3,7],[0,1,4]] := by decide

/-- A non-contiguous digraph: ids 3, 7, 1000. -/
example : components ⟨[3,7,1000], fun u => if u = 3 then [1000] else if u = 1000 then [3] else []⟩
    = .ret [[3,1000],[7]] := by decide

/-- … and a second call on the same value returns the same list. -/
example : componentsAt ⟨[3,7,1000], fun u => if u = 3 then [1000] else if u = 1000 then [3] else []⟩ 2
    = .ret [[3,1000],[7]] := by decide

end GraafVerif.Tarjan
