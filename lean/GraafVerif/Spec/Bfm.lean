import GraafVerif.Spec.Graph
/-!
# Declarative notions of C07 (Bellman-Ford-Moore)

A distance vector is a `List (Option Int)`; `none` is the sentinel (`isize::MAX`).
-/
namespace GraafVerif.Bfm

/-- `d` is exact for source `s`: one entry per vertex, a finite entry is the minimum weight of
a walk from `s`, and the sentinel stands only at vertices `s` does not reach.  (That it stands at
EVERY unreachable vertex follows: a finite entry is a walk weight — `C07.exact_inf_iff`.) -/
def Exact (g : WGraph) (s : Nat) (d : List (Option Int)) : Prop :=
  d.length = g.n ∧
  (∀ v x, d[v]? = some (some x) → IsMinDist g [s] v x) ∧
  (∀ v, d[v]? = some none → ¬ WReachFrom g [s] v)

/-- A negative-weight circuit is reachable from `s`. -/
def NegReachable (g : WGraph) (s : Nat) : Prop := ∃ x, WReachFrom g [s] x ∧ NegCycleAt g x

end GraafVerif.Bfm
