import GraafVerif.Spec.Repr
/-!
# Executable form of the spec: a plain, unsorted list of weighted arcs over a list of vertices

`LSpec` is what the driver's PROPFAIL oracle runs (`Driver/H01.lean`, `Driver/H20.lean`): no sorted
containers, no rows, no bits — `add` = drop the pair, cons the new triple; `remove` = filter;
`toggle` = filter or cons.  `Proof/ReprExec.lean` proves that these calls are `specStep` /
`specStepMx` on the abstraction `LSpec.absW` / `LSpec.absU`, so the oracle *is* the spec of
`Spec/Repr.lean` run on a concrete data structure.  (The `weighted` / `hasTog` flags only
steer which calls the driver accepts.)
-/
namespace GraafVerif.ReprSpec

structure LSpec where
  fixed : Bool
  weighted : Bool
  hasTog : Bool
  verts : List Nat
  arcs : List (Nat × Nat × Int)

namespace LSpec
def isKey (u v : Nat) (a : Nat × Nat × Int) : Bool := a.1 == u && a.2.1 == v
def has (s : LSpec) (u v : Nat) : Bool := s.arcs.any (isKey u v)
def drop (s : LSpec) (u v : Nat) : List (Nat × Nat × Int) := s.arcs.filter (fun a => !(isKey u v a))
def isV (s : LSpec) (x : Nat) : Bool := s.verts.contains x
def rejects (s : LSpec) (u v : Nat) : Bool := u == v || (s.fixed && !(s.isV u && s.isV v))
def growV (s : LSpec) (u v : Nat) : List Nat :=
  if s.fixed then s.verts
  else
    let vs := if s.verts.contains u then s.verts else u :: s.verts
    if vs.contains v then vs else v :: vs
def put (s : LSpec) (u v : Nat) (w : Int) : LSpec × Out :=
  if s.rejects u v then (s, .panic)
  else ({ s with verts := s.growV u v, arcs := (u, v, w) :: s.drop u v }, .unit)
def remove (s : LSpec) (u v : Nat) : LSpec × Out := ({ s with arcs := s.drop u v }, .bool (s.has u v))
def toggle (s : LSpec) (u v : Nat) : LSpec × Out :=
  if s.rejects u v then (s, .panic)
  else if s.has u v then ({ s with arcs := s.drop u v }, .unit)
  else ({ s with arcs := (u, v, 1) :: s.arcs }, .unit)
def weight (s : LSpec) (u v : Nat) : Option Int := (s.arcs.find? (isKey u v)).map (·.2.2)

def kind (s : LSpec) : Kind := if s.fixed then .fixed else .growing
/-- Abstraction of a weighted oracle state. -/
def absW (s : LSpec) : SpecState Int := ⟨s.isV, s.weight⟩
/-- Abstraction of an unweighted oracle state (weights forgotten). -/
def absU (s : LSpec) : SpecState Unit := ⟨s.isV, fun u v => (s.weight u v).map (fun _ => ())⟩
end LSpec

end GraafVerif.ReprSpec
