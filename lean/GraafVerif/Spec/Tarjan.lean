import GraafVerif.Spec.Graph
import GraafVerif.Model.Tarjan
/-!
# Declarative notion of C09 and its verified executable checker

`IsSCCPartition g cs`: the lists `cs` are non-empty, pairwise disjoint, cover exactly the vertex
set, and two vertices lie in the same list exactly when each is reachable from the other
(`Reach` of `Spec/Graph.lean` over the out-neighbour function).

`sccCheck g cs : Bool` is a deliberately naive executable checker (worklist closure per vertex,
closure verified at run time, then an all-pairs comparison); `Proof/TarjanCheck.lean` proves
`sccCheck g cs = true → IsSCCPartition g cs`.  The driver uses it as the PROPFAIL oracle on the
implementation's output.
-/
namespace GraafVerif.Tarjan
open GraafVerif

/-- The `Graph` whose arcs are those of `g` (`n` is not used by `Reach`). -/
def VGraph.toGraph (g : VGraph) : Graph := ⟨g.verts.length, g.out⟩

/-- Reachability in `g` (reflexive-transitive closure of the arc relation). -/
abbrev VReach (g : VGraph) (u v : Nat) : Prop := Reach g.toGraph u v

/-- Representation invariant of every graaf digraph: arcs of vertices lead to vertices
(`add_arc` inserts both endpoints into an `AdjacencyMap` and asserts `u, v < order` elsewhere). -/
def VGraph.Closed (g : VGraph) : Prop := ∀ u ∈ g.verts, ∀ v ∈ g.out u, v ∈ g.verts

instance (g : VGraph) : Decidable g.Closed := by unfold VGraph.Closed; infer_instance

/-- `cs` is the partition of the vertex set of `g` into strongly connected components. -/
structure IsSCCPartition (g : VGraph) (cs : List (List Nat)) : Prop where
  /-- blocks are non-empty -/
  nonempty : ∀ c ∈ cs, c ≠ []
  /-- blocks at different positions are disjoint -/
  disjoint : cs.Pairwise (fun c d => ∀ x ∈ c, x ∉ d)
  /-- a block lists no vertex twice -/
  nodup : ∀ c ∈ cs, c.Nodup
  /-- the blocks cover exactly the vertex set -/
  cover : ∀ v, v ∈ g.verts ↔ ∃ c ∈ cs, v ∈ c
  /-- same block ⇔ mutually reachable -/
  scc : ∀ u ∈ g.verts, ∀ v ∈ g.verts, (∃ c ∈ cs, u ∈ c ∧ v ∈ c) ↔ (VReach g u v ∧ VReach g v u)

/-! ## Executable checker -/

/-- Worklist closure: `todo` still to expand, `seen` already expanded. -/
def closure (g : VGraph) : Nat → List Nat → List Nat → List Nat
  | 0, _, seen => seen
  | _+1, [], seen => seen
  | fuel+1, x :: todo, seen =>
    if seen.contains x then closure g fuel todo seen
    else closure g fuel (g.out x ++ todo) (x :: seen)

/-- `S` is closed under out-neighbours. -/
def closedB (g : VGraph) (S : List Nat) : Bool :=
  S.all (fun x => (g.out x).all (fun y => S.contains y))

/-- Number of closure steps that always suffice: one per vertex plus one per arc, plus one. -/
def closureFuel (g : VGraph) : Nat :=
  g.verts.length + (g.verts.map (fun u => (g.out u).length)).sum + 2

/-- Reachable set of `u` (to be trusted only when `closedB` accepts it). -/
def reachOf (g : VGraph) (u : Nat) : List Nat := closure g (closureFuel g) [u] []

/-- Are `u` and `v` in the same block? -/
def sameBlock (cs : List (List Nat)) (u v : Nat) : Bool :=
  cs.any (fun c => c.contains u && c.contains v)

/-- Pairwise disjointness of the blocks, by positions. -/
def disjointB : List (List Nat) → Bool
  | [] => true
  | c :: cs => cs.all (fun d => c.all (fun x => !d.contains x)) && disjointB cs

def nodupB : List Nat → Bool
  | [] => true
  | x :: xs => !xs.contains x && nodupB xs

def sccCheck (g : VGraph) (cs : List (List Nat)) : Bool :=
  let table := g.verts.map (fun u => (u, reachOf g u))
  let reachB (u v : Nat) : Bool := ((table.lookup u).getD []).contains v
  -- blocks are non-empty, duplicate free and pairwise disjoint
  cs.all (fun c => !c.isEmpty) && cs.all nodupB && disjointB cs &&
  -- every block member is a vertex, every vertex is in a block
  cs.all (fun c => c.all (fun x => g.verts.contains x)) &&
  g.verts.all (fun v => cs.any (fun c => c.contains v)) &&
  -- the reachability table is exact: row `u` contains `u` and is closed
  table.all (fun r => r.2.contains r.1 && closedB g r.2) &&
  -- same block ⇔ mutually reachable
  g.verts.all (fun u => g.verts.all (fun v => sameBlock cs u v == (reachB u v && reachB v u)))

example : sccCheck exampleGraph [[5,6],[2,3,7],[0,1,4]] = true := by decide
example : sccCheck exampleGraph [[5,6],[2,3],[7],[0,1,4]] = false := by decide
example : sccCheck exampleGraph [[5,6,2,3,7],[0,1,4]] = false := by decide

end GraafVerif.Tarjan
