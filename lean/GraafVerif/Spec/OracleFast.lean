import GraafVerif.Spec.Graph
/-!
# Fast (`Array`-based, early-exit) oracles for the stress inputs

The naive oracles of `Spec/Graph.lean` (`reachSetB`, `hopDistB`, `wdistB`) are proved exact in
`Thm/Oracles.lean` but are too slow for the stress inputs (orders 130–1100).  This file holds the
canonical FAST oracles; `Thm/OraclesFast.lean` proves each of them equal to the proved naive oracle
(under the same hypotheses), so a verdict resting on them rests on the same theorems.

Every definition is plain structural recursion over fuel plus `List.foldl` over
`Array.setIfInBounds` / `Array.getD` — no `Id.run do`, no `for`.  The pieces are top-level
definitions so that the proofs (and `decide`) can name them.  Imports only `Spec/Graph.lean`: usable
from the compiled driver.  The pairs are taken apart by pattern matching (not by `.1`/`.2`) so that
the compiled code updates the arrays in place.

| fast oracle | equals (proved) | same algorithm as the driver's |
|---|---|---|
| `wdistFast g S`, `wdistFastFlag g S`, `wdistFastPair g S` | `(wdistB g S).1` (flag `false`), `(wdistB g S).2` | `H03.fastDist` |
| `wdistArcsFast g arcs s` | `wdistB g [s]` (flag `false`; flags always equal) | `H08.bfA` |
| `hopDistFastA g S` | `hopDistB g S` | `H04.hopDistFast` |
| `reachFast g S` | `reachSetB g S` | — |
| `forestParentsRec`, `forestJudgeRec` | accept exactly what `Spec/Dfs.lean` demands (`forestJudgeRec_iff`) | recursion-based replacements for `H06.forestParents` / `H06.forestJudge` |
-/
namespace GraafVerif
namespace OracleFast

/-! ## Weighted distances, rows in ascending tail order (`H03.fastDist`) -/

/-- All labels `none`, sources `0`. -/
def wfInit (n : Nat) (S : List Nat) : Array (Option Int) :=
  S.foldl (fun d s => d.setIfInBounds s (some 0)) (Array.replicate n none)

/-- Relax one arc `u → vw.1` of weight `vw.2`; `du` = the tail's label read at the start of row `u`. -/
def wfIn (du : Int) : Array (Option Int) × Bool → Nat × Int → Array (Option Int) × Bool
  | (ar, c), vw =>
    match ar.getD vw.1 none with
    | none => (ar.setIfInBounds vw.1 (some (du + vw.2)), true)
    | some dv => if du + vw.2 < dv then (ar.setIfInBounds vw.1 (some (du + vw.2)), true) else (ar, c)

/-- Relax the row of `u` (nothing to do when `u` is unlabelled). -/
def wfOut (g : WGraph) : Array (Option Int) × Bool → Nat → Array (Option Int) × Bool
  | (arr, ch), u =>
    match arr.getD u none with
    | none => (arr, ch)
    | some du => (g.out u).foldl (wfIn du) (arr, ch)

/-- One Bellman-Ford round; the flag says whether some label was written. -/
def wfRound (g : WGraph) (d : Array (Option Int)) : Array (Option Int) × Bool :=
  (List.range g.n).foldl (wfOut g) (d, false)

/-- Rounds until one writes nothing (early exit) or the fuel is used up. -/
def wfGo (g : WGraph) : Nat → Array (Option Int) → Array (Option Int)
  | 0, d => d
  | f+1, d =>
    match wfRound g d with
    | (d', true) => wfGo g f d'
    | (d', false) => d'

/-- The same loop, also reporting whether the fuel ran out (every round wrote something). -/
def wfGoF (g : WGraph) : Nat → Array (Option Int) → Array (Option Int) × Bool
  | 0, d => (d, true)
  | f+1, d =>
    match wfRound g d with
    | (d', true) => wfGoF g f d'
    | (d', false) => (d', false)

end OracleFast

open OracleFast in
/-- **Fast weighted-distance oracle** (Bellman-Ford rounds on an `Array`, early exit, at most
`n + 1` rounds), `none` = unreachable.  Meaningful when no negative circuit is reachable from `S`
(`wdistFastFlag g S = false`). -/
def wdistFast (g : WGraph) (S : List Nat) : List (Option Int) :=
  (wfGo g (g.n + 1) (wfInit g.n S)).toList

open OracleFast in
/-- Labels and flag in one run: flag `true` = `n + 1` rounds all wrote something = a negative
circuit is reachable from `S`. -/
def wdistFastPair (g : WGraph) (S : List Nat) : List (Option Int) × Bool :=
  match wfGoF g (g.n + 1) (wfInit g.n S) with
  | (d, c) => (d.toList, c)

/-- **Negative-circuit flag of the fast oracle.** -/
def wdistFastFlag (g : WGraph) (S : List Nat) : Bool := (wdistFastPair g S).2

namespace OracleFast

/-! ## Weighted distances, one flat arc list per round (`H08.bfA`) -/

/-- Relax the arc `a = (u, v, w)`; the tail's label is re-read for every arc. -/
def abIn (acc : Array (Option Int) × Bool) (a : Nat × Nat × Int) : Array (Option Int) × Bool :=
  match (acc.1[a.1]?).getD none with
  | none => acc
  | some du =>
    match (acc.1[a.2.1]?).getD none with
    | none => (acc.1.setIfInBounds a.2.1 (some (du + a.2.2)), true)
    | some dv => if du + a.2.2 < dv then (acc.1.setIfInBounds a.2.1 (some (du + a.2.2)), true) else acc

def abRound (arcs : List (Nat × Nat × Int)) (d : Array (Option Int)) : Array (Option Int) × Bool :=
  arcs.foldl abIn (d, false)

/-- At most `fuel` rounds with early exit, then the flag of one more round. -/
def abGo (arcs : List (Nat × Nat × Int)) : Nat → Array (Option Int) → Array (Option Int) × Bool
  | 0, d => (d, (abRound arcs d).2)
  | fuel+1, d => let r := abRound arcs d; if r.2 then abGo arcs fuel r.1 else (d, false)

end OracleFast

open OracleFast in
/-- **Fast single-source oracle over a flat arc list** (`arcs` must list exactly the arcs of `g`,
e.g. `Fw.arcsWeighted g`): labels and negative-circuit flag. -/
def wdistArcsFast (g : WGraph) (arcs : List (Nat × Nat × Int)) (s : Nat) : List (Option Int) × Bool :=
  let r := abGo arcs g.n ((Array.replicate g.n none).setIfInBounds s (some 0))
  (r.1.toList, r.2)

/-- The arcs of `g` as a flat list (the same list as `Fw.arcsWeighted g`). -/
def wgraphArcs (g : WGraph) : List (Nat × Nat × Int) :=
  (List.range g.n).flatMap (fun u => (g.out u).map (fun vw => (u, vw.1, vw.2)))

namespace OracleFast

/-! ## Hop distances, level-synchronous frontier search (`H04.hopDistFast`) -/

def hfInit (n : Nat) (S : List Nat) : Array (Option Nat) :=
  S.foldl (fun d s => d.setIfInBounds s (some 0)) (Array.replicate n none)

/-- Label an unlabelled in-range `v` with `k + 1` and put it on the next frontier. -/
def hfIn (k : Nat) (a : Array (Option Nat) × List Nat) (v : Nat) : Array (Option Nat) × List Nat :=
  match a.1[v]? with
  | some none => (a.1.setIfInBounds v (some (k+1)), v :: a.2)
  | _ => a

def hfOut (g : Graph) (k : Nat) (acc : Array (Option Nat) × List Nat) (u : Nat) :
    Array (Option Nat) × List Nat :=
  (g.out u).foldl (hfIn k) acc

/-- Expand the frontier `front` (the vertices labelled `k`). -/
def hfRound (g : Graph) (k : Nat) (front : List Nat) (d : Array (Option Nat)) :
    Array (Option Nat) × List Nat :=
  front.foldl (hfOut g k) (d, [])

def hfGo (g : Graph) : Nat → Nat → List Nat → Array (Option Nat) → Array (Option Nat)
  | 0, _, _, d => d
  | fuel+1, k, front, d =>
    if front.isEmpty then d else
    let r := hfRound g k front d
    hfGo g fuel (k+1) r.2 r.1

/-! ## Reachability, frontier search on a Boolean array -/

def rfInit (n : Nat) (S : List Nat) : Array Bool :=
  S.foldl (fun d s => d.setIfInBounds s true) (Array.replicate n false)

/-- Mark an unmarked in-range `v` and put it on the next frontier. -/
def rfIn (a : Array Bool × List Nat) (v : Nat) : Array Bool × List Nat :=
  match a.1[v]? with
  | some false => (a.1.setIfInBounds v true, v :: a.2)
  | _ => a

def rfRound (g : Graph) (front : List Nat) (vis : Array Bool) : Array Bool × List Nat :=
  front.foldl (fun acc u => (g.out u).foldl rfIn acc) (vis, [])

def rfGo (g : Graph) : Nat → List Nat → Array Bool → Array Bool
  | 0, _, vis => vis
  | fuel+1, front, vis =>
    if front.isEmpty then vis else
    let r := rfRound g front vis
    rfGo g fuel r.2 r.1

end OracleFast

open OracleFast in
/-- **Fast hop-distance oracle** (each vertex enters a frontier once, each arc is scanned once),
`none` = unreachable. -/
def hopDistFastA (g : Graph) (S : List Nat) : List (Option Nat) :=
  (hfGo g (g.n + 1) 0 S (hfInit g.n S)).toList

open OracleFast in
/-- **Fast reachability oracle** (the same search without the levels). -/
def reachFast (g : Graph) (S : List Nat) : List Bool :=
  (rfGo g (g.n + 1) S (rfInit g.n S)).toList

namespace OracleFast

/-! ## Out-forests: parent array and depth-first-preorder judge (`H06.forestParents`, `H06.forestJudge`)

Recursion-based versions of H06's `Id.run do` loops for huge out-forests whose sources are roots.
`forestParentsRec g S = some par` certifies the out-forest shape (`IsForest`, proved);
`forestJudgeRec` then accepts exactly what `Spec/Dfs.lean` accepts (`annotate`, matching depths /
predecessors / `forestOf`, exactly the reachable set) — proved in `Proof/OracleFastForest.lean`.
Differences from H06's loops, none of which changes a verdict on an out-forest: the "no yielded
vertex has an unyielded out-neighbour" test for a new root is not a counter but the (proved
equivalent) emptiness of the cut-back search path; depths travel with the path instead of in an
array; reachability is `reachFast`; surplus trailing depths / predecessors are rejected. -/

/-- Record the arc `u → v`; `none` when `v` is out of range, `v = u`, or `v` already has a parent. -/
def fpIn (n u : Nat) (par : Array (Option Nat)) (v : Nat) : Option (Array (Option Nat)) :=
  if v ≥ n || v == u || (par.getD v none).isSome then none else some (par.setIfInBounds v (some u))

def fpRow (g : Graph) (par : Array (Option Nat)) (u : Nat) : Option (Array (Option Nat)) :=
  (g.out u).foldlM (fpIn g.n u) par

/-- Sources must be in range, distinct, and without a parent. -/
def fpSrc (n : Nat) (par : Array (Option Nat)) (isSrc : Array Bool) (s : Nat) : Option (Array Bool) :=
  if s ≥ n || isSrc.getD s false || (par.getD s none).isSome then none else some (isSrc.setIfInBounds s true)

/-- State of the judge: yielded marks, number of unyielded out-neighbours per vertex, and the
search path as (vertex, depth) pairs, deepest first. -/
structure FjState where
  seen : Array Bool
  remaining : Array Nat
  path : List (Nat × Nat)

/-- Nothing yielded: every out-neighbour of every vertex is unyielded. -/
def fjInit (g : Graph) : FjState :=
  ⟨Array.replicate g.n false, ((List.range g.n).map (fun u => (g.out u).length)).toArray, []⟩

/-- One yielded vertex `x`: the new state and the (parent, depth) the property prescribes. -/
def fjStep (g : Graph) (S : List Nat) (par : Array (Option Nat)) (reach : Array Bool) (st : FjState) (x : Nat) :
    Except String (FjState × Option Nat × Nat) :=
  if x ≥ g.n then .error s!"vertex {x} out of range"
  else if !reach.getD x false then .error s!"vertex {x} yielded but not reachable"
  else if st.seen.getD x false then .error s!"vertex {x} yielded twice"
  else
    match st.path.dropWhile (fun d => st.remaining.getD d.1 0 == 0) with
    | [] =>
      if !S.contains x then .error s!"vertex {x} is not a valid depth-first step (not a permitted root)"
      else .ok (⟨st.seen.setIfInBounds x true, st.remaining, [(x, 0)]⟩, none, 0)
    | (p, dp) :: rest =>
      if par.getD x none != some p then
        .error s!"vertex {x} is not a valid depth-first step (deepest open vertex is {p})"
      else .ok (⟨st.seen.setIfInBounds x true, st.remaining.modify p (· - 1), (x, dp + 1) :: (p, dp) :: rest⟩,
                some p, dp + 1)

/-- Compare the next reported annotation (if annotations were reported) with the wanted one. -/
def popCheck {α : Type} [BEq α] : Option (List α) → α → Option (Option (List α))
  | none, _ => some none
  | some [], _ => none
  | some (a :: r), w => if a == w then some (some r) else none

def leftover {α : Type} : Option (List α) → Bool
  | some (_ :: _) => true
  | _ => false

def fjLoop (g : Graph) (S : List Nat) (par : Array (Option Nat)) (reach : Array Bool) :
    FjState → List Nat → Option (List Nat) → Option (List (Option Nat)) → Except String FjState
  | st, [], ds, ps =>
    if leftover ds || leftover ps then .error "more depths / predecessors than items" else .ok st
  | st, x :: xs, ds, ps =>
    match fjStep g S par reach st x with
    | .error e => .error e
    | .ok (st', wp, wd) =>
      match popCheck ds wd with
      | none => .error s!"vertex {x}: depth {wd} expected"
      | some ds' =>
        match popCheck ps wp with
        | none => .error s!"vertex {x}: predecessor {wp} expected"
        | some ps' => fjLoop g S par reach st' xs ds' ps'

end OracleFast

open OracleFast in
/-- **Out-forest test**: every vertex has at most one in-arc (no loops, no repeated arcs), arcs in
range, sources distinct, in range and without in-arc.  Returns the parent array. -/
def forestParentsRec (g : Graph) (S : List Nat) : Option (Array (Option Nat)) :=
  match (List.range g.n).foldlM (fpRow g) (Array.replicate g.n none) with
  | none => none
  | some par =>
    match S.foldlM (fpSrc g.n par) (Array.replicate g.n false) with
    | none => none
    | some _ => some par

open OracleFast in
/-- **Judge for out-forests whose sources are roots** (`par` from `forestParentsRec`): `none` =
`xs` is a complete depth-first preorder with the reported depths / predecessors / forest. -/
def forestJudgeRec (g : Graph) (S : List Nat) (par : Array (Option Nat)) (xs : List Nat)
    (depths : Option (List Nat)) (preds : Option (List (Option Nat))) (tree : Option (List (Option Nat))) :
    Option String :=
  let reach := (reachFast g S).toArray
  match fjLoop g S par reach (fjInit g) xs depths preds with
  | .error e => some e
  | .ok st =>
    let nReach := ((List.range g.n).filter (fun v => reach.getD v false)).length
    if nReach != xs.length then
      some s!"{nReach - xs.length} reachable vertices never yielded ({xs.length} yielded)"
    else match tree with
      | none => none
      | some t =>
        if t == (List.range g.n).map (fun v => if st.seen.getD v false then par.getD v none else none) then none
        else some "predecessors() is not the search-tree parent vector"

end GraafVerif
