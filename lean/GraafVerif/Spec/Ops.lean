import GraafVerif.Model.Repr
/-!
# Spec level of C11: abstract digraphs and the set definitions of the four operations

`DG` is a digraph as the property speaks about it: a vertex set and an arc set (predicates).
`abs*` reads the abstract digraph off a representation through its public reads
(`vertices`, `has_arc`, `arc_weight`).
-/
namespace GraafVerif.Ops
open GraafVerif.Repr

structure DG where
  V : Nat → Prop
  A : Nat → Nat → Prop

theorem DG.ext_iff' {g h : DG} : g = h ↔ (∀ v, g.V v ↔ h.V v) ∧ (∀ u v, g.A u v ↔ h.A u v) := by
  constructor
  · rintro rfl; exact ⟨fun _ => Iff.rfl, fun _ _ => Iff.rfl⟩
  · rintro ⟨hv, ha⟩
    cases g; cases h
    simp only [DG.mk.injEq]
    exact ⟨funext fun v => propext (hv v), funext fun u => funext fun v => propext (ha u v)⟩

/-- "a valid digraph": no self-loop, no arc endpoint outside the vertex set. -/
def DG.Valid (g : DG) : Prop := ∀ u v, g.A u v → g.V u ∧ g.V v ∧ u ≠ v

/-- `u → v` exactly when `u ≠ v` are in `V` and `u → v` is not in `A`. -/
def specComplement (g : DG) : DG := ⟨g.V, fun u v => g.V u ∧ g.V v ∧ u ≠ v ∧ ¬ g.A u v⟩
/-- `v → u` exactly when `u → v` is in `A`. -/
def specConverse (g : DG) : DG := ⟨g.V, fun u v => g.A v u⟩
/-- vertex set `V(D) ∪ V(E)`, arc set `A(D) ∪ A(E)`. -/
def specUnion (g h : DG) : DG := ⟨fun v => g.V v ∨ h.V v, fun u v => g.A u v ∨ h.A u v⟩
/-- the subdigraph induced by `{v ∈ V : p v}`. -/
def specFilter (p : Nat → Bool) (g : DG) : DG :=
  ⟨fun v => g.V v ∧ p v = true, fun u v => g.A u v ∧ p u = true ∧ p v = true⟩

/-- Weighted digraphs: `A u v w` = the arc `u → v` is present with weight `w`. -/
structure WDG where
  V : Nat → Prop
  A : Nat → Nat → Int → Prop

theorem WDG.ext_iff' {g h : WDG} : g = h ↔ (∀ v, g.V v ↔ h.V v) ∧ (∀ u v w, g.A u v w ↔ h.A u v w) := by
  constructor
  · rintro rfl; exact ⟨fun _ => Iff.rfl, fun _ _ _ => Iff.rfl⟩
  · rintro ⟨hv, ha⟩
    cases g; cases h
    simp only [WDG.mk.injEq]
    exact ⟨funext fun v => propext (hv v),
      funext fun u => funext fun v => funext fun w => propext (ha u v w)⟩

def WDG.Valid (g : WDG) : Prop :=
  (∀ u v w, g.A u v w → g.V u ∧ g.V v ∧ u ≠ v) ∧ ∀ u v w w', g.A u v w → g.A u v w' → w = w'
/-- converse with the weights carried over. -/
def specConverseW (g : WDG) : WDG := ⟨g.V, fun u v w => g.A v u w⟩

/-! ## Abstraction functions -/

def absAL (d : AdjList) : DG := ⟨fun v => v ∈ d.vertices, fun u v => d.hasArc u v = true⟩
def absAM (d : AdjMap) : DG := ⟨fun v => v ∈ d.vertices, fun u v => d.hasArc u v = true⟩
def absMX (d : AdjMatrix) : DG := ⟨fun v => v ∈ d.vertices, fun u v => d.hasArc u v = true⟩
def absEL (d : EdgeList) : DG := ⟨fun v => v ∈ d.vertices, fun u v => d.hasArc u v = true⟩
def absW (d : AdjListW) : WDG := ⟨fun v => v ∈ d.vertices, fun u v w => d.arcWeight u v = some w⟩

/-! ## Algebraic consequences at the spec level -/

theorem specComplement_valid (g : DG) : (specComplement g).Valid :=
  fun _ _ h => ⟨h.1, h.2.1, h.2.2.1⟩

theorem specConverse_valid {g : DG} (h : g.Valid) : (specConverse g).Valid :=
  fun u v ha => ⟨(h v u ha).2.1, (h v u ha).1, fun e => (h v u ha).2.2 e.symm⟩

theorem specUnion_valid {g h : DG} (hg : g.Valid) (hh : h.Valid) : (specUnion g h).Valid := by
  intro u v ha
  rcases ha with ha | ha
  · exact ⟨Or.inl (hg u v ha).1, Or.inl (hg u v ha).2.1, (hg u v ha).2.2⟩
  · exact ⟨Or.inr (hh u v ha).1, Or.inr (hh u v ha).2.1, (hh u v ha).2.2⟩

theorem specFilter_valid {g : DG} (p : Nat → Bool) (h : g.Valid) : (specFilter p g).Valid :=
  fun u v ha => ⟨⟨(h u v ha.1).1, ha.2.1⟩, ⟨(h u v ha.1).2.1, ha.2.2⟩, (h u v ha.1).2.2⟩

/-- complement is an involution on valid digraphs. -/
theorem specComplement_involutive {g : DG} (h : g.Valid) : specComplement (specComplement g) = g := by
  rw [DG.ext_iff']
  refine ⟨fun _ => Iff.rfl, fun u v => ?_⟩
  simp only [specComplement]
  constructor
  · rintro ⟨hu, hv, hne, hn⟩
    exact Classical.byContradiction fun hna => hn ⟨hu, hv, hne, hna⟩
  · intro ha
    exact ⟨(h u v ha).1, (h u v ha).2.1, (h u v ha).2.2, fun hc => hc.2.2.2 ha⟩

/-- converse is an involution. -/
theorem specConverse_involutive (g : DG) : specConverse (specConverse g) = g := rfl

theorem specConverseW_involutive (g : WDG) : specConverseW (specConverseW g) = g := rfl

theorem specUnion_comm (g h : DG) : specUnion g h = specUnion h g := by
  rw [DG.ext_iff']; exact ⟨fun _ => Or.comm, fun _ _ => Or.comm⟩

theorem specUnion_assoc (g h k : DG) : specUnion (specUnion g h) k = specUnion g (specUnion h k) := by
  rw [DG.ext_iff']; exact ⟨fun _ => or_assoc, fun _ _ => or_assoc⟩

theorem specUnion_idem (g : DG) : specUnion g g = g := by
  rw [DG.ext_iff']; exact ⟨fun _ => or_self_iff, fun _ _ => or_self_iff⟩

end GraafVerif.Ops
