import GraafVerif.Spec.Query
/-!
# C12 — the mathematical definitions of the structural predicates over `(V, A)`

Pure `Prop`s over the abstract digraph of `Spec/Query.lean`; nothing here looks at a
representation.  `…B` are the executable forms the driver evaluates on the implementation's
own `vertices()` / `arcs()` output (PROPFAIL oracle).
-/
namespace GraafVerif.Pred
open GraafVerif.Query
namespace Def
variable (G : Digraph)

/-- every ordered pair of distinct vertices is an arc -/
def IsComplete : Prop := ∀ u ∈ G.verts, ∀ v ∈ G.verts, u ≠ v → G.adj u v = true
/-- every unordered pair is joined by at least one arc -/
def IsSemicomplete : Prop := ∀ u ∈ G.verts, ∀ v ∈ G.verts, u ≠ v → G.adj u v = true ∨ G.adj v u = true
/-- every unordered pair is joined by exactly one arc -/
def IsTournament : Prop := ∀ u ∈ G.verts, ∀ v ∈ G.verts, u ≠ v → (G.adj u v = true ↔ G.adj v u = false)
/-- all indegrees and all outdegrees equal one constant -/
def IsRegular : Prop := ∃ k, ∀ u ∈ G.verts, Spec.indegree G u = k ∧ Spec.outdegree G u = k
def IsBalanced : Prop := ∀ u ∈ G.verts, Spec.indegree G u = Spec.outdegree G u
def IsSymmetric : Prop := ∀ u v, G.adj u v = true → G.adj v u = true
def IsOriented : Prop := ∀ u v, G.adj u v = true → G.adj v u = false
/-- no self-loops (parallel arcs cannot be expressed in `A`) -/
def IsSimple : Prop := ∀ u, G.adj u u = false
end Def

/-- `H ⊆ D`: `V(H) ⊆ V(D)` and `A(H) ⊆ A(D)`. -/
def Def.IsSubdigraph (H D : Digraph) : Prop :=
  (∀ v ∈ H.verts, v ∈ D.verts) ∧ ∀ u v, H.adj u v = true → D.adj u v = true
def Def.IsSuperdigraph (H D : Digraph) : Prop := Def.IsSubdigraph D H
def Def.IsSpanningSubdigraph (H D : Digraph) : Prop :=
  H.verts = D.verts ∧ ∀ u v, H.adj u v = true → D.adj u v = true

/-! Executable forms (used by the driver's oracle on valid observations). -/
namespace DefB
variable (G : Digraph)
def pairs : List (Nat × Nat) := G.verts.flatMap (fun u => G.verts.map (fun v => (u, v)))
def isComplete : Bool := (pairs G).all (fun p => p.1 == p.2 || G.adj p.1 p.2)
def isSemicomplete : Bool := (pairs G).all (fun p => p.1 == p.2 || G.adj p.1 p.2 || G.adj p.2 p.1)
def isTournament : Bool := (pairs G).all (fun p => p.1 == p.2 || (G.adj p.1 p.2 != G.adj p.2 p.1))
def isRegular : Bool :=
  match G.verts with
  | [] => true
  | u :: _ =>
    let k := Spec.indegree G u
    G.verts.all (fun v => Spec.indegree G v == k && Spec.outdegree G v == k)
def isBalanced : Bool := G.verts.all (fun u => Spec.indegree G u == Spec.outdegree G u)
def isSymmetric : Bool := (Spec.arcs G).all (fun a => G.adj a.2 a.1)
def isOriented : Bool := (Spec.arcs G).all (fun a => !G.adj a.2 a.1)
def isSimple : Bool := G.verts.all (fun u => !G.adj u u)
end DefB
def DefB.isSubdigraph (H D : Digraph) : Bool :=
  H.verts.all (fun v => D.verts.contains v) && (Spec.arcs H).all (fun a => D.adj a.1 a.2)
def DefB.isSpanningSubdigraph (H D : Digraph) : Bool :=
  H.verts == D.verts && (Spec.arcs H).all (fun a => D.adj a.1 a.2)

end GraafVerif.Pred
