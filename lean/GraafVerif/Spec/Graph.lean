/-!
# Abstract digraphs and the declarative notions the properties speak about

`Graph` is the interface every traversal of graaf is generic in (`Order + OutNeighbors`):
an order and an out-neighbour function.  `WGraph` is the weighted analogue
(`Order + OutNeighborsWeighted`).  All declarative notions (`Reach`, hop distance, walks and
their weight, …) are stated over these.  No imports: usable from the compiled driver.
-/
namespace GraafVerif

structure Graph where
  n : Nat
  out : Nat → List Nat

namespace Graph
/-- `u → v` is an arc. -/
def A (g : Graph) (u v : Nat) : Prop := v ∈ g.out u
/-- All arcs join vertices of `0..n`. -/
def WF (g : Graph) : Prop := ∀ u v, v ∈ g.out u → u < g.n ∧ v < g.n
end Graph

/-- Reflexive-transitive closure of the arc relation. -/
inductive Reach (g : Graph) : Nat → Nat → Prop
  | refl (u) : Reach g u u
  | step {u v w} : Reach g u v → g.A v w → Reach g u w

/-- Reachable from some member of `S`. -/
def ReachFrom (g : Graph) (S : List Nat) (v : Nat) : Prop := ∃ s ∈ S, Reach g s v

/-- There is a walk with exactly `k` arcs from `u` to `v`. -/
inductive ReachIn (g : Graph) : Nat → Nat → Nat → Prop
  | zero (u) : ReachIn g 0 u u
  | succ {k u v w} : ReachIn g k u v → g.A v w → ReachIn g (k+1) u w

/-- `d` is the hop distance from the nearest source in `S` to `v`. -/
def IsHopDist (g : Graph) (S : List Nat) (v d : Nat) : Prop :=
  (∃ s ∈ S, ReachIn g d s v) ∧ ∀ k, k < d → ¬ ∃ s ∈ S, ReachIn g k s v

/-- A walk as a vertex list: consecutive vertices are arcs. -/
def IsWalk (g : Graph) : List Nat → Prop
  | [] => True
  | [_] => True
  | u :: v :: rest => g.A u v ∧ IsWalk g (v :: rest)

/-! ## Weighted digraphs (weights in `Int`; `usize` weights embed). -/

structure WGraph where
  n : Nat
  out : Nat → List (Nat × Int)

namespace WGraph
def A (g : WGraph) (u v : Nat) (w : Int) : Prop := (v, w) ∈ g.out u
def WF (g : WGraph) : Prop := ∀ u v w, (v, w) ∈ g.out u → u < g.n ∧ v < g.n
/-- At most one weight per ordered pair (rows are maps). -/
def Functional (g : WGraph) : Prop := ∀ u v w₁ w₂, g.A u v w₁ → g.A u v w₂ → w₁ = w₂
def NonNeg (g : WGraph) : Prop := ∀ u v w, g.A u v w → 0 ≤ w
def toGraph (g : WGraph) : Graph := ⟨g.n, fun u => (g.out u).map (·.1)⟩
end WGraph

/-- `WWalk g u v k wt`: there is a walk from `u` to `v` with `k` arcs and total weight `wt`. -/
inductive WWalk (g : WGraph) : Nat → Nat → Nat → Int → Prop
  | nil (u) : WWalk g u u 0 0
  | snoc {u v x k wt w} : WWalk g u v k wt → g.A v x w → WWalk g u x (k+1) (wt + w)

/-- `d` is the minimum weight of a walk from some source in `S` to `v`. -/
def IsMinDist (g : WGraph) (S : List Nat) (v : Nat) (d : Int) : Prop :=
  (∃ s ∈ S, ∃ k, WWalk g s v k d) ∧ ∀ s ∈ S, ∀ k wt, WWalk g s v k wt → d ≤ wt

def WReachFrom (g : WGraph) (S : List Nat) (v : Nat) : Prop := ∃ s ∈ S, ∃ k wt, WWalk g s v k wt

/-- A closed walk of negative total weight through `x` (with at least one arc). -/
def NegCycleAt (g : WGraph) (x : Nat) : Prop := ∃ k wt, 0 < k ∧ WWalk g x x k wt ∧ wt < 0

/-! ## Executable helpers shared by the driver's oracles (not used by theorems unless proved about). -/

/-- Build a `Graph` from an order and an arc list: row `u` = ascending, duplicate-free heads. -/
def insertAsc (x : Nat) : List Nat → List Nat
  | [] => [x]
  | y :: ys => if x < y then x :: y :: ys else if x = y then y :: ys else y :: insertAsc x ys

def Graph.ofArcs (n : Nat) (arcs : List (Nat × Nat)) : Graph :=
  ⟨n, fun u => (arcs.filter (fun a => a.1 == u)).foldl (fun row a => insertAsc a.2 row) []⟩

/-- Row table version (fast for the driver): rows as an `Array`. -/
def rowsOfArcs (n : Nat) (arcs : List (Nat × Nat)) : Array (List Nat) :=
  arcs.foldl (fun rows a => if a.1 < rows.size then rows.modify a.1 (insertAsc a.2) else rows)
    (Array.replicate n [])

def Graph.ofRows (rows : Array (List Nat)) : Graph := ⟨rows.size, fun u => rows.getD u []⟩

def insertAscW (x : Nat) (w : Int) : List (Nat × Int) → List (Nat × Int)
  | [] => [(x, w)]
  | (y, wy) :: ys =>
    if x < y then (x, w) :: (y, wy) :: ys else if x = y then (y, w) :: ys else (y, wy) :: insertAscW x w ys

def wrowsOfArcs (n : Nat) (arcs : List (Nat × Nat × Int)) : Array (List (Nat × Int)) :=
  arcs.foldl (fun rows a => if a.1 < rows.size then rows.modify a.1 (insertAscW a.2.1 a.2.2) else rows)
    (Array.replicate n [])

def WGraph.ofRows (rows : Array (List (Nat × Int))) : WGraph := ⟨rows.size, fun u => rows.getD u []⟩

/-- Naive reachability oracle: closure rounds over a Boolean array until nothing changes
(at most `n` rounds). -/
def reachSetB (g : Graph) (S : List Nat) : List Bool :=
  let init : Array Bool := S.foldl (fun vis s => vis.setIfInBounds s true) (Array.replicate g.n false)
  let round (vis : Array Bool) : Array Bool × Bool :=
    (List.range g.n).foldl (fun (acc : Array Bool × Bool) u =>
      if acc.1.getD u false then
        (g.out u).foldl (fun (a : Array Bool × Bool) v =>
          if a.1.getD v false then a else (a.1.setIfInBounds v true, true)) acc
      else acc) (vis, false)
  let rec go (fuel : Nat) (vis : Array Bool) : Array Bool :=
    match fuel with
    | 0 => vis
    | fuel+1 => let r := round vis; if r.2 then go fuel r.1 else r.1
  (go (g.n + 1) init).toList

/-- Naive hop-distance oracle: frontier expansion, `none` = unreachable. -/
def hopDistB (g : Graph) (S : List Nat) : List (Option Nat) :=
  let init : List (Option Nat) := S.foldl (fun d s => d.set s (some 0)) (List.replicate g.n none)
  (List.range g.n).foldl (fun d k =>
    (List.range g.n).foldl (fun acc u =>
      if d[u]?.getD none == some k then
        (g.out u).foldl (fun a v => if (a[v]?.getD none).isNone then a.set v (some (k+1)) else a) acc
      else acc) d) init

/-- Naive weighted-distance oracle (Bellman-Ford rounds on `Int`), `none` = unreachable.
Returns also whether an `n`-th round would still improve something (negative circuit reachable). -/
def wdistB (g : WGraph) (S : List Nat) : List (Option Int) × Bool :=
  let init : List (Option Int) := S.foldl (fun d s => d.set s (some 0)) (List.replicate g.n none)
  let round (d : List (Option Int)) : List (Option Int) × Bool :=
    (List.range g.n).foldl (fun (acc : List (Option Int) × Bool) u =>
      match acc.1[u]?.getD none with
      | none => acc
      | some du => (g.out u).foldl (fun (a : List (Option Int) × Bool) vw =>
          match a.1[vw.1]?.getD none with
          | none => (a.1.set vw.1 (some (du + vw.2)), true)
          | some dv => if du + vw.2 < dv then (a.1.set vw.1 (some (du + vw.2)), true) else a) acc) (d, false)
  let d := (List.range g.n).foldl (fun d _ => (round d).1) init
  (d, (round d).2)

end GraafVerif
