import GraafVerif.Spec.Graph
/-! Declarative notions for C03 and the Dijkstra half of C05: the hypotheses on the input and
walks given as vertex lists (for `shortest_path`). -/
namespace GraafVerif

/-- Hypotheses of C03 / C05 on the input: arcs join vertices of `0..n`, weights are non-negative,
the sources are in range and pairwise distinct. -/
structure Dijkstra.Hyp (g : WGraph) (S : List Nat) : Prop where
  wf : g.WF
  nonneg : g.NonNeg
  srcRange : ∀ s ∈ S, s < g.n
  srcNodup : S.Nodup

/-- `PathW g p wt`: the non-empty vertex list `p` is a walk of `g` (consecutive vertices are
joined by arcs) of total weight `wt`. -/
inductive PathW (g : WGraph) : List Nat → Int → Prop
  | single (u : Nat) : PathW g [u] 0
  | cons {u v : Nat} {rest : List Nat} {w wt : Int} :
      g.A u v w → PathW g (v :: rest) wt → PathW g (u :: v :: rest) (w + wt)

end GraafVerif
