import GraafVerif.Spec.Graph
/-!
# Declarative notions for C08 (Floyd-Warshall)

* `WGraph.NoNegCycle` — the property's precondition "no negative-weight circuit".
* `WalkIn g K u v wt` — there is a walk from `u` to `v` of total weight `wt` all of whose
  INTERIOR vertices (everything but the first and the last vertex of the walk) are `< K`.
  `K = 0`: the empty walk and single arcs; `K = g.n`: all walks (`WalkIn.ofWWalk`).
* `IsMinIn g K u v d` — `d` is the minimum weight of such a walk: the textbook invariant of
  Floyd-Warshall after the intermediate vertices `0..K` have been processed.
* `leO` — `≤` on matrix entries where `none` is `+∞` (`isize::MAX`).
-/
namespace GraafVerif

/-- No closed walk of negative weight anywhere in the digraph. -/
def WGraph.NoNegCycle (g : WGraph) : Prop := ∀ x, ¬ NegCycleAt g x

inductive WalkIn (g : WGraph) (K : Nat) : Nat → Nat → Int → Prop
  | nil (u) : WalkIn g K u u 0
  | one {u v w} : g.A u v w → WalkIn g K u v w
  | snoc {u x v wt w} : WalkIn g K u x wt → x < K → g.A x v w → WalkIn g K u v (wt + w)

def IsMinIn (g : WGraph) (K : Nat) (u v : Nat) (d : Int) : Prop :=
  WalkIn g K u v d ∧ ∀ wt, WalkIn g K u v wt → d ≤ wt

/-- `a ≤ b` where `none` is `+∞`. -/
def leO (a b : Option Int) : Prop := ∀ y, b = some y → ∃ x, a = some x ∧ x ≤ y

end GraafVerif
