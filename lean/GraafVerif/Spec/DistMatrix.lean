import GraafVerif.Model.DistMatrix
/-!
# Declarative notions for C18

* `WF m`      — the matrices the property quantifies over: `order ≥ 1`, `order²` entries, every
                entry `≤ infinity` (in particular everything `FloydWarshall::distances` returns).
* `row m u`   — row `u` of the flat vector: the `u`-th block of `order` consecutive entries.
* `cell m u v`— the entry in row `u`, column `v` (position `u * order + v` of the flat vector).
-/
namespace GraafVerif.DistMatrix

structure WF (m : DM) : Prop where
  order_pos : 1 ≤ m.order
  len : m.dist.length = m.order * m.order
  le_inf : ∀ x ∈ m.dist, x ≤ m.infinity

def row (m : DM) (u : Nat) : List Int := (m.dist.drop (u * m.order)).take m.order

def cell (m : DM) (u v : Nat) : Int := (m.dist[u * m.order + v]?).getD m.infinity

end GraafVerif.DistMatrix
