import GraafVerif.Spec.Pred
/-!
# C12 — described digraph families with a closed-form arc relation

`pred_minus_pair <repr> <n> <u> <v> <mode>` names a digraph on `0..n` by a rule; the oracle evaluates the
definitions (`DefB.*`) on the rule's arc relation directly (no arc list, no hash map, `O(n²)`), and
`Proof/PredFamilies.lean` proves the closed-form answers of `is_complete / is_semicomplete /
is_tournament` for them.  No imports beyond the specs: usable from the compiled driver.
-/
namespace GraafVerif.Pred.Fam
open GraafVerif.Query

def inRange (n a b : Nat) : Bool := decide (a < n) && decide (b < n) && decide (a ≠ b)
def ofAdj (n : Nat) (adj : Nat → Nat → Bool) : Digraph :=
  ⟨List.range n, adj, fun a b => if adj a b then some 1 else none⟩

/-- complete(n) minus BOTH arcs between `u` and `v` -/
def completeMinusPair (n u v : Nat) : Digraph :=
  ofAdj n (fun a b => inRange n a b && !((a == u && b == v) || (a == v && b == u)))
/-- complete(n) minus the single arc `u → v` -/
def completeMinusArc (n u v : Nat) : Digraph :=
  ofAdj n (fun a b => inRange n a b && !(a == u && b == v))

/-- The rule tournament of `pred_tour` (`a < b`: `a → b` iff `a + b` even) with the pair `{lo, hi}` (`lo < hi`)
not joined and the pair `dbl` joined both ways. -/
def tourAdj (n lo hi : Nat) (a b : Nat) : Bool :=
  let dbl : Nat × Nat := if lo ≥ 2 then (0, 1) else (n - 2, n - 1)
  let x := min a b
  let y := max a b
  inRange n a b &&
    (if x == lo && y == hi then false
     else if x == dbl.1 && y == dbl.2 then true
     else if (x + y) % 2 == 0 then a < b else b < a)
def tourMinusPair (n lo hi : Nat) : Digraph := ofAdj n (tourAdj n lo hi)

end GraafVerif.Pred.Fam
