import GraafVerif.Spec.Graph
/-!
# Elementary circuits: the declarative notion of C10 and its naive verified enumerator

`IsCanonicalElemCircuit g c`: `c` is the vertex sequence of an elementary circuit of `g`
(closed walk of length ≥ 2 through distinct vertices), written starting at its smallest
vertex and following arcs.

`allCircuits g`: a deliberately naive enumerator (exhaustive simple-path extension from every
start `s` through vertices `> s`, closing back to `s`).  It shares nothing with Johnson's
algorithm (no blocking, no SCCs).  `Proof/JohnsonSpec.lean` proves
`c ∈ allCircuits g ↔ IsCanonicalElemCircuit g c` and `(allCircuits g).Nodup`, so the driver's
oracle is a verified one.
-/
namespace GraafVerif.Johnson

/-- No arc `u → u` (graaf digraphs are simple: `add_arc` refuses loops). -/
def NoLoops (g : Graph) : Prop := ∀ u, u ∉ g.out u

/-- Rows list every out-neighbour once (`BTreeSet` rows of `AdjacencyMap`). -/
def RowsNodup (g : Graph) : Prop := ∀ u, (g.out u).Nodup

/-- `c = s :: rest` is an elementary circuit written from its smallest vertex:
at least two vertices, all distinct, consecutive vertices joined by arcs, the last vertex has
an arc back to `s`, and `s` is smaller than every other vertex. -/
def IsCanonicalElemCircuit (g : Graph) (c : List Nat) : Prop :=
  ∃ s rest, c = s :: rest ∧ rest ≠ [] ∧ c.Nodup ∧ IsWalk g c ∧
    g.A ((s :: rest).getLast (List.cons_ne_nil _ _)) s ∧ ∀ x ∈ rest, s < x

/-- All simple paths `path ++ …` (as vertex lists from `s`) that can be closed back to `s`,
extending only through vertices `> s` not yet on the path.  `v` is the last vertex of `path`.
Fuel = number of further extensions allowed. -/
def closingPaths (g : Graph) (s : Nat) : Nat → List Nat → Nat → List (List Nat)
  | 0, _, _ => []
  | fuel+1, path, v =>
    (g.out v).flatMap (fun w =>
      if w = s then (if 2 ≤ path.length then [path] else [])
      else if s < w ∧ w ∉ path then closingPaths g s fuel (path ++ [w]) w
      else [])

/-- The naive enumerator: for every `s`, all simple paths from `s` through larger vertices
that close back to `s`. -/
def allCircuits (g : Graph) : List (List Nat) :=
  (List.range g.n).flatMap (fun s => closingPaths g s g.n [s] s)

end GraafVerif.Johnson
