/-!
# Defining arc sets of the deterministic generators (C14), as the property text states them

Each definition is the arc-membership predicate `u → v` of the generated digraph on the
vertex set `0..n` (resp. `0..m+n`).  They are decidable, so the same definitions are the
executable oracle of the driver (evaluated on the implementation's observed arcs).
No imports.
-/
namespace GraafVerif.GenSpec

/-- `empty(n)`: no arcs. -/
def EmptyDef (_n _u _v : Nat) : Prop := False
/-- `complete(n)`: all `n(n-1)` arcs. -/
def CompleteDef (n u v : Nat) : Prop := u < n ∧ v < n ∧ u ≠ v
/-- `circuit(n)`: `i → (i+1) mod n`; none for `n = 1`. -/
def CircuitDef (n u v : Nat) : Prop := 2 ≤ n ∧ u < n ∧ v = (u + 1) % n
/-- `cycle(n)`: the circuit arcs and their reverses. -/
def CycleDef (n u v : Nat) : Prop := CircuitDef n u v ∨ CircuitDef n v u
/-- `path(n)`: `i → i+1` for `i < n-1`. -/
def PathDef (n u v : Nat) : Prop := u + 1 < n ∧ v = u + 1
/-- `star(n)`: `0 ↔ i` for `1 ≤ i < n`. -/
def StarDef (n u v : Nat) : Prop := (u = 0 ∧ 1 ≤ v ∧ v < n) ∨ (v = 0 ∧ 1 ≤ u ∧ u < n)
/-- successor on the rim `1 → 2 → … → n-1 → 1` of `wheel(n)` -/
def rimNext (n u : Nat) : Nat := if u = n - 1 then 1 else u + 1
/-- the cycle through `1..n-1` -/
def RimDef (n u v : Nat) : Prop :=
  (1 ≤ u ∧ u < n ∧ v = rimNext n u) ∨ (1 ≤ v ∧ v < n ∧ u = rimNext n v)
/-- `wheel(n)`, `n ≥ 4`: union of `star(n)` and the cycle through `1..n-1`. -/
def WheelDef (n u v : Nat) : Prop := StarDef n u v ∨ RimDef n u v
/-- `biclique(m, n)`: `u ↔ v` exactly for `u < m ≤ v < m+n`. -/
def BicliqueDef (m n u v : Nat) : Prop := (u < m ∧ m ≤ v ∧ v < m + n) ∨ (v < m ∧ m ≤ u ∧ u < m + n)

instance (n u v : Nat) : Decidable (EmptyDef n u v) := by unfold EmptyDef; exact inferInstance
instance (n u v : Nat) : Decidable (CompleteDef n u v) := by unfold CompleteDef; exact inferInstance
instance (n u v : Nat) : Decidable (CircuitDef n u v) := by unfold CircuitDef; exact inferInstance
instance (n u v : Nat) : Decidable (CycleDef n u v) := by unfold CycleDef; exact inferInstance
instance (n u v : Nat) : Decidable (PathDef n u v) := by unfold PathDef; exact inferInstance
instance (n u v : Nat) : Decidable (StarDef n u v) := by unfold StarDef; exact inferInstance
instance (n u v : Nat) : Decidable (RimDef n u v) := by unfold RimDef; exact inferInstance
instance (n u v : Nat) : Decidable (WheelDef n u v) := by unfold WheelDef; exact inferInstance
instance (m n u v : Nat) : Decidable (BicliqueDef m n u v) := by unfold BicliqueDef; exact inferInstance

/-- All arcs of a definition on `0..n`, in lexicographic order (the oracle's expected list). -/
def arcsOf (n : Nat) (P : Nat → Nat → Prop) [∀ u v, Decidable (P u v)] : List (Nat × Nat) :=
  (List.range n).flatMap (fun u => ((List.range n).filter (fun v => decide (P u v))).map (fun v => (u, v)))

/-- A digraph specification: order and arc predicate. -/
structure Spec where
  n : Nat
  P : Nat → Nat → Prop

/-- `d` (given by its order and arc list) realises the specification. -/
def Realises (order : Nat) (arcs : List (Nat × Nat)) (s : Spec) : Prop :=
  order = s.n ∧ ∀ u v, (u, v) ∈ arcs ↔ s.P u v

example : arcsOf 3 (CircuitDef 3) = [(0,1),(1,2),(2,0)] := by decide
example : arcsOf 1 (CircuitDef 1) = [] := by decide
example : arcsOf 2 (CycleDef 2) = [(0,1),(1,0)] := by decide
example : arcsOf 4 (WheelDef 4) = [(0,1),(0,2),(0,3),(1,0),(1,2),(1,3),(2,0),(2,1),(2,3),(3,0),(3,1),(3,2)] := by decide
example : arcsOf 3 (BicliqueDef 1 2) = [(0,1),(0,2),(1,0),(2,0)] := by decide

end GraafVerif.GenSpec
