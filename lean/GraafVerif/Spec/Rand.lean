import GraafVerif.Model.Rand
/-!
# Validity predicates of C15, stated on what the public API shows of a digraph

A `View` is the order, the vertex list and the arc relation (`has_arc`) of a digraph of any of the
four unweighted representations.  The predicates are the wording of the property text.
-/
namespace GraafVerif.Rand
open GraafVerif.Repr

structure View where
  order : Nat
  verts : List Nat
  has : Nat → Nat → Bool

def viewAL (g : AdjList) : View := ⟨g.order, g.vertices, g.hasArc⟩
def viewAM (g : AdjMap) : View := ⟨g.order, g.vertices, g.hasArc⟩
def viewMX (g : AdjMatrix) : View := ⟨g.order, g.vertices, g.hasArc⟩
def viewEL (g : EdgeList) : View := ⟨g.order, g.vertices, g.hasArc⟩

/-- vertex set `0..n`, every arc joins two distinct vertices of it (no self-loops) -/
def IsSimpleOn (n : Nat) (d : View) : Prop :=
  d.order = n ∧ d.verts = List.range n ∧ ∀ u v, d.has u v = true → u < n ∧ v < n ∧ u ≠ v

/-- exactly one arc between every pair of distinct vertices -/
def IsTournament (n : Nat) (d : View) : Prop :=
  IsSimpleOn n d ∧ ∀ u v, u < n → v < n → u ≠ v → (d.has u v = true ↔ d.has v u = false)

/-- vertex 0 has no out-arc; every `u ≥ 1` has exactly one out-arc, to a smaller vertex -/
def IsRecursiveTree (n : Nat) (d : View) : Prop :=
  IsSimpleOn n d ∧ (∀ v, d.has 0 v = false) ∧
  ∀ u, 1 ≤ u → u < n → ∃ p, p < u ∧ ∀ v, d.has u v = true ↔ v = p

def HasNoArcs (d : View) : Prop := ∀ u v, d.has u v = false

def HasAllArcs (n : Nat) (d : View) : Prop := ∀ u v, u < n → v < n → u ≠ v → d.has u v = true

/-- `erdos_renyi(order, p, seed)` for `p ∈ [0,1]`: vertex set `0..order`, no self-loops, no arcs when
`p = 0`, all arcs when `p = 1`.  `p` is a decoded double (`Model/Rand.lean`); `-0.0` counts as `0`. -/
def ErValid (n : Nat) (p : F64) (d : View) : Prop :=
  IsSimpleOn n d ∧ (p = F64.zero → HasNoArcs d) ∧ (p = F64.one → HasAllArcs n d)

/-- Two views show the same digraph (same order, vertices and arcs). -/
def SameDigraph (a b : View) : Prop := a.order = b.order ∧ a.verts = b.verts ∧ ∀ u v, a.has u v = b.has u v

/-- Value of `next_f64()` for the draw `w`, as a rational number. -/
def nextF64 (w : UInt64) : Rat := (mant w : Rat) / 2^52

/-- Value of a finite decoded double, as a rational number. -/
def F64.val : F64 → Option Rat
  | .fin num => some ((num : Rat) / 2^1074)
  | _ => none

/-- The digraph shows exactly the arcs of `arcs` on the vertex set `0..n`. -/
def Realizes (d : View) (n : Nat) (arcs : List (Nat × Nat)) : Prop :=
  d.order = n ∧ d.verts = List.range n ∧ ∀ u v, d.has u v = true ↔ (u, v) ∈ arcs

end GraafVerif.Rand
