/-!
# The mathematical digraph `(V, A, w)` and its mutation semantics (spec of C01 / C20)

A spec state is a *plain set of arcs with weights*, given by characteristic functions:
`V x` — `x` is a vertex; `W u v = some w` — `u → v` is an arc of weight `w`
(`none` = no arc).  Unweighted digraphs are the case `ω = Unit`.  Nothing here knows about
rows, sorted containers or bit blocks; `specStep` is what the property text says:

* adding is idempotent, re-adding a weighted arc replaces its weight;
* `remove_arc` returns whether the arc was present and removes only it;
* `toggle` (matrix only) is the symmetric difference with `{(u,v)}`;
* a *fixed-order* digraph keeps `V`; a call with `u = v` or an endpoint outside `V` is
  rejected: it panics and leaves the state unchanged;
* a *growing* digraph (`AdjacencyMap`) rejects only `u = v` and admits `u`, `v` into `V`.

No imports: usable from the compiled driver.
-/
namespace GraafVerif.ReprSpec

/-- What a mutating call gives back: `()`, a `bool`, or a panic. -/
inductive Out where
  | unit
  | bool (b : Bool)
  | panic
  deriving DecidableEq, Repr, Inhabited

/-- `add_arc` (`ω = Unit`) / `add_arc_weighted`, and `remove_arc`. -/
inductive Op (ω : Type) where
  | add (u v : Nat) (w : ω)
  | rem (u v : Nat)
  deriving Repr

/-- The calls of `AdjacencyMatrix`, which additionally has `toggle`. -/
inductive MxOp where
  | add (u v : Nat)
  | rem (u v : Nat)
  | tog (u v : Nat)
  deriving Repr, DecidableEq

/-- `AdjacencyMap::add_arc` admits new endpoints; all other representations keep `V = 0..order`. -/
inductive Kind where
  | fixed
  | growing
  deriving DecidableEq, Repr

structure SpecState (ω : Type) where
  V : Nat → Bool
  W : Nat → Nat → Option ω

namespace SpecState
variable {ω : Type}

/-- The arc set. -/
def A (s : SpecState ω) (u v : Nat) : Bool := (s.W u v).isSome

/-- No self-loop, no arc with an endpoint outside `V` (no duplicate arc: `W` is a function). -/
def Valid (s : SpecState ω) : Prop := ∀ u v, s.A u v = true → u ≠ v ∧ s.V u = true ∧ s.V v = true

theorem ext {s t : SpecState ω} (hV : ∀ x, s.V x = t.V x) (hW : ∀ u v, s.W u v = t.W u v) : s = t := by
  cases s; cases t
  congr
  · funext x; exact hV x
  · funext u v; exact hW u v
end SpecState

/-- The digraph on `0..n` without arcs. -/
def emptySpec (ω : Type) (n : Nat) : SpecState ω := ⟨fun x => decide (x < n), fun _ _ => none⟩

/-- `W[(u,v) ↦ x]`. -/
def setW {ω : Type} (W : Nat → Nat → Option ω) (u v : Nat) (x : Option ω) : Nat → Nat → Option ω :=
  fun a b => if a = u ∧ b = v then x else W a b

/-- `V ∪ {u}`. -/
def addV (V : Nat → Bool) (u : Nat) : Nat → Bool := fun a => decide (a = u) || V a

/-- The calls that must be rejected. -/
def rejected {ω : Type} (k : Kind) (s : SpecState ω) (u v : Nat) : Bool :=
  decide (u = v) || (decide (k = .fixed) && !(s.V u && s.V v))

/-- Vertex set after a successful add. -/
def grow (k : Kind) (V : Nat → Bool) (u v : Nat) : Nat → Bool :=
  match k with
  | .fixed => V
  | .growing => addV (addV V u) v

def specStep {ω : Type} (k : Kind) (s : SpecState ω) : Op ω → SpecState ω × Out
  | .add u v w =>
    if rejected k s u v then (s, .panic)
    else (⟨grow k s.V u v, setW s.W u v (some w)⟩, .unit)
  | .rem u v => (⟨s.V, setW s.W u v none⟩, .bool (s.A u v))

/-- Matrix calls on a fixed-order unweighted state. -/
def specStepMx (s : SpecState Unit) : MxOp → SpecState Unit × Out
  | .add u v => specStep .fixed s (.add u v ())
  | .rem u v => specStep .fixed s (.rem u v)
  | .tog u v =>
    if rejected .fixed s u v then (s, .panic)
    else (⟨s.V, setW s.W u v (if s.A u v then none else some ())⟩, .unit)

/-- Run a history: final state and the outputs of all calls.  Used with the spec step and
with every representation's model step. -/
def run {σ ο : Type} (step : σ → ο → σ × Out) : σ → List ο → σ × List Out
  | s, [] => (s, [])
  | s, op :: ops =>
    let r := step s op
    let rest := run step r.1 ops
    (rest.1, r.2 :: rest.2)

/-! ## Spec-level facts (the "never observable" clause) -/

theorem emptySpec_valid (ω : Type) (n : Nat) : (emptySpec ω n).Valid := by
  intro u v h; simp [emptySpec, SpecState.A] at h

theorem rejected_eq_false {ω : Type} (k : Kind) (s : SpecState ω) (u v : Nat) :
    rejected k s u v = false ↔ u ≠ v ∧ (k = .fixed → s.V u = true ∧ s.V v = true) := by
  cases k <;> simp [rejected]

theorem A_setW {ω : Type} (V : Nat → Bool) (W : Nat → Nat → Option ω) (u v : Nat) (x : Option ω) (a b : Nat) :
    (SpecState.mk V (setW W u v x)).A a b = if a = u ∧ b = v then x.isSome else (W a b).isSome := by
  simp only [SpecState.A, setW]; split <;> rfl

theorem specStep_add_rej {ω : Type} {k : Kind} {s : SpecState ω} {u v : Nat} (w : ω)
    (h : rejected k s u v = true) : specStep k s (.add u v w) = (s, .panic) := by
  simp [specStep, h]

theorem specStep_add_ok {ω : Type} {k : Kind} {s : SpecState ω} {u v : Nat} (w : ω)
    (h : rejected k s u v = false) :
    specStep k s (.add u v w) = (⟨grow k s.V u v, setW s.W u v (some w)⟩, .unit) := by
  simp [specStep, h]

theorem specStepMx_tog_rej {s : SpecState Unit} {u v : Nat}
    (h : rejected .fixed s u v = true) : specStepMx s (.tog u v) = (s, .panic) := by
  simp [specStepMx, h]

theorem specStepMx_tog_ok {s : SpecState Unit} {u v : Nat} (h : rejected .fixed s u v = false) :
    specStepMx s (.tog u v) = (⟨s.V, setW s.W u v (if s.A u v then none else some ())⟩, .unit) := by
  simp [specStepMx, h]

theorem specStep_valid {ω : Type} (k : Kind) (s : SpecState ω) (op : Op ω) (h : s.Valid) :
    (specStep k s op).1.Valid := by
  cases op with
  | add u v w =>
    cases hr : rejected k s u v
    · rw [specStep_add_ok w hr]
      rw [rejected_eq_false] at hr
      intro a b hab
      simp only [A_setW] at hab
      by_cases hc : a = u ∧ b = v
      · obtain ⟨rfl, rfl⟩ := hc
        refine ⟨hr.1, ?_⟩
        cases k with
        | fixed => exact hr.2 rfl
        | growing => simp [grow, addV]
      · simp only [hc, if_false] at hab
        have := h a b hab
        refine ⟨this.1, ?_⟩
        cases k with
        | fixed => exact this.2
        | growing => simp [grow, addV, this.2]
    · rw [specStep_add_rej w hr]; exact h
  | rem u v =>
    intro a b hab
    simp only [specStep, A_setW] at hab
    by_cases hc : a = u ∧ b = v
    · simp [hc] at hab
    · simp only [hc, if_false] at hab
      exact h a b hab

theorem specStepMx_valid (s : SpecState Unit) (op : MxOp) (h : s.Valid) : (specStepMx s op).1.Valid := by
  cases op with
  | add u v => exact specStep_valid _ _ _ h
  | rem u v => exact specStep_valid _ _ _ h
  | tog u v =>
    cases hr : rejected .fixed s u v
    · rw [specStepMx_tog_ok hr]
      rw [rejected_eq_false] at hr
      intro a b hab
      simp only [A_setW] at hab
      by_cases hc : a = u ∧ b = v
      · obtain ⟨rfl, rfl⟩ := hc
        exact ⟨hr.1, hr.2 rfl⟩
      · simp only [hc, if_false] at hab
        exact h a b hab
    · rw [specStepMx_tog_rej hr]; exact h

end GraafVerif.ReprSpec
