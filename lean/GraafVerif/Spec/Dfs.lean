import GraafVerif.Spec.Graph
/-!
# What C06 calls a depth-first preorder

The property fixes, for every yielded vertex, *which* vertex it hangs under, but not which of
several eligible vertices comes next:

> a vertex is yielded either as a new root (a source, when no vertex yielded so far has an
> unyielded out-neighbour) or as an out-neighbour of the deepest vertex on the current search
> path that still has an unyielded out-neighbour; `DfsPred` reports exactly that vertex as
> predecessor (`None` for roots), `DfsDist` its depth in that search tree (roots 0).

`Search` is the state this sentence speaks about: the vertices yielded so far and the current
search path (root … most recently yielded vertex, stored deepest first).  `expect` returns the
annotation (parent, depth) the sentence prescribes for a candidate next vertex, or `none` when
the candidate may not be yielded next.  Nothing here looks at neighbour ORDER: any unyielded
out-neighbour of the right parent (any unyielded source, for a root) is accepted.
Everything is computable, so validity of a concrete sequence is decidable.
-/
namespace GraafVerif.Dfs

structure Search where
  /-- yielded so far, in order -/
  yielded : List Nat
  /-- current search path, deepest vertex first -/
  path : List Nat

/-- `u` still has an unyielded out-neighbour. -/
def hasFresh (g : Graph) (ys : List Nat) (u : Nat) : Bool := (g.out u).any (fun w => !ys.contains w)

/-- The search path cut back to its deepest vertex that still has an unyielded out-neighbour
(`[]` when no vertex of the path has one). -/
def active (g : Graph) (s : Search) : List Nat := s.path.dropWhile (fun d => !hasFresh g s.yielded d)

/-- The (parent, depth) the property prescribes when `x` is yielded next; `none` = `x` must not
be yielded next. -/
def expect (g : Graph) (S : List Nat) (s : Search) (x : Nat) : Option (Option Nat × Nat) :=
  if s.yielded.contains x then none            -- "exactly once"
  else match active g s with
    | [] =>                                     -- new root
      if S.contains x && s.yielded.all (fun y => !hasFresh g s.yielded y) then some (none, 0) else none
    | d :: rest =>                              -- child of the deepest path vertex with an unyielded out-neighbour
      if (g.out d).contains x then some (some d, rest.length + 1) else none

/-- After `x` was yielded: the path is root … parent, `x`. -/
def advance (g : Graph) (s : Search) (x : Nat) : Search := ⟨s.yielded ++ [x], x :: active g s⟩

/-- A vertex with the parent and depth the property prescribes for it. -/
abbrev Ann := Nat × Option Nat × Nat

/-- Annotate a vertex sequence step by step; `none` as soon as a step is not allowed. -/
def annotateFrom (g : Graph) (S : List Nat) : Search → List Nat → Option (List Ann)
  | _, [] => some []
  | s, x :: xs =>
    match expect g S s x with
    | none => none
    | some a => (annotateFrom g S (advance g s x) xs).map ((x, a) :: ·)

def annotate (g : Graph) (S : List Nat) (xs : List Nat) : Option (List Ann) := annotateFrom g S ⟨[], []⟩ xs

/-- `xs` is (a prefix of) a depth-first preorder of `g` from the sources `S`. -/
def ValidDfsPreorder (g : Graph) (S : List Nat) (xs : List Nat) : Prop := (annotate g S xs).isSome = true

instance (g : Graph) (S xs : List Nat) : Decidable (ValidDfsPreorder g S xs) := by
  unfold ValidDfsPreorder; infer_instance

/-- The forest of an annotated sequence as a predecessor vector of length `n`. -/
def forestOf (n : Nat) (ann : List Ann) : List (Option Nat) :=
  (List.range n).map (fun v => match ann.find? (fun a => a.1 == v) with
    | some a => a.2.1
    | none => none)

/-- Exactly the reachable vertices, once each. -/
def Exact (g : Graph) (S : List Nat) (xs : List Nat) : Prop := xs.Nodup ∧ ∀ v, v ∈ xs ↔ ReachFrom g S v

/-- What C06 demands of the items `Dfs` yields. -/
def DfsOK (g : Graph) (S : List Nat) (xs : List Nat) : Prop := Exact g S xs ∧ ValidDfsPreorder g S xs

/-- What C06 demands of the items `(v, depth)` `DfsDist` yields. -/
def DfsDistOK (g : Graph) (S : List Nat) (items : List (Nat × Nat)) : Prop :=
  Exact g S (items.map (·.1)) ∧
  ∃ ann, annotate g S (items.map (·.1)) = some ann ∧ items = ann.map (fun a => (a.1, a.2.2))

/-- What C06 demands of the items `(pred, v)` `DfsPred` yields and of `predecessors()`. -/
def DfsPredOK (g : Graph) (S : List Nat) (items : List (Nat × Option Nat)) (tree : List (Option Nat)) : Prop :=
  Exact g S (items.map (·.1)) ∧
  ∃ ann, annotate g S (items.map (·.1)) = some ann ∧ items = ann.map (fun a => (a.1, a.2.1)) ∧
    tree = forestOf g.n ann

end GraafVerif.Dfs
