import GraafVerif.Spec.Query
import GraafVerif.Model.Repr
/-!
# The abstract digraph `(V, A, w)` denoted by a representation

`V = vertices r`, `A u v = (hasArc r u v = true)`, `w = arcWeight r` (unweighted
representations: weight 1 on every arc — they have no weight query).  That `hasArc` /
`vertices` / `arcs` themselves track the abstract digraph under every mutation history is
property C01 (`Proof/Repr*.lean`); C02/C12 build on this view.
-/
namespace GraafVerif.Query
open GraafVerif.Repr

def unitWt (has : Nat → Nat → Bool) (u v : Nat) : Option Int := if has u v then some 1 else none

def AL.abs (d : AdjList) : Digraph := ⟨d.vertices, d.hasArc, unitWt d.hasArc⟩
def AM.abs (d : AdjMap) : Digraph := ⟨d.vertices, d.hasArc, unitWt d.hasArc⟩
def MX.abs (d : AdjMatrix) : Digraph := ⟨d.vertices, d.hasArc, unitWt d.hasArc⟩
def EL.abs (d : EdgeList) : Digraph := ⟨d.vertices, d.hasArc, unitWt d.hasArc⟩
def WL.abs (d : AdjListW) : Digraph := ⟨d.vertices, d.hasArc, d.arcWeight⟩

end GraafVerif.Query
