import GraafVerif.Model.Repr
import GraafVerif.Spec.Gen
/-!
# "The digraph `d` is exactly the digraph with order `n` and arc predicate `P`", per representation

`Realises d n P`: `d` is well-formed (the representation invariant of `Model/Repr.lean`), has
order `n`, vertex set `0..n`, and `arcs()` yields `(u, v)` exactly when `P u v`.
`Family T` bundles the generator functions of one representation; `FamilySpec` is what C14
asserts about such a bundle (`fits n` = the order is admissible for the representation: always
true except for the matrix, whose `empty` panics when `n * n` overflows `usize`).
-/
namespace GraafVerif.Gen
open GraafVerif.Repr GraafVerif.GenSpec

def AL.Realises (d : AdjList) (n : Nat) (P : Nat → Nat → Prop) : Prop :=
  d.WF ∧ d.order = n ∧ ∀ u v, (u, v) ∈ d.arcs ↔ P u v

def AM.Realises (d : AdjMap) (n : Nat) (P : Nat → Nat → Prop) : Prop :=
  d.WF ∧ d.order = n ∧ d.vertices = List.range n ∧ ∀ u v, (u, v) ∈ d.arcs ↔ P u v

def MX.Realises (d : AdjMatrix) (n : Nat) (P : Nat → Nat → Prop) : Prop :=
  d.WF ∧ d.order = n ∧ ∀ u v, (u, v) ∈ d.arcs ↔ P u v

def EL.Realises (d : EdgeList) (n : Nat) (P : Nat → Nat → Prop) : Prop :=
  d.WF ∧ d.order = n ∧ ∀ u v, (u, v) ∈ d.arcs ↔ P u v

def WL.Realises (d : AdjListW) (n : Nat) (P : Nat → Nat → Prop) : Prop :=
  d.WF ∧ d.order = n ∧ ∀ u v, (u, v) ∈ d.arcs ↔ P u v

/-- The generators of one representation. -/
structure Family (T : Type) where
  empty : Nat → Option T
  complete : Nat → Option T
  circuit : Nat → Option T
  cycle : Nat → Option T
  path : Nat → Option T
  star : Nat → Option T
  wheel : Nat → Option T
  biclique : Nat → Nat → Option T
  trivial : Option T
  claw : Option T
  utility : Option T

/-- C14 for one representation: every generator, at every admissible parameter, returns a
digraph that realises the defining arc set, and panics (`none`) at inadmissible parameters. -/
def FamilySpec {T : Type} (R : T → Nat → (Nat → Nat → Prop) → Prop) (fits : Nat → Prop) (F : Family T) : Prop :=
  (∀ n, 1 ≤ n → fits n → ∃ d, F.empty n = some d ∧ R d n (EmptyDef n)) ∧
  (∀ n, 1 ≤ n → fits n → ∃ d, F.complete n = some d ∧ R d n (CompleteDef n)) ∧
  (∀ n, 1 ≤ n → fits n → ∃ d, F.circuit n = some d ∧ R d n (CircuitDef n)) ∧
  (∀ n, 1 ≤ n → fits n → ∃ d, F.cycle n = some d ∧ R d n (CycleDef n)) ∧
  (∀ n, 1 ≤ n → fits n → ∃ d, F.path n = some d ∧ R d n (PathDef n)) ∧
  (∀ n, 1 ≤ n → fits n → ∃ d, F.star n = some d ∧ R d n (StarDef n)) ∧
  (∀ n, 4 ≤ n → fits n → ∃ d, F.wheel n = some d ∧ R d n (WheelDef n)) ∧
  (∀ m n, 1 ≤ m → 1 ≤ n → fits (m + n) → ∃ d, F.biclique m n = some d ∧ R d (m + n) (BicliqueDef m n)) ∧
  (∃ d, F.trivial = some d ∧ R d 1 (EmptyDef 1)) ∧
  (∃ d, F.claw = some d ∧ R d 4 (BicliqueDef 1 3)) ∧
  (∃ d, F.utility = some d ∧ R d 6 (BicliqueDef 3 3)) ∧
  -- inadmissible parameters panic
  F.empty 0 = none ∧ F.complete 0 = none ∧ F.circuit 0 = none ∧ F.cycle 0 = none ∧
  F.path 0 = none ∧ F.star 0 = none ∧ (∀ n, n < 4 → F.wheel n = none) ∧
  (∀ m n, m = 0 ∨ n = 0 → F.biclique m n = none)

end GraafVerif.Gen
