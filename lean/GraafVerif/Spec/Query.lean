/-!
# C02 — the abstract digraph `(V, A, w)` and the textbook value of every read-only query

`Digraph` is the abstract view every representation is compared with: `V` as the ascending
list of vertex ids (`AdjacencyMap` ids need not be `0..order`), `A` as a Boolean relation,
`w` as a partial weight function.  Every `Spec.*` function below is the *definition* of a
query's value from `(V, A, w)` alone; none of them looks at a representation.

Lists are used as finite sets: for a `Valid` digraph `verts` is strictly ascending, so
`verts.filter P` *is* "the elements of `{v ∈ V | P v}`, ascending, no repeats" and its length
is the cardinality (`Proof/Query.lean`: `isAscEnum_filter`).
No imports: usable from the compiled driver (the driver evaluates these very definitions on
the implementation's own `vertices()` / `arcs()` output — the PROPFAIL oracle).
-/
namespace GraafVerif.Query

structure Digraph where
  /-- `V`, ascending. -/
  verts : List Nat
  /-- `A u v`. -/
  adj : Nat → Nat → Bool
  /-- `w u v` (`none` = no arc). -/
  wt : Nat → Nat → Option Int

namespace Digraph
/-- Validity of an abstract digraph: `V` is a set (strictly ascending enumeration), arcs join
distinct members of `V`, weights live exactly on arcs. -/
structure Valid (G : Digraph) : Prop where
  sorted : G.verts.Pairwise (· < ·)
  closed : ∀ u v, G.adj u v = true → u ∈ G.verts ∧ v ∈ G.verts
  irrefl : ∀ u, G.adj u u = false
  wt_iff : ∀ u v, (G.wt u v).isSome = G.adj u v
end Digraph

/-- `l` enumerates `{x | P x}` ascending without repeats. -/
def IsAscEnum (l : List Nat) (P : Nat → Prop) : Prop := l.Pairwise (· < ·) ∧ ∀ x, x ∈ l ↔ P x

/-- `m` is the maximum of `l` (`0` for the empty list, as `max().unwrap_or(0)`). -/
def IsMaxOf (m : Nat) (l : List Nat) : Prop := (l = [] ∧ m = 0) ∨ (m ∈ l ∧ ∀ x ∈ l, x ≤ m)
def IsMinOf (m : Nat) (l : List Nat) : Prop := (l = [] ∧ m = 0) ∨ (m ∈ l ∧ ∀ x ∈ l, m ≤ x)

/-- A vertex sequence is a walk: at least two vertices, every consecutive pair an arc. -/
def IsWalkSeq (G : Digraph) (w : List Nat) : Prop :=
  2 ≤ w.length ∧ ∀ i, (h : i + 1 < w.length) → G.adj (w[i]'(by omega)) (w[i+1]'h) = true

namespace Spec
variable (G : Digraph)

def order : Nat := G.verts.length
def outNeighbors (u : Nat) : List Nat := G.verts.filter (fun v => G.adj u v)
def inNeighbors (v : Nat) : List Nat := G.verts.filter (fun u => G.adj u v)
def outNeighborsWeighted (u : Nat) : List (Nat × Int) :=
  G.verts.filterMap (fun v => (G.wt u v).map (fun w => (v, w)))
/-- `A` enumerated in lexicographic order. -/
def arcs : List (Nat × Nat) := G.verts.flatMap (fun u => (outNeighbors G u).map (fun v => (u, v)))
/-- `|A|`. -/
def size : Nat := (arcs G).length
def hasArc (u v : Nat) : Bool := G.adj u v
def hasEdge (u v : Nat) : Bool := G.adj u v && G.adj v u
def arcWeight (u v : Nat) : Option Int := G.wt u v
/-- Executable form of `IsWalkSeq` (`Proof/Query.lean`: `hasWalk_iff`). -/
def chain : List Nat → Bool
  | u :: v :: rest => G.adj u v && chain (v :: rest)
  | _ => true
def hasWalk (w : List Nat) : Bool := decide (2 ≤ w.length) && chain G w
def outdegree (u : Nat) : Nat := (outNeighbors G u).length
def indegree (v : Nat) : Nat := (inNeighbors G v).length
def degree (u : Nat) : Nat := indegree G u + outdegree G u
def isSink (u : Nat) : Bool := outdegree G u == 0
def isSource (u : Nat) : Bool := indegree G u == 0
def isIsolated (u : Nat) : Bool := indegree G u == 0 && outdegree G u == 0
def isPendant (u : Nat) : Bool := degree G u == 1
def sinks : List Nat := G.verts.filter (isSink G)
def sources : List Nat := G.verts.filter (isSource G)
def degreeSequence : List Nat := G.verts.map (degree G)
def indegreeSequence : List Nat := G.verts.map (indegree G)
def outdegreeSequence : List Nat := G.verts.map (outdegree G)
def semidegreeSequence : List (Nat × Nat) := G.verts.map (fun u => (indegree G u, outdegree G u))
/-- Executable max / min with the `unwrap_or(0)` convention (`Proof/Query.lean`: `isMaxOf_maxL`). -/
def maxL : List Nat → Nat
  | [] => 0
  | x :: xs => xs.foldl max x
def minL : List Nat → Nat
  | [] => 0
  | x :: xs => xs.foldl min x
def maxDegree : Nat := maxL (degreeSequence G)
def minDegree : Nat := minL (degreeSequence G)
def maxIndegree : Nat := maxL (indegreeSequence G)
def minIndegree : Nat := minL (indegreeSequence G)
def maxOutdegree : Nat := maxL (outdegreeSequence G)
def minOutdegree : Nat := minL (outdegreeSequence G)
end Spec

end GraafVerif.Query
