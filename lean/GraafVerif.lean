-- This module serves as the root of the `GraafVerif` library.
-- Import modules here that should be built as part of the library.
import GraafVerif.Basic
