namespace Proto
def maskOf (i : Nat) : BitVec 64 := 1#64 <<< (i % 64)

@[simp] theorem getElem_maskOf (i k : Nat) (hk : k < 64) : (maskOf i)[k] = decide (k = i % 64) := by
  unfold maskOf
  simp [hk]
  grind

theorem and_mask_ne_zero (x : BitVec 64) (i : Nat) : ((x &&& maskOf i) != 0#64) = x[i % 64]'(Nat.mod_lt _ (by decide)) := by
  have hi : i % 64 < 64 := Nat.mod_lt _ (by decide)
  cases hx : x[i % 64]
  · have : x &&& maskOf i = 0#64 := by
      apply BitVec.eq_of_getElem_eq
      intro k hk
      simp
      intro h1 h2; subst h2; simp_all
    simp [this]
  · have : (x &&& maskOf i)[i % 64] = true := by
      simp [hx]
    have hne : x &&& maskOf i ≠ 0#64 := by
      intro h; rw [h] at this; simp at this
    simp [bne, hne]

theorem getElem_or_mask (x : BitVec 64) (i k : Nat) (hk : k < 64) :
    (x ||| maskOf i)[k] = (x[k] || decide (k = i % 64)) := by
  simp [hk]

theorem getElem_xor_mask (x : BitVec 64) (i k : Nat) (hk : k < 64) :
    (x ^^^ maskOf i)[k] = (x[k] ^^ decide (k = i % 64)) := by
  simp [hk]

theorem getElem_andnot_mask (x : BitVec 64) (i k : Nat) (hk : k < 64) :
    (x &&& ~~~ maskOf i)[k] = (x[k] && !decide (k = i % 64)) := by
  simp [hk]
end Proto
