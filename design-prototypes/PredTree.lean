/-! Prototype: model of `PredecessorTree::search_by` (src/algo/predecessor_tree.rs:187-229). -/
namespace Proto.PredTree

abbrev Pred := List (Option Nat)

/-- The `while let Some(&v) = self.pred.get(s)` loop. `fuel` bounds iterations. -/
def loop (pred : Pred) (isT : Nat → Option Nat → Bool) :
    Nat → Nat → List Bool → List Nat → Option (List Nat)
  | 0, _, _, _ => none
  | fuel+1, s, visited, path =>
    match pred[s]? with
    | none => none
    | some v =>
      if isT s v then some path
      else match v with
        | none => none
        | some v' =>
          if (visited[v']?).getD false then none
          else loop pred isT fuel v' (visited.set v' true) (if v' ≠ s then path ++ [v'] else path)

/-- `search_by`; `none` on the outer level = panic is not modelled here (s < len assumed). -/
def searchBy (pred : Pred) (s : Nat) (isT : Nat → Option Nat → Bool) (fuel : Nat) : Option (List Nat) :=
  if isT s ((pred[s]?).getD none) then some [s]
  else loop pred isT fuel s (List.replicate pred.length false) [s]

/-- k-th iterate of the predecessor link (none when the chain ended). -/
def chain (pred : Pred) (s : Nat) : Nat → Option Nat
  | 0 => some s
  | k+1 => match chain pred s k with
    | none => none
    | some x => ((pred[x]?).getD none)

example : searchBy [some 1, some 2, some 3, none] 0 (fun v _ => v == 3) 10 = some [0,1,2,3] := by decide
example : searchBy [some 1, some 0] 0 (fun v _ => v == 5) 10 = none := by decide
example : searchBy [some 0] 0 (fun v _ => v == 5) 10 = none := by decide

end Proto.PredTree

namespace Proto.PredTree

def target (pred : Pred) (isT : Nat → Option Nat → Bool) (x : Nat) : Bool := isT x ((pred[x]?).getD none)

theorem chain_succ_of_link {pred : Pred} {s v' : Nat} (h : (pred[s]?).getD none = some v') (k : Nat) :
    chain pred s (k+1) = chain pred v' k := by
  induction k with
  | zero => simp [chain, h]
  | succ k ih => rw [chain, ih]; rfl

theorem chain_add {pred : Pred} {s x : Nat} {i : Nat} (h : chain pred s i = some x) (m : Nat) :
    chain pred s (i + m) = chain pred x m := by
  induction m with
  | zero => simpa [chain] using h
  | succ m ih => rw [← Nat.add_assoc, chain, ih]; rfl

/-- Soundness of the loop: a returned path is `path` extended by the chain from `s`
up to the first target. -/
theorem loop_sound (pred : Pred) (isT) :
    ∀ (fuel s : Nat) (vis : List Bool) (path p : List Nat),
      vis.length = pred.length →
      loop pred isT fuel s vis path = some p →
      ∃ k, p = path ++ (List.range k).map (fun j => (chain pred s (j+1)).getD 0)
        ∧ (∃ x, chain pred s k = some x ∧ target pred isT x = true)
        ∧ ∀ j, j < k → ∀ y, chain pred s j = some y → target pred isT y = false := by
  intro fuel
  induction fuel with
  | zero => intro s vis path p _ h; simp [loop] at h
  | succ fuel ih =>
    intro s vis path p hlen h
    unfold loop at h
    split at h
    · simp at h
    · rename_i v hv
      have hs : s < pred.length := by
        rcases List.getElem?_eq_some_iff.mp hv with ⟨hlt, _⟩; exact hlt
      have hgetD : (pred[s]?).getD none = v := by
        simp [hv]
      by_cases ht : isT s v = true
      · simp [ht] at h
        refine ⟨0, ?_, ⟨s, rfl, ?_⟩, ?_⟩
        · simp [h]
        · rw [target, hgetD]; exact ht
        · intro j hj; omega
      · simp [ht] at h
        cases v with
        | none => simp at h
        | some v' =>
          simp at h
          obtain ⟨hvis, h⟩ := h
          have htgt_s : target pred isT s = false := by
            rw [target, hgetD]; simpa using ht
          by_cases hvs : v' = s
          · -- self-loop: the recursive call returns none
            subst hvs
            exfalso
            cases fuel with
            | zero => simp [loop] at h
            | succ f =>
              unfold loop at h
              simp [hv, ht] at h
              have : ((vis.set v' true)[v']?).getD false = true := by
                simp [List.getElem?_set, hlen, hs]
              simp [this] at h
          · simp [hvs] at h
            obtain ⟨k, hp, ⟨x, hx, hxt⟩, hmin⟩ := ih v' (vis.set v' true) (path ++ [v']) p (by simpa using hlen) h
            refine ⟨k+1, ?_, ⟨x, ?_, hxt⟩, ?_⟩
            · rw [hp, List.range_succ_eq_map]
              have h1 : (chain pred s 1).getD 0 = v' := by simp [chain, hgetD]
              have h2 : ∀ a, chain pred s (a + 1 + 1) = chain pred v' (a + 1) := fun a =>
                chain_succ_of_link hgetD (a+1)
              simp [h1, h2, List.map_map, Function.comp_def]
            · rw [chain_succ_of_link hgetD]; exact hx
            · intro j hj y hy
              cases j with
              | zero => simp [chain] at hy; subst hy; exact htgt_s
              | succ j =>
                rw [chain_succ_of_link hgetD] at hy
                exact hmin j (by omega) y hy

end Proto.PredTree
