/-! Prototype: BFS model (src/algo/bfs_dist.rs) and the reachable-set half of C04. -/
namespace Proto.Bfs

structure Graph where
  n : Nat
  out : Nat → List Nat

def Graph.A (g : Graph) (u v : Nat) : Prop := v ∈ g.out u
def Graph.WF (g : Graph) : Prop := ∀ u v, v ∈ g.out u → u < g.n ∧ v < g.n

inductive Reach (g : Graph) : Nat → Nat → Prop
  | refl (u) : Reach g u u
  | step {u v w} : Reach g u v → g.A v w → Reach g u w

def ReachFrom (g : Graph) (S : List Nat) (v : Nat) : Prop := ∃ s ∈ S, Reach g s v

structure St where
  queue : List (Nat × Nat)
  visited : List Bool

def isVis (vis : List Bool) (v : Nat) : Bool := (vis[v]?).getD false

def discover (w : Nat) (st : St) (v : Nat) : St :=
  if isVis st.visited v then st else ⟨st.queue ++ [(v, w+1)], st.visited.set v true⟩

def bfsNew (g : Graph) (S : List Nat) : St :=
  S.foldl (fun st u => ⟨st.queue ++ [(u, 0)], st.visited.set u true⟩) ⟨[], List.replicate g.n false⟩

def bfsNext (g : Graph) (st : St) : Option ((Nat × Nat) × St) :=
  match st.queue with
  | [] => none
  | (u, w) :: q => some ((u, w), (g.out u).foldl (discover w) ⟨q, st.visited⟩)

def bfsRun (g : Graph) : Nat → St → List (Nat × Nat)
  | 0, _ => []
  | f+1, st => match bfsNext g st with
    | none => []
    | some (x, st') => x :: bfsRun g f st'

def g0 : Graph := ⟨8, fun u => match u with
  | 0 => [1] | 1 => [2,4] | 2 => [3,5,6] | 3 => [0] | 6 => [5,7] | 7 => [6] | _ => []⟩
example : bfsRun g0 20 (bfsNew g0 [3,7]) = [(3,0),(7,0),(0,1),(6,1),(1,2),(5,2),(2,3),(4,3)] := by decide

/-! ### visited / queue bookkeeping -/

theorem isVis_set (vis : List Bool) (v x : Nat) (hv : v < vis.length) :
    isVis (vis.set v true) x = (isVis vis x || decide (x = v)) := by
  unfold isVis
  by_cases h : x = v
  · subst h; simp [hv]
  · have : v ≠ x := fun e => h e.symm
    simp [List.getElem?_set_ne this, h]

/-- Effect of scanning a list of neighbours. -/
theorem foldl_discover (w : Nat) (vs : List Nat) (st : St) (hlen : ∀ v ∈ vs, v < st.visited.length) :
    let st' := vs.foldl (discover w) st
    st'.visited.length = st.visited.length ∧
    (∀ x, isVis st'.visited x = (isVis st.visited x || decide (x ∈ vs))) ∧
    (∃ new, st'.queue = st.queue ++ new ∧ (∀ p ∈ new, p.1 ∈ vs ∧ isVis st.visited p.1 = false ∧ p.2 = w + 1)
        ∧ (new.map (·.1)).Nodup ∧ ∀ v ∈ vs, isVis st.visited v = false → v ∈ new.map (·.1)) := by
  induction vs generalizing st with
  | nil => simp
  | cons v vs ih =>
    have hv : v < st.visited.length := hlen v (by simp)
    simp only [List.foldl_cons]
    by_cases hvis : isVis st.visited v = true
    · have hd : discover w st v = st := by simp [discover, hvis]
      rw [hd]
      obtain ⟨h1, h2, new, h3, h4, h5, h6⟩ := ih st (fun x hx => hlen x (by simp [hx]))
      refine ⟨h1, ?_, new, h3, ?_, h5, ?_⟩
      · intro x; rw [h2 x]; by_cases hx : x = v <;> simp [hx, hvis]
      · intro p hp; obtain ⟨a, b, c⟩ := h4 p hp; exact ⟨by simp [a], b, c⟩
      · intro x hx hnv
        rcases List.mem_cons.mp hx with rfl | hx
        · simp [hvis] at hnv
        · exact h6 x hx hnv
    · have hvis' : isVis st.visited v = false := by simpa using hvis
      have hd : discover w st v = ⟨st.queue ++ [(v, w+1)], st.visited.set v true⟩ := by
        simp [discover, hvis']
      rw [hd]
      obtain ⟨h1, h2, new, h3, h4, h5, h6⟩ :=
        ih ⟨st.queue ++ [(v, w+1)], st.visited.set v true⟩
          (fun x hx => by simpa using hlen x (by simp [hx]))
      refine ⟨by simpa using h1, ?_, (v, w+1) :: new, by simp [h3], ?_, ?_, ?_⟩
      · intro x; rw [h2 x]; simp only [isVis_set _ _ _ hv]
        by_cases hx : x = v <;> simp [hx]
      · intro p hp
        rcases List.mem_cons.mp hp with rfl | hp
        · exact ⟨by simp, hvis', rfl⟩
        · obtain ⟨a, b, c⟩ := h4 p hp
          simp only [isVis_set _ _ _ hv] at b
          exact ⟨by simp [a], by simpa using (Bool.or_eq_false_iff.mp b).1, c⟩
      · simp only [List.map_cons, List.nodup_cons]
        refine ⟨?_, h5⟩
        intro hmem
        obtain ⟨p, hp, hpe⟩ := List.mem_map.mp hmem
        obtain ⟨_, b, _⟩ := h4 p hp
        simp only [isVis_set _ _ _ hv] at b
        simp [hpe] at b
      · intro x hx hnv
        rcases List.mem_cons.mp hx with rfl | hx
        · simp
        · by_cases hxv : x = v
          · subst hxv; simp
          · have : isVis (st.visited.set v true) x = false := by
              rw [isVis_set _ _ _ hv]; simp [hnv, hxv]
            simpa using Or.inr (h6 x hx this)


/-! ### run invariant: the reachable-set half of C04 -/

structure Inv (g : Graph) (S : List Nat) (E : List (Nat × Nat)) (st : St) : Prop where
  len : st.visited.length = g.n
  vis : ∀ x, isVis st.visited x = true ↔ x ∈ (E ++ st.queue).map (·.1)
  nodup : ((E ++ st.queue).map (·.1)).Nodup
  reach : ∀ x ∈ (E ++ st.queue).map (·.1), ReachFrom g S x
  closed : ∀ p ∈ E, ∀ v ∈ g.out p.1, isVis st.visited v = true
  src : ∀ s ∈ S, isVis st.visited s = true

theorem step_inv (g : Graph) (hg : g.WF) (S : List Nat) (E : List (Nat × Nat)) (st st' : St) (x : Nat × Nat)
    (h : Inv g S E st) (hn : bfsNext g st = some (x, st')) : Inv g S (E ++ [x]) st' := by
  unfold bfsNext at hn
  cases hq : st.queue with
  | nil => simp [hq] at hn
  | cons p q =>
    obtain ⟨u, w⟩ := p
    simp [hq] at hn
    obtain ⟨hx, hst⟩ := hn
    subst hx
    have hlen' : ∀ v ∈ g.out u, v < (St.mk q st.visited).visited.length := by
      intro v hv; simp [h.len]; exact (hg u v hv).2
    obtain ⟨h1, h2, new, h3, h4, h5, h6⟩ := foldl_discover w (g.out u) ⟨q, st.visited⟩ hlen'
    rw [hst] at h1 h2 h3
    simp only at h1 h2 h3 h4 h6
    have hmemEq : ∀ y, y ∈ ((E ++ [(u,w)]) ++ st'.queue).map (·.1) ↔
        (y ∈ (E ++ st.queue).map (·.1) ∨ y ∈ new.map (·.1)) := by
      intro y; simp [h3, hq]; grind
    refine ⟨by rw [h1]; exact h.len, ?_, ?_, ?_, ?_, ?_⟩
    · intro y
      rw [h2 y, hmemEq y]
      simp only [Bool.or_eq_true, decide_eq_true_eq]
      constructor
      · rintro (hy | hy)
        · exact Or.inl ((h.vis y).mp hy)
        · by_cases hv : isVis st.visited y = true
          · exact Or.inl ((h.vis y).mp hv)
          · exact Or.inr (h6 y hy (by simpa using hv))
      · rintro (hy | hy)
        · exact Or.inl ((h.vis y).mpr hy)
        · obtain ⟨p, hp, rfl⟩ := List.mem_map.mp hy
          exact Or.inr (h4 p hp).1
    · -- nodup
      have hnd := h.nodup
      rw [hq] at hnd
      have : ((E ++ [(u, w)]) ++ st'.queue).map (·.1) = ((E ++ (u,w) :: q).map (·.1)) ++ new.map (·.1) := by
        simp [h3]
      rw [this]
      refine List.nodup_append.mpr ⟨hnd, h5, ?_⟩
      intro a ha b hb hab
      subst hab
      obtain ⟨p, hp, rfl⟩ := List.mem_map.mp hb
      have := (h4 p hp).2.1
      have hv := (h.vis p.1).mpr (by rw [hq]; exact ha)
      simp [hv] at this
    · intro y hy
      rcases (hmemEq y).mp hy with hy | hy
      · exact h.reach y hy
      · obtain ⟨p, hp, rfl⟩ := List.mem_map.mp hy
        have hu : ReachFrom g S u := h.reach u (by simp [hq])
        obtain ⟨s, hs, hr⟩ := hu
        exact ⟨s, hs, Reach.step hr (h4 p hp).1⟩
    · intro p hp v hv
      rw [h2 v]
      rcases List.mem_append.mp hp with hp | hp
      · simp [h.closed p hp v hv]
      · simp at hp; subst hp; simp [hv]
    · intro s hs; rw [h2 s]; simp [h.src s hs]

theorem closed_reach (g : Graph) (S : List Nat) (E : List (Nat × Nat)) (st : St)
    (h : Inv g S E st) (hq : st.queue = []) : ∀ v, ReachFrom g S v → v ∈ E.map (·.1) := by
  rintro v ⟨s, hs, hr⟩
  induction hr with
  | refl => have := (h.vis s).mp (h.src s hs); simpa [hq] using this
  | step _ ha ih =>
    obtain ⟨p, hp, rfl⟩ := List.mem_map.mp ih
    have := (h.vis _).mp (h.closed p hp _ ha)
    simpa [hq] using this


/-! ### hop distances -/

inductive ReachIn (g : Graph) (S : List Nat) : Nat → Nat → Prop
  | src {s} : s ∈ S → ReachIn g S 0 s
  | step {k u v} : ReachIn g S k u → g.A u v → ReachIn g S (k+1) v

def IsHopDist (g : Graph) (S : List Nat) (v d : Nat) : Prop :=
  ReachIn g S d v ∧ ∀ j, j < d → ¬ ReachIn g S j v

structure InvD (g : Graph) (S : List Nat) (E : List (Nat × Nat)) (st : St) : Prop extends Inv g S E st where
  lvl : ∀ p ∈ E ++ st.queue, IsHopDist g S p.1 p.2
  sorted : ((E ++ st.queue).map (·.2)).Pairwise (· ≤ ·)
  span : ∀ hd, st.queue.head? = some hd → ∀ p ∈ st.queue, p.2 ≤ hd.2 + 1

/-- Everything at hop distance ≤ every queued level is already visited. Derived, not maintained. -/
theorem seen (g : Graph) (S : List Nat) (E : List (Nat × Nat)) (st : St) (h : InvD g S E st) :
    ∀ j v, ReachIn g S j v → (∀ p ∈ st.queue, j ≤ p.2) → isVis st.visited v = true := by
  intro j v hr
  induction hr with
  | src hs => intro _; exact h.src _ hs
  | @step k x v hrx ha ih =>
    intro hle
    have hx := ih (fun p hp => by have := hle p hp; omega)
    have hxm := (h.vis x).mp hx
    obtain ⟨p, hp, hpx⟩ := List.mem_map.mp hxm
    rcases List.mem_append.mp hp with hpE | hpQ
    · have := h.closed p hpE v (by rw [hpx]; exact ha); exact this
    · exfalso
      have hl := h.lvl p (List.mem_append.mpr (Or.inr hpQ))
      have h1 := hle p hpQ
      rw [hpx] at hl
      exact hl.2 k (by omega) hrx

theorem step_invD (g : Graph) (hg : g.WF) (S : List Nat) (E : List (Nat × Nat)) (st st' : St) (x : Nat × Nat)
    (h : InvD g S E st) (hn : bfsNext g st = some (x, st')) : InvD g S (E ++ [x]) st' := by
  have hbase := step_inv g hg S E st st' x h.toInv hn
  unfold bfsNext at hn
  cases hq : st.queue with
  | nil => simp [hq] at hn
  | cons p q =>
    obtain ⟨u, w⟩ := p
    simp [hq] at hn
    obtain ⟨hx, hst⟩ := hn
    subst hx
    have hlen' : ∀ v ∈ g.out u, v < (St.mk q st.visited).visited.length := by
      intro v hv; simp [h.len]; exact (hg u v hv).2
    obtain ⟨h1, h2, new, h3, h4, h5, h6⟩ := foldl_discover w (g.out u) ⟨q, st.visited⟩ hlen'
    rw [hst] at h1 h2 h3
    simp only at h1 h2 h3 h4 h6
    have hul : IsHopDist g S u w := h.lvl (u, w) (by simp [hq])
    have hsorted := h.sorted
    rw [hq] at hsorted
    have hspan := h.span (u, w) (by simp [hq])
    rw [hq] at hspan
    -- levels: everything before `new` is ≤ w+1, everything in q is ≥ w
    have hEle : ∀ p ∈ E, p.2 ≤ w := by
      intro p hp
      have := List.pairwise_append.mp (by simpa using hsorted : ((E.map (·.2)) ++ (w :: q.map (·.2))).Pairwise (· ≤ ·))
      exact this.2.2 p.2 (List.mem_map.mpr ⟨p, hp, rfl⟩) w (by simp)
    have hqge : ∀ p ∈ q, w ≤ p.2 := by
      intro p hp
      have := List.pairwise_append.mp (by simpa using hsorted : ((E.map (·.2)) ++ (w :: q.map (·.2))).Pairwise (· ≤ ·))
      have := (List.pairwise_cons.mp this.2.1).1
      exact this p.2 (List.mem_map.mpr ⟨p, hp, rfl⟩)
    have hqle : ∀ p ∈ q, p.2 ≤ w + 1 := fun p hp => hspan p (by simp [hp])
    refine { toInv := hbase, lvl := ?_, sorted := ?_, span := ?_ }
    · intro p hp
      rw [h3] at hp
      have : p ∈ E ++ (u,w) :: q ∨ p ∈ new := by
        simp at hp ⊢; grind
      rcases this with hp | hp
      · exact h.lvl p (by rw [hq]; exact hp)
      · obtain ⟨hmem, hnv, hlv⟩ := h4 p hp
        rw [hlv]
        refine ⟨ReachIn.step hul.1 hmem, ?_⟩
        intro j hj hr
        have := seen g S E st h j p.1 hr (by
          intro p' hp'; rw [hq] at hp'
          rcases List.mem_cons.mp hp' with rfl | hp'
          · simp; omega
          · have := hqge p' hp'; omega)
        simp [this] at hnv
    · rw [h3]
      have : ((E ++ [(u, w)]) ++ (q ++ new)).map (·.2) = ((E ++ (u,w) :: q).map (·.2)) ++ new.map (·.2) := by simp
      rw [this]
      refine List.pairwise_append.mpr ⟨hsorted, ?_, ?_⟩
      · have : ∀ a ∈ new.map (·.2), a = w + 1 := by
          intro a ha; obtain ⟨p, hp, rfl⟩ := List.mem_map.mp ha; exact (h4 p hp).2.2
        exact List.pairwise_of_forall_mem_list (fun a ha b hb => by rw [this a ha, this b hb]; exact Nat.le_refl _)
      · intro a ha b hb
        obtain ⟨p', hp', rfl⟩ := List.mem_map.mp hb
        rw [(h4 p' hp').2.2]
        obtain ⟨p, hp, rfl⟩ := List.mem_map.mp ha
        rcases List.mem_append.mp hp with hp | hp
        · have := hEle p hp; omega
        · rcases List.mem_cons.mp hp with rfl | hp
          · simp
          · exact hqle p hp
    · intro hd hhd p hp
      rw [h3] at hhd hp
      have hhdge : w ≤ hd.2 := by
        cases q with
        | nil =>
          simp at hhd
          cases new with
          | nil => simp at hhd
          | cons n ns => simp at hhd; subst hhd; have := (h4 n (by simp)).2.2; omega
        | cons q0 qs => simp at hhd; subst hhd; exact hqge q0 (by simp)
      rcases List.mem_append.mp hp with hp | hp
      · have := hqle p hp; omega
      · have := (h4 p hp).2.2; omega


/-! ### whole runs -/

/-- Run the iterator to exhaustion (at most `fuel` items); also return the final state. -/
def bfsRunSt (g : Graph) : Nat → St → List (Nat × Nat) × St
  | 0, st => ([], st)
  | f+1, st => match bfsNext g st with
    | none => ([], st)
    | some (x, st') => let r := bfsRunSt g f st'; (x :: r.1, r.2)

theorem bfsRun_eq (g : Graph) : ∀ fuel st, bfsRun g fuel st = (bfsRunSt g fuel st).1 := by
  intro fuel; induction fuel with
  | zero => intro st; rfl
  | succ f ih => intro st; simp only [bfsRun, bfsRunSt]; cases bfsNext g st with
    | none => rfl
    | some p => simp [ih]

theorem inv_card (g : Graph) (S E st) (h : Inv g S E st) : E.length + st.queue.length ≤ g.n := by
  have hsub : (E ++ st.queue).map (·.1) ⊆ List.range g.n := by
    intro x hx
    have hv := (h.vis x).mpr hx
    refine List.mem_range.mpr ?_
    unfold isVis at hv
    rcases hlt : st.visited[x]? with _ | b
    · simp [hlt] at hv
    · have := (List.getElem?_eq_some_iff.mp hlt).1; rw [h.len] at this; exact this
  have := h.nodup.length_le_of_subset hsub
  simpa using this

theorem run_inv (g : Graph) (hg : g.WF) (S : List Nat) :
    ∀ (fuel : Nat) (E : List (Nat × Nat)) (st : St), InvD g S E st → g.n < fuel + E.length →
      InvD g S (E ++ (bfsRunSt g fuel st).1) (bfsRunSt g fuel st).2 ∧ (bfsRunSt g fuel st).2.queue = [] := by
  intro fuel
  induction fuel with
  | zero =>
    intro E st h hlt
    have := inv_card g S E st h.toInv
    omega
  | succ f ih =>
    intro E st h hlt
    simp only [bfsRunSt]
    cases hn : bfsNext g st with
    | none =>
      have hq : st.queue = [] := by
        unfold bfsNext at hn; cases hq : st.queue with
        | nil => rfl
        | cons p q => obtain ⟨u, w⟩ := p; simp [hq] at hn
      simpa using ⟨h, hq⟩
    | some p =>
      obtain ⟨x, st'⟩ := p
      have h' := step_invD g hg S E st st' x h hn
      have := ih (E ++ [x]) st' h' (by simp; omega)
      simpa [List.append_assoc] using this

theorem isVis_replicate (n x : Nat) : isVis (List.replicate n false) x = false := by
  unfold isVis; by_cases h : x < n <;> simp [List.getElem?_replicate, h]

theorem bfsNew_spec (g : Graph) (S : List Nat) (hS : ∀ s ∈ S, s < g.n) :
    (bfsNew g S).queue = S.map (fun s => (s, 0)) ∧ (bfsNew g S).visited.length = g.n ∧
    ∀ x, isVis (bfsNew g S).visited x = decide (x ∈ S) := by
  unfold bfsNew
  suffices H : ∀ (S : List Nat) (st : St), (∀ s ∈ S, s < st.visited.length) →
      let r := S.foldl (fun st u => (⟨st.queue ++ [(u, 0)], st.visited.set u true⟩ : St)) st
      r.queue = st.queue ++ S.map (fun s => (s, 0)) ∧ r.visited.length = st.visited.length ∧
      ∀ x, isVis r.visited x = (isVis st.visited x || decide (x ∈ S)) by
    have := H S ⟨[], List.replicate g.n false⟩ (by simpa using hS)
    simpa [isVis_replicate] using this
  intro S
  induction S with
  | nil => intro st _; simp
  | cons s S ih =>
    intro st hs
    have hs0 : s < st.visited.length := hs s (by simp)
    have := ih ⟨st.queue ++ [(s, 0)], st.visited.set s true⟩ (by intro x hx; simpa using hs x (by simp [hx]))
    simp only [List.foldl_cons]
    obtain ⟨a, b, c⟩ := this
    refine ⟨by simp [a], by simpa using b, ?_⟩
    intro x; rw [c x, isVis_set _ _ _ hs0]
    by_cases hx : x = s <;> simp [hx]

theorem init_invD (g : Graph) (S : List Nat) (hS : ∀ s ∈ S, s < g.n) (hnd : S.Nodup) :
    InvD g S [] (bfsNew g S) := by
  obtain ⟨hq, hl, hv⟩ := bfsNew_spec g S hS
  have hmap : (S.map (fun s => (s, 0))).map (·.1) = S := by simp [Function.comp_def]
  refine { len := hl, vis := ?_, nodup := ?_, reach := ?_, closed := ?_, src := ?_, lvl := ?_, sorted := ?_, span := ?_ }
  · intro x; rw [hv x, hq]; simp [hmap]
  · rw [hq]; simpa [hmap] using hnd
  · intro x hx; rw [hq] at hx; simp [hmap] at hx; exact ⟨x, hx, Reach.refl x⟩
  · intro p hp; simp at hp
  · intro s hs; rw [hv s]; simpa using hs
  · intro p hp; rw [hq] at hp; simp at hp; obtain ⟨s, hs, rfl⟩ := hp
    exact ⟨ReachIn.src hs, fun j hj => by omega⟩
  · rw [hq]; simp [List.pairwise_map]; exact List.pairwise_of_forall (fun _ _ => trivial)
  · intro hd _ p hp; rw [hq] at hp; simp at hp; obtain ⟨s, _, rfl⟩ := hp; simp

/-- C04 for `BfsDist` (model level): with enough fuel the run yields every reachable vertex exactly
once, nothing else, each with its exact hop distance, in non-decreasing distance order. -/
theorem bfsDist_correct (g : Graph) (hg : g.WF) (S : List Nat) (hS : ∀ s ∈ S, s < g.n) (hnd : S.Nodup)
    (fuel : Nat) (hf : g.n < fuel) :
    let out := bfsRun g fuel (bfsNew g S)
    (out.map (·.1)).Nodup ∧
    (∀ v, v ∈ out.map (·.1) ↔ ReachFrom g S v) ∧
    (∀ p ∈ out, IsHopDist g S p.1 p.2) ∧
    (out.map (·.2)).Pairwise (· ≤ ·) := by
  have h0 := init_invD g S hS hnd
  obtain ⟨hI, hq⟩ := run_inv g hg S fuel [] (bfsNew g S) h0 (by simpa using hf)
  rw [bfsRun_eq]
  simp only [List.nil_append] at hI
  refine ⟨?_, ?_, ?_, ?_⟩
  · simpa [hq] using hI.nodup
  · intro v; constructor
    · intro hv; exact hI.reach v (by simp [hq]; simpa using hv)
    · intro hv; exact closed_reach g S _ _ hI.toInv hq v hv
  · intro p hp; exact hI.lvl p (by simp [hq, hp])
  · simpa [hq] using hI.sorted

end Proto.Bfs
